#!/usr/bin/env python3
"""Regenerates MANIFEST.json from the table below. A property is claimed only when its harness
package exists and it is listed in ENABLED; everything else goes to not_applicable with a reason."""
import json, os, subprocess

HERE = os.path.dirname(os.path.abspath(__file__))

BASELINE_OFF = ("export GOFLAGS=-mod=mod GOPROXY=off GOSUMDB=off GOTOOLCHAIN=local; "
                "for m in $(cat /w/out/gomods.txt); do (cd /repo/$m && go test -mod=mod -json -vet=off -count=1 -timeout 25m ./...); done")

P = {
 "C01": dict(level="exploration", tech="runtime monitor: recording exporter + ticket-clock history oracle (exactly-once, batch bound, exclusivity, quiet-after-shutdown, flush visibility, conservation vs SDK drop counter) over seeded concurrent histories under go -race; queue-capacity family with a gate-parked worker; unbuffered queue (blocking mode); exporters re-read their batch before returning (batch stability while exporting); processor list edited while End walks it (shared spanlist scenario); export failures wrapping context errors; deadline-flush family (full blocking queue, flush contexts of microseconds)",
             text="Held on every generated concurrent history of End/ForceFlush/Shutdown against the real BatchSpanProcessor with slow/failing/blocking exporters; evidence reports overlaps actually observed. Exploration is the right level: the property quantifies over schedules, which only executions can sample.",
             note="Trusts the Go race detector, the harness' recording exporter and ticket clock; interleavings not produced are not covered."),
 "C02": dict(level="exploration", tech="runtime monitor: interval (linearizability) oracle + conservation ledger over concurrent Add/Collect histories under go -race (pre-built options and metric.WithAttributes over one shared caller-owned slice); porcupine linearizability check of short histories in the thorough tier; cardinality limit spelled as 'no limit' (negative / unparsable)",
             text="Held on all generated concurrent recording/collection histories over manual and periodic readers; sums are exact (small integers).",
             note="Trusts race detector, harness ledgers, porcupine; schedules not produced are not covered."),
 "C03": dict(level="exploration", tech="runtime monitor: independent W3C ABNF recognisers + move-to-front list model over generated/mutated headers and edit programs; fresh carriers and carriers an earlier hop already wrote to; extraction over a stale extraction of the same span",
             text="Held on every generated span context, header byte string and Insert/Delete program; recognisers are written from the W3C ABNF independently of the code.",
             note="Trusts the hand-transcribed W3C grammar in the harness; inputs outside the generators' reach are not covered."),
 "C04": dict(level="exploration", tech="runtime monitor: ordered-map/bounded-FIFO reference model compared with the ReadOnlySpan delivered to a recording processor, over generated span programs and limits; canaries behind caller-owned option slices",
             text="Held on every generated program of span API calls under every drawn limit vector; model and truncation predicate are independent of the SDK.",
             note="Trusts the harness reference model; attribute order is not asserted (unspecified)."),
 "C05": dict(level="exploration", tech="runtime monitor: map model of key->typed value compared against Set construction, equality, map identity, filter and lookup APIs over generated slices, permutations and duplications; lookups of the empty key and of every present key's neighbours; slices presented with spare capacity and junk behind len; filter key slices reused by the caller; scalar constructors and sets must hand back the bits they were given",
             text="Held on every generated key-value slice, permutation, duplication and filter predicate.",
             note="Trusts the harness model of typed-value equality."),
 "C06": dict(level="exploration", tech="runtime monitor: recording log exporter + ticket-clock history oracle (once, per-producer order, batch bound, exclusivity, overwrite-soundness, immutability) over seeded concurrent histories under go -race",
             text="Held on every generated concurrent history of Emit/ForceFlush/Shutdown against the real BatchProcessor with slow/failing/blocking exporters.",
             note="Trusts race detector and harness exporter; schedules not produced are not covered."),
 "C07": dict(level="exploration", tech="runtime monitor: exact (big-float / exponent arithmetic) bucket-index oracle applied incrementally to every intermediate collection of generated measurement sequences; concurrent record/collect family checking every collected point for internal consistency; observable-counter family; shuffled boundary lists through view functions; consumer writes into received points",
             text="Held on every generated measurement sequence, boundary list and (MaxSize, MaxScale) pair, collecting after every few records so every rescale is observed.",
             note="Trusts math/big and the harness' incremental rescale model."),
 "C08": dict(level="exploration", tech="runtime monitor: running delta ledger vs cumulative reader, interval adjacency on reported timestamps, async observation script model, over generated multi-cycle histories; wide (thousands of sets), concurrent (record while collecting, overlapping collections of one reader) and interrupted (collection attempts on done contexts, callbacks failing on demand) families; bucket layouts of different lengths with shifting output slots in reused ResourceMetrics; several goroutines creating one asynchronous instrument at once; same-named observables in meters that differ by version / schema URL / attributes",
             text="Held on every generated history of measurements, callback scripts, (un)registrations and collections for all instrument kinds and aggregations.",
             note="Mostly single-threaded histories plus a concurrent and an interrupted-collection family; trusts the harness ledger."),
 "C09": dict(level="exploration", tech="runtime monitor: sampler wrapped by a recording sampler, span trees checked against the recorded decisions; ratio sampler determinism/monotonicity/extremes on generated trace ids; binomial band for the share; trees repeated under runtime/trace; late children of ended parents; concurrent ends through a simple span processor; snapshot Parent() vs start context; trees under OTEL_TRACES_SAMPLER values; a held, always-failing batch exporter drained at Shutdown; processor list edited while End walks it; slow re-reading batch exporter under concurrent ForceFlush",
             text="Held on every generated span tree, sampler composition, parent class and (trace id, ratio) pair.",
             note="'tracks r' is a 6-sigma statistical band; trusts the wrapper's log."),
 "C10": dict(level="exploration", tech="runtime monitor: per-span OnEnd counters, tagged mutation groups (torn-write detection), snapshot re-comparison, ticket-clock child count bounds, with and without runtime/trace, under go -race; processors that read the live span, churned processors probed inside/after their registration window, tiny event/link queues, caller-owned attribute buffers, live ReadOnlySpan reads racing End, stack-trace ownership (goroutine header) for concurrent RecordError(WithStackTrace); record-only spans; errors whose Error() panics; logging code that re-enters the provider (instrumented logger)",
             text="Held on every generated concurrent program on shared spans in traced and untraced mode; evidence reports truly overlapping End calls.",
             note="Trusts race detector; interleavings not produced are not covered."),
 "C11": dict(level="exploration", tech="runtime monitor: member/property map model + independent percent codec and limit arithmetic over generated baggage, mutated/raw header bytes and edit programs; extraction into contexts that already carry baggage; baggage on derived contexts",
             text="Held on every generated member set, header byte string and edit program.",
             note="Trusts the harness model of the W3C baggage grammar and limits."),
 "C12": dict(level="exploration", tech="runtime monitor: reference first-seen limiter + conservation ledgers over generated attribute-set streams, limits, temporalities and view combinations incl. a value-dependent filter (plus a -race concurrent variant); readers whose aggregation selectors disagree about dropping, fed by sync adds, instrument callbacks and RegisterCallback; measurements recorded through long key-value lists with overridden entries; limits spelled as 'no limit'",
             text="Held on every generated stream/limit/view combination; totals are exact.",
             note="Trusts harness ledger; OTEL_GO_X_CARDINALITY_LIMIT is the only way to set the limit at this commit."),
 "C13": dict(level="exploration", tech="runtime monitor: loopback OTLP/Zipkin collectors decode what the real exporters put on the wire; two independent projections (input objects vs decoded protobuf) compared as multisets; schema-URL-only resources; schema-URL-only scopes",
             text="Held on every generated batch for the six OTLP exporters and Zipkin; gRPC and HTTP payloads compared after canonical ordering.",
             note="Trusts protobuf/gRPC libraries and the harness projection."),
 "C14": dict(level="fault_enumeration", tech="runtime monitor: scripted loopback collectors inject response sequences; oracle over attempts, payload identity, gaps vs hints, results, error-handler reports; partial success with count only / message only; unbounded budget under a hint longer than the default budget; RetryInfo with zero delay; slow answers counted against the budget",
             text="Single-outcome table enumerated completely for the six exporters, seeded multi-outcome sequences, cancellation/shutdown points.",
             note="Lower bounds on waits are hard; upper bounds decided logically with generous watchdogs."),
 "C15": dict(level="exploration", tech="runtime monitor: membership model + shutdown counters in recording components, child process per program (panics/process death observed by parent), concurrent variant under go -race; processor list edited while End walks it; exporters that read every span; processors whose Shutdown reports an error; exporters that fail to close; child-process cases classified as hang by two stack samples",
             text="Held on every generated lifecycle program on the three providers incl. nil exporters and cancelled contexts.",
             note="Trusts child-process supervision; schedules not produced are not covered."),
 "C16": dict(level="exploration", tech="runtime monitor: one process per trial; ledger of post-install telemetry vs ManualReader/recording processor, callback counters, watchdog with two-sample deadlock confirmation, go -race; installations interrupted by a fail-fast error handler (panic / Goexit); late registrations mixing SDK-native and placeholder observables; tracer scopes (version, schema URL, attributes) compared at the SDK",
             text="Held on every generated trial racing creation, recording, (un)registration and installation.",
             note="Deadlock = two identical stack samples of goroutines parked in otel frames; schedules not produced are not covered."),
 "C17": dict(level="exploration", tech="runtime monitor: ordered-map model with recursive truncation predicate compared against Record contents after generated SetAttributes/AddAttributes programs; clone divergence; concurrent Emit through one shared Logger; caller slices reused after the call; overridden limit options",
             text="Held on every generated program under every drawn (count, length) limit pair, on emitted records and clones.",
             note="Trusts the harness model."),
 "C18": dict(level="exploration", tech="runtime monitor: independent name/suffix/label recogniser + twin cumulative ManualReader value comparison on gathered families; child per batch (process death observed); concurrent scrapes under go -race; scopes publishing one instrument name in different units; resources target_info cannot be built from; observable counter values under overlapping scrapes",
             text="Held on every generated instrument name/unit/kind/attribute/option case in both validation schemes.",
             note="Trusts client_golang's registry as the acceptance oracle plus the harness recogniser."),
 "C19": dict(level="exploration", tech="runtime monitor: map model of right-biased union + schema case analysis + independent percent codec over generated resources, environment strings and detector lists (whole, and split over sub-slice options); identity of operands incl. nil vs Empty(); attribute lists used for construction repeatedly",
             text="Held on every generated pair/triple, environment string and detector list.",
             note="Trusts the harness model."),
 "C20": dict(level="fault_enumeration", tech="runtime monitor: child process per configuration row; behavioural observation at loopback collectors (who received, path, headers, compression, deadline) and at SDK extension points; all-zero raw span limits option; header and timeout rows over a caller-supplied gRPC connection / an HTTP client with a proxy function",
             text="Source cross product {absent, valid, invalid}^3 enumerated completely per exporter and setting; SDK env tables enumerated; invalid values must not kill the child.",
             note="Timeouts observed as handler deadlines (gRPC) / hard lower bounds (HTTP)."),
}

def main():
    enabled = [l.strip() for l in open(os.path.join(HERE, "ENABLED")) if l.strip() and not l.startswith("#")]
    checks, na = [], []
    for pid in sorted(P):
        m = P[pid]
        pkg = "c" + pid[1:]
        if pid in enabled and os.path.isdir(os.path.join(HERE, "harness", pkg)):
            checks.append({
                "property_id": pid,
                "quick_cmd": f"./check {pid} quick",
                "thorough_cmd": f"./check {pid} thorough",
                "evidence_file": f"/verif/evidence/{pid}.json",
                "replay_cmd_template": f"./check {pid} --replay {{path}}",
                "engine": "harness",
                "level_claimed": {"category": m["level"], "text": m["text"], "design_ref": f"DESIGN.md §3 {pid}"},
                "level_note": m["note"],
                "technique": m["tech"],
            })
        else:
            na.append({"property_id": pid, "reason": "runtime-monitoring check designed (DESIGN.md §3) but not yet built/validated; not claimed until it is silent on the unchanged tree"})
    man = {
        "version": 1,
        "setup_cmd": "./setup.sh",
        "hooks": {
            "guard": "verif",
            "enable": "go build -tags verif (harness/go.mod replaces every otel module with /repo); no guarded source hooks are needed: all observation points are public API",
            "baseline_off_cmd": BASELINE_OFF,
            "source_commits": [],
            "add_only": True,
        },
        "engines": [{"name": "harness", "path": "/verif/harness", "serves_properties": [c["property_id"] for c in checks],
                     "kind_free_text": "Go module of runtime monitors (one main package per property + shared kit vf) driven by ./check; go -race for concurrency properties"}],
        "checks": checks,
        "notes": "exit 0 held / 1 VIOLATION / 2 INCONCLUSIVE. Known findings in /verif/known_findings.json. Seeded mutants in /verif/seeded.",
        "not_applicable": na,
    }
    json.dump(man, open(os.path.join(HERE, "MANIFEST.json"), "w"), indent=1)
    print("claimed:", [c["property_id"] for c in checks])

main()
