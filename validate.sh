#!/bin/bash
# validates MANIFEST.json and every evidence file against the schemas
cd "$(dirname "$0")"
python3-vt - <<'PY'
import json,jsonschema,glob,sys
ok=True
try:
    jsonschema.validate(json.load(open('MANIFEST.json')), json.load(open('/root/.vp/MANIFEST.schema.json')))
except Exception as e:
    print("MANIFEST invalid:", e); ok=False
es=json.load(open('/root/.vp/EVIDENCE.schema.json'))
for f in sorted(glob.glob('evidence/*.json')):
    try:
        jsonschema.validate(json.load(open(f)), es)
    except Exception as e:
        print(f, "invalid:", str(e)[:300]); ok=False
print("valid" if ok else "INVALID")
sys.exit(0 if ok else 1)
PY
