#!/bin/bash
# Offline setup: warm the Go build cache by building every check binary once (race and non-race).
set -u
cd "$(dirname "$0")"
export GOFLAGS=-mod=mod GOPROXY=off GOSUMDB=off GOTOOLCHAIN=local CGO_ENABLED=1
unset GOWORK
mkdir -p bin evidence replays work
rc=0
for d in harness/c[0-9][0-9]; do
  pkg=$(basename "$d")
  prop="C${pkg#c}"
  race=""
  case "$prop" in C01|C02|C06|C10|C12|C15|C16|C18) race="-race";; esac
  [ -f "$d/.race" ] && race="-race"
  (cd harness && go build $race -tags verif -o "../bin/$pkg" "./$pkg") || rc=1
done
exit $rc
