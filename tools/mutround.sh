#!/bin/bash
# tools/mutround.sh <outdir> <Cxx> [also-props...]  : run mutcheck for <outdir>/<Cxx>/{1,2,3}
out="$1"; p="$2"; shift 2
for m in 1 2 3; do
  [ -d "$out/$p/$m" ] || continue
  echo "##### $p #$m"
  /verif/tools/mutcheck.sh "$out/$p/$m" "$p" quick ${SCR:-/tmp/scr} 2>&1 | cut -c1-230 | grep -v "^C[0-9][0-9] quick\|^HELD\|^VIOLATION"
done
