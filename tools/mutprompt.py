#!/usr/bin/env python3
"""tools/mutprompt.py <Cxx> <worktree> <outdir> [n]
Prints the self-contained task text given to an independent sub-agent that seeds property-breaking
changes. It contains the property text, the scratch worktree and output directory, and one-line
summaries of the changes already archived for this property (so that a new round does not repeat
them). It contains nothing about the verification machinery."""
import sys, json, glob, os, re

pid, wt, out = sys.argv[1:4]
n = int(sys.argv[4]) if len(sys.argv) > 4 else 2
prop = None
for l in open("/verif/properties.jsonl"):
    o = json.loads(l)
    if o["id"] == pid:
        prop = o
text = (f"Title: {prop['title']}\nStatement: {prop['statement']}\nQuantified over: {prop['quantifier']['text']}\n"
        f"Why the existing tests cannot settle it: {prop['why_tests_cant']}\n"
        f"Anchored in: {', '.join(prop['anchors'].get('files', []))}\n")
earlier = []
for d in sorted(glob.glob(f"/verif/seeded/{pid}-*"), key=lambda p: int(p.rsplit('-', 1)[1])):
    try:
        m = json.load(open(os.path.join(d, "meta.json")))
    except Exception:
        continue
    s = re.sub(r"\s+", " ", m.get("summary") or "")[:230]
    earlier.append(f"  - [{', '.join(m.get('files_touched') or [])[:90]}] {s}")
nums = "TWO" if n == 2 else str(n)
print(f"""You are a Go engineer doing mutation seeding for a verification study. You work ONLY inside the scratch git worktree {wt} (a checkout of open-telemetry/opentelemetry-go, a multi-module Go repository, Go 1.23.5, sandbox is OFFLINE) and write your results to {out}/. Never read or write /repo, /verif or any other directory, and do not look for verification tooling: your output must be independent of it.

Every shell call must start with: export GOFLAGS=-mod=mod GOPROXY=off GOSUMDB=off GOTOOLCHAIN=local

PROPERTY ({pid}):
{text}
TASK: produce {nums} different, realistic changes (independent of each other, different mechanisms / code sites) to the library's non-test source that each BREAK this property while the code still compiles and ALL existing tests of every affected Go module still pass (run `go test -count=1 ./...` inside each module directory you touched, e.g. {wt}/sdk, {wt}/sdk/metric, {wt}/trace, root module for attribute/baggage/propagation; a module is a directory with go.mod; also run dependent modules' tests when you change something they use). The changes should look like plausible refactoring slips or 'optimisations' a maintainer could make, and each must need something SPECIFIC to manifest: a particular interleaving, a crash/fault/error at a particular point, a multi-step sequence of operations, an unusual input or configuration, or two cooperating sites that each look fine alone. Do NOT produce changes that ordinary simple use exposes at once (they would be caught by the existing tests anyway). Do not edit, delete or skip existing tests. Keep each patch small (a few lines to ~30 lines).

Earlier rounds already produced the changes below for this property. Do NOT repeat them or close variants: pick other code sites, other clauses of the property, other trigger kinds (look also at the less obvious files the property depends on: helpers, option parsing, pooled buffers, caches, error paths, generated copies of shared internal packages):
{chr(10).join(earlier)}

For each change n in 1..{n} write into {out}/<n>/:
  - patch.diff : `git diff` of the source change only, relative to the worktree root (must apply with `git apply` on a clean checkout of HEAD);
  - a demonstration: a single Go test file demo_test.go plus a file DEMO_DIR.txt holding the package directory (relative to the repo root) where demo_test.go must be placed to run, and RUN.txt with the exact go test command relative to the worktree root (e.g. `cd sdk && go test -count=1 -run TestDemo ./trace/`). The demo must FAIL with the patch applied and PASS on the unpatched tree, reliably (if it is schedule dependent, loop inside the test until it reproduces, bounded to < 60 s, and make sure the unpatched run passes). The demo may use internal test access if placed in the package, but prefer the public API.
  - meta.json : {{"property": "{pid}", "summary": "...", "needs_to_manifest": "...", "files_touched": [...], "commands_run": ["..."], "existing_tests": "pass", "demo_with_patch": "fail", "demo_without_patch": "pass"}}.
Verify all of this yourself, in both directions, before writing meta.json. Apply one change at a time (git checkout -- . between them; NEVER use `git stash`: the stash is shared with other worktrees of the same repository — switch between patched and unpatched trees with `git apply` / `git apply -R` of your saved patch.diff). When finished leave the worktree clean (`git -C {wt} status --short` prints nothing): remove demo files and revert patches. Do not commit anything. Final answer: a 5-line summary per change (what, where, what it needs to manifest).""")
