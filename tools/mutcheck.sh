#!/bin/bash
# tools/mutcheck.sh <dir-with-patch.diff-demo> <Cxx> [tier] [scratch]
# Confirms a seeded change in a scratch worktree (existing tests pass, demo fails with / passes
# without), then runs the check against the patched scratch tree. Never touches /repo.
set -u
src="$1"; prop="$2"; tier="${3:-quick}"; scr="${4:-/tmp/scr}"
export GOFLAGS=-mod=mod GOPROXY=off GOSUMDB=off GOTOOLCHAIN=local
if [ ! -d "$scr" ]; then git -C /repo worktree add -q --detach "$scr" HEAD || exit 3; fi
cd "$scr" && git checkout -q --detach "$(git -C /repo rev-parse HEAD)" && git checkout -q -- . && git clean -qfd
ddir="$(cat "$src/DEMO_DIR.txt" | tr -d '\n ')"
runcmd="$(grep -v '^\s*$' "$src/RUN.txt" | head -1)"
demo() { cp "$src/demo_test.go" "$scr/$ddir/zz_demo_test.go"; (cd "$scr" && timeout 600 bash -c "$runcmd") > /tmp/mutcheck.demo.$$ 2>&1; rc=$?; rm -f "$scr/$ddir/zz_demo_test.go"; return $rc; }
echo "== demo without patch"; if demo; then echo "   pass (expected)"; else echo "   FAIL (unexpected)"; tail -15 /tmp/mutcheck.demo.$$; fi
git apply "$src/patch.diff" || { echo "patch does not apply"; exit 3; }
echo "== demo with patch"; if demo; then echo "   PASS (unexpected: demo does not detect)"; else echo "   fail (expected)"; fi
echo "== existing tests of touched modules"
mods=$(git diff --name-only | while read f; do d=$(dirname "$f"); while [ ! -f "$d/go.mod" ] && [ "$d" != "." ]; do d=$(dirname "$d"); done; echo "$d"; done | sort -u)
for m in $mods; do (cd "$scr/$m" && go test -count=1 ./... 2>&1 | grep -v "^ok\|no test files" | head -10; echo "   module $m rc=${PIPESTATUS[0]}"); done
echo "== check $prop $tier against patched tree"
cd /verif && VERIF_REPO="$scr" ./check "$prop" "$tier" > /tmp/mutcheck.out.$$ 2>&1; rc=$?
grep -c "^VIOLATION" /tmp/mutcheck.out.$$ | sed 's/^/   VIOLATION lines: /'
grep "^VIOLATION" /tmp/mutcheck.out.$$ | sed 's/replay=[^ ]*//' | sort | uniq -c | sort -rn | head -6
echo "   check exit=$rc"
tail -2 /tmp/mutcheck.out.$$ | cut -c1-400
cd "$scr" && git checkout -q -- . && git clean -qfd
rm -f /tmp/mutcheck.demo.$$ /tmp/mutcheck.out.$$
