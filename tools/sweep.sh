#!/bin/bash
# tools/sweep.sh <tier> <seed>...   runs every enabled check at every seed against /repo; prints one line per run
tier="$1"; shift
cd "$(dirname "$0")/.."
mkdir -p work; out=work/sweep.$tier.$(date +%s).txt; : > $out
for s in "$@"; do
  for p in $(cat ENABLED); do
    t0=$(date +%s)
    VERIF_SEED=$s ./check $p $tier > work/sweep.out 2>&1; rc=$?
    t1=$(date +%s)
    nv=$(grep -c "^VIOLATION" work/sweep.out); nk=$(grep -c "^KNOWN-FINDING" work/sweep.out)
    echo "$p $tier seed=$s exit=$rc violations=$nv known=$nk secs=$((t1-t0))" | tee -a $out
    if [ $rc -ne 0 ]; then cp work/sweep.out work/sweep.FAIL.$p.$tier.$s.txt; grep "^VIOLATION\|^INCONCLUSIVE" work/sweep.out | head -5 | tee -a $out; fi
  done
done
echo "sweep written to $out"
