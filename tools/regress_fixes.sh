#!/bin/bash
# tools/regress_fixes.sh [tier]
# For every "fixed" entry of known_findings.json: revert that fix commit in a scratch worktree of
# /repo HEAD and run the property's check against it. The check must report a VIOLATION again
# (a fixed entry suppresses nothing). Never touches /repo's working tree.
set -u
tier="${1:-quick}"
scr=/tmp/scr-fixes
export GOFLAGS=-mod=mod GOPROXY=off GOSUMDB=off GOTOOLCHAIN=local
git -C /repo worktree remove --force "$scr" 2>/dev/null
git -C /repo worktree add -q --detach "$scr" HEAD || exit 3
out=/verif/work/regress-fixes.$(date +%s).txt; mkdir -p /verif/work; : > "$out"
python3 - <<'PY' > /verif/work/fixes.list
import json
seen=set()
for f in json.load(open('/verif/known_findings.json'))['findings']:
    if f['status']=='fixed':
        print(f['property'], f['commit'], f['id'])
PY
while read prop commit id; do
  (cd "$scr" && git checkout -q -- . && git clean -qfd)
  # companion commits that fix the same defect in a sibling package are reverted together
  commits="$commit"
  case "$commit" in 55e0ad0) commits="a53e338 55e0ad0";; 45c17df) commits="62c46ef 45c17df";; ee1b455) commits="df7a6bc ee1b455";; esac  # df7a6bc rewrote the lines ee1b455 added
  ok=1
  for c in $commits; do (cd "$scr" && git revert --no-commit "$c" >/dev/null 2>&1) || ok=0; done
  if [ $ok = 0 ]; then echo "$id $prop $commit REVERT-CONFLICT" | tee -a "$out"; (cd "$scr" && git revert --abort 2>/dev/null; git reset -q --hard HEAD); continue; fi
  cd /verif && VERIF_REPO="$scr" ./check "$prop" "$tier" > /verif/work/regress.out 2>&1; rc=$?
  n=$(grep -c "^VIOLATION" /verif/work/regress.out)
  cls=$(grep "^VIOLATION" /verif/work/regress.out | sed 's/.*class=\([^ ]*\).*/\1/' | sort | uniq -c | sort -rn | head -3 | awk '{printf "%s(%s) ", $2, $1}')
  echo "$id $prop reverted=$commits exit=$rc violations=$n $cls" | tee -a "$out"
  (cd "$scr" && git reset -q --hard HEAD)
done < /verif/work/fixes.list
git -C /repo worktree remove --force "$scr"
echo "summary in $out"
