#!/bin/bash
# Runs the repository's pinned baseline (hooks off) and compares pass set with BASELINE.json stable_pass.
export GOFLAGS=-mod=mod GOPROXY=off GOSUMDB=off GOTOOLCHAIN=local
out=/tmp/baseline.$$.json
: > $out
for m in $(cat /w/out/gomods.txt); do (cd /repo/$m && go test -mod=mod -json -vet=off -count=1 -timeout 25m ./... >> $out 2>/dev/null); done
python3 - "$out" <<'PY'
import json,sys
passed=set(); failed=set()
for l in open(sys.argv[1]):
    try: e=json.loads(l)
    except: continue
    if e.get('Test') and e.get('Action') in('pass','fail'):
        (passed if e['Action']=='pass' else failed).add(e['Package']+'::'+e['Test'])
b=json.load(open('/root/.vp/BASELINE.json'))
sp=set(b['stable_pass'])
missing=sp-passed
print("stable_pass:",len(sp),"passed now:",len(passed),"failed now:",len(failed),"stable tests not passing:",len(missing))
for t in sorted(missing)[:20]: print("  MISSING",t)
for t in sorted(failed)[:20]: print("  FAILED",t)
PY
rm -f $out
