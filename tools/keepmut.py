#!/usr/bin/env python3
"""keepmut.py <srcdir> <seeded-id> <property> <caught: yes|no|partial> <classes/notes>
Archives a confirmed seeded change under /verif/seeded/<id>/ (patch.diff, demo, meta.json)."""
import sys, os, json, shutil
src, sid, prop, caught, notes = sys.argv[1:6]
dst = f"/verif/seeded/{sid}"
os.makedirs(dst, exist_ok=True)
for f in ("patch.diff", "demo_test.go", "DEMO_DIR.txt", "RUN.txt"):
    shutil.copy(os.path.join(src, f), os.path.join(dst, f))
m = json.load(open(os.path.join(src, "meta.json")))
meta = {
    "id": sid, "property": prop,
    "summary": m.get("summary"), "needs_to_manifest": m.get("needs_to_manifest"),
    "files_touched": m.get("files_touched"),
    "origin": "independent sub-agent given only the property text and a scratch worktree",
    "confirmed_by_me": {
        "how": "tools/mutcheck.sh in a scratch worktree: demo passes on HEAD, fails with patch; `go test -count=1 ./...` of every touched module passes with the patch",
        "existing_tests_with_patch": "pass", "demo_with_patch": "fail", "demo_without_patch": "pass"},
    "check_result": {"cmd": f"VERIF_REPO=<patched scratch worktree> ./check {prop} quick", "caught": caught, "notes": notes},
}
json.dump(meta, open(os.path.join(dst, "meta.json"), "w"), indent=1)
print("kept", dst)
