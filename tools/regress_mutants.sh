#!/bin/bash
# tools/regress_mutants.sh [tier] [id-glob]
# Re-runs every archived seeded change (seeded/<id>/patch.diff, or patch.ported.diff when the original
# no longer applies) against the current checks in a scratch worktree of /repo HEAD and reports
# which are caught. The property checked is the one in meta.json, plus "also_checked_by" if present.
# SCR=<dir> selects the scratch worktree (several runs may go in parallel with different ones).
# Never touches /repo's working tree; the scratch worktree is removed at the end.
set -u
tier="${1:-quick}"; glob="${2:-*}"
scr="${SCR:-/tmp/scr-regress}"
export GOFLAGS=-mod=mod GOPROXY=off GOSUMDB=off GOTOOLCHAIN=local
git -C /repo worktree remove --force "$scr" 2>/dev/null
git -C /repo worktree add -q --detach "$scr" HEAD || exit 3
out=/verif/work/regress.$(date +%s).$$.txt; mkdir -p /verif/work; : > "$out"
for d in /verif/seeded/$glob/; do
  id=$(basename "$d"); prop=$(python3 -c "import json;print(json.load(open('$d/meta.json'))['property'])")
  also=$(python3 -c "import json;print(' '.join(json.load(open('$d/meta.json')).get('also_checked_by',[])))")
  (cd "$scr" && git checkout -q -- . && git clean -qfd)
  patch="$d/patch.diff"
  if ! (cd "$scr" && git apply --check "$patch" 2>/dev/null); then
    if [ -f "$d/patch.ported.diff" ] && (cd "$scr" && git apply --check "$d/patch.ported.diff" 2>/dev/null); then patch="$d/patch.ported.diff"; else echo "$id $prop DOES-NOT-APPLY" | tee -a "$out"; continue; fi
  fi
  (cd "$scr" && git apply "$patch")
  res=""
  for p in $prop $also; do
    cd /verif && VERIF_REPO="$scr" ./check "$p" "$tier" > /verif/work/regress.out.$$ 2>&1; rc=$?
    n=$(grep -c "^VIOLATION" /verif/work/regress.out.$$)
    cls=$(grep "^VIOLATION" /verif/work/regress.out.$$ | sed 's/.*class=\([^ ]*\).*/\1/' | sort | uniq -c | sort -rn | head -3 | awk '{printf "%s(%s) ", $2, $1}')
    res="$res $p:exit=$rc,violations=$n $cls"
  done
  echo "$id$res" | tee -a "$out"
done
(cd "$scr" && git checkout -q -- . && git clean -qfd)
rm -f /verif/work/regress.out.$$
git -C /repo worktree remove --force "$scr"
echo "summary in $out"
