#!/bin/bash
# tools/mc.sh <round-outdir> <Cxx> <n> [check-prop]: confirm + check one freshly seeded change (condensed output)
out="$1"; p="$2"; n="$3"; cp="${4:-$p}"
/verif/tools/mutcheck.sh "$out/$p/$n" "$cp" quick "${SCR:-/tmp/mut/r6-$p}" 2>&1 | grep -v "pass (expected)\|fail (expected)\|== demo\|== existing" | grep -A9 "module\|FAIL\|PASS\|== check" | cut -c1-260
