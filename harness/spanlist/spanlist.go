// Package spanlist holds one scenario shared by C01, C09 and C15: the list of registered span processors is
// edited (Unregister / Register) while a span's End is part-way through walking it. A gate processor parks
// the End call inside its OnEnd; the edit happens; the gate opens. Every processor that was registered before
// End was called and is still registered when End returns must get the span exactly once, and simple / batch
// processors among them must hand it to their exporter exactly once. Nothing here depends on timing: the
// interleaving is forced by channels.
package spanlist

import (
	"context"
	"fmt"
	"sync"
	"time"

	sdktrace "go.opentelemetry.io/otel/sdk/trace"
	"go.opentelemetry.io/otel/trace"

	"verifharness/vf"
)

type countExp struct {
	mu  sync.Mutex
	ids map[trace.SpanID]int
}

func (e *countExp) ExportSpans(_ context.Context, ss []sdktrace.ReadOnlySpan) error {
	e.mu.Lock()
	for _, s := range ss {
		e.ids[s.SpanContext().SpanID()]++
	}
	e.mu.Unlock()
	return nil
}
func (e *countExp) Shutdown(context.Context) error { return nil }
func (e *countExp) n(id trace.SpanID) int {
	e.mu.Lock()
	defer e.mu.Unlock()
	return e.ids[id]
}

type recorder struct {
	mu  sync.Mutex
	ids map[trace.SpanID]int
}

func (p *recorder) OnStart(context.Context, sdktrace.ReadWriteSpan) {}
func (p *recorder) OnEnd(s sdktrace.ReadOnlySpan) {
	p.mu.Lock()
	p.ids[s.SpanContext().SpanID()]++
	p.mu.Unlock()
}
func (p *recorder) Shutdown(context.Context) error   { return nil }
func (p *recorder) ForceFlush(context.Context) error { return nil }

type gate struct {
	recorder
	entered chan struct{}
	open    chan struct{}
	armed   trace.SpanID
}

func (g *gate) OnEnd(s sdktrace.ReadOnlySpan) {
	g.recorder.OnEnd(s)
	if s.SpanContext().SpanID() == g.armed {
		close(g.entered)
		<-g.open
	}
}

type member struct {
	kind string // gate, recorder, simple, batch
	sp   sdktrace.SpanProcessor
	rec  *recorder // for gate / recorder
	exp  *countExp // for simple / batch
}

func (m *member) seen(id trace.SpanID) int {
	if m.exp != nil {
		return m.exp.n(id)
	}
	m.rec.mu.Lock()
	defer m.rec.mu.Unlock()
	return m.rec.ids[id]
}

// Run plays one scenario drawn from r and returns what it covered plus the violations it saw
// (empty when the library behaved).
func Run(r *vf.RNG) (desc string, violations []string) {
	n := 3 + r.Intn(3)
	gpos := r.Intn(n - 1) // never the last: something must follow the gate in the walk
	g := &gate{recorder: recorder{ids: map[trace.SpanID]int{}}, entered: make(chan struct{}), open: make(chan struct{})}
	var ms []*member
	var opts []sdktrace.TracerProviderOption
	mk := func() *member {
		switch r.Intn(3) {
		case 0:
			rc := &recorder{ids: map[trace.SpanID]int{}}
			return &member{kind: "recorder", sp: rc, rec: rc}
		case 1:
			e := &countExp{ids: map[trace.SpanID]int{}}
			return &member{kind: "simple", sp: sdktrace.NewSimpleSpanProcessor(e), exp: e}
		default:
			e := &countExp{ids: map[trace.SpanID]int{}}
			return &member{kind: "batch", sp: sdktrace.NewBatchSpanProcessor(e, sdktrace.WithBatchTimeout(time.Hour), sdktrace.WithBlocking()), exp: e}
		}
	}
	for i := 0; i < n; i++ {
		var m *member
		if i == gpos {
			m = &member{kind: "gate", sp: g, rec: &g.recorder}
		} else {
			m = mk()
		}
		ms = append(ms, m)
		opts = append(opts, sdktrace.WithSpanProcessor(m.sp))
	}
	tp := sdktrace.NewTracerProvider(opts...)
	defer tp.Shutdown(context.Background())
	tr := tp.Tracer("spanlist")
	_, sp := tr.Start(context.Background(), "walked")
	id := sp.SpanContext().SpanID()
	g.armed = id
	done := make(chan struct{})
	go func() { sp.End(); close(done) }()
	<-g.entered
	// the edit, while End is parked inside the gate processor's OnEnd
	removed := map[int]bool{}
	edit := r.Intn(4)
	var added *member
	switch edit {
	case 0: // the gate itself leaves
		tp.UnregisterSpanProcessor(g)
		removed[gpos] = true
	case 1: // a processor the walk already passed, or the gate, or one still ahead (not the last) leaves
		v := r.Intn(n - 1)
		tp.UnregisterSpanProcessor(ms[v].sp)
		removed[v] = true
	case 2: // one leaves, another joins
		v := r.Intn(n - 1)
		tp.UnregisterSpanProcessor(ms[v].sp)
		removed[v] = true
		added = mk()
		tp.RegisterSpanProcessor(added.sp)
	default: // two leave
		v := r.Intn(n - 1)
		w := r.Intn(n)
		tp.UnregisterSpanProcessor(ms[v].sp)
		tp.UnregisterSpanProcessor(ms[w].sp)
		removed[v], removed[w] = true, true
	}
	close(g.open)
	<-done
	ctx, cancel := context.WithTimeout(context.Background(), 30*time.Second)
	defer cancel()
	_ = tp.ForceFlush(ctx)
	for _, m := range ms {
		if m.kind == "batch" {
			_ = m.sp.ForceFlush(ctx) // an unregistered batcher was shut down (and so flushed) already; harmless
		}
	}
	kinds := ""
	for i, m := range ms {
		if i > 0 {
			kinds += ","
		}
		kinds += m.kind
		if removed[i] {
			kinds += "(unregistered during End)"
		}
	}
	desc = fmt.Sprintf("processors [%s], End parked in the gate at position %d, edit %d", kinds, gpos, edit)
	for i, m := range ms {
		c := m.seen(id)
		switch {
		case removed[i]:
			if c > 1 {
				violations = append(violations, fmt.Sprintf("%s: the %s processor at position %d (unregistered while End was running) got the span %d times", desc, m.kind, i, c))
			}
		case c != 1:
			violations = append(violations, fmt.Sprintf("%s: the %s processor at position %d was registered from before End was called until after it returned and got the span %d times (want exactly 1)", desc, m.kind, i, c))
		}
	}
	if added != nil && added.seen(id) > 1 {
		violations = append(violations, fmt.Sprintf("%s: the processor registered during End got the span %d times", desc, added.seen(id)))
	}
	// afterwards, sequentially: a second span goes to exactly the current members
	_, sp2 := tr.Start(context.Background(), "after")
	id2 := sp2.SpanContext().SpanID()
	sp2.End()
	_ = tp.ForceFlush(ctx)
	for i, m := range ms {
		c := m.seen(id2)
		want := 1
		if removed[i] {
			want = 0
		}
		if c != want {
			violations = append(violations, fmt.Sprintf("%s: after the edit a new span reached the %s processor at position %d %d times (want %d)", desc, m.kind, i, c, want))
		}
	}
	if added != nil && added.seen(id2) != 1 {
		violations = append(violations, fmt.Sprintf("%s: after the edit a new span reached the newly registered processor %d times (want 1)", desc, added.seen(id2)))
	}
	return desc, violations
}
