// C11 — baggage survives a header round trip and enforces the W3C limits; immutability.
package main

import (
	"context"
	"fmt"
	"sort"
	"strings"
	"unicode/utf8"

	"go.opentelemetry.io/otel/baggage"
	"go.opentelemetry.io/otel/propagation"

	"verifharness/vf"
)

// ---------------------------------------------------------------------------------------------
// model

type mprop struct {
	Key, Value string
	HasValue   bool
}

type mmember struct {
	Value string
	Props []mprop
}

type mbag map[string]mmember

func modelOf(b baggage.Baggage) mbag {
	m := mbag{}
	for _, mem := range b.Members() {
		mm := mmember{Value: mem.Value()}
		for _, p := range mem.Properties() {
			v, hv := p.Value()
			mm.Props = append(mm.Props, mprop{p.Key(), v, hv})
		}
		m[mem.Key()] = mm
	}
	return m
}

func (m mbag) canon() string {
	var keys []string
	for k := range m {
		keys = append(keys, k)
	}
	sort.Strings(keys)
	var sb strings.Builder
	for _, k := range keys {
		fmt.Fprintf(&sb, "%s=%s", vf.Quote(k), vf.Quote(m[k].Value))
		for _, p := range m[k].Props {
			if p.HasValue {
				fmt.Fprintf(&sb, ";%s=%s", vf.Quote(p.Key), vf.Quote(p.Value))
			} else {
				fmt.Fprintf(&sb, ";%s", vf.Quote(p.Key))
			}
		}
		sb.WriteString(" , ")
	}
	return sb.String()
}

// canonNoPhantom ignores properties with an empty key (see DESIGN: a trailing ';' is tolerated by
// the parser and produces a property that carries nothing).
func (m mbag) canonNoPhantom() string {
	c := mbag{}
	for k, v := range m {
		nv := mmember{Value: v.Value}
		for _, p := range v.Props {
			if p.Key != "" {
				nv.Props = append(nv.Props, p)
			}
		}
		c[k] = nv
	}
	return c.canon()
}

// ---------------------------------------------------------------------------------------------
// independent codec (W3C baggage: token keys, baggage-octet values, percent-encoding)

const tokenChars = "!#$%&'*+-.^_`|~0123456789abcdefghijklmnopqrstuvwxyzABCDEFGHIJKLMNOPQRSTUVWXYZ"

func isToken(s string) bool {
	if s == "" {
		return false
	}
	for i := 0; i < len(s); i++ {
		if strings.IndexByte(tokenChars, s[i]) < 0 {
			return false
		}
	}
	return true
}

func isBaggageOctet(c byte) bool {
	return c == 0x21 || (c >= 0x23 && c <= 0x2b) || (c >= 0x2d && c <= 0x3a) || (c >= 0x3c && c <= 0x5b) || (c >= 0x5d && c <= 0x7e)
}

func unhex(c byte) (byte, bool) {
	switch {
	case c >= '0' && c <= '9':
		return c - '0', true
	case c >= 'a' && c <= 'f':
		return c - 'a' + 10, true
	case c >= 'A' && c <= 'F':
		return c - 'A' + 10, true
	}
	return 0, false
}

// pctDecode: strict percent-decoding; ok=false when a '%' is not followed by two hex digits.
func pctDecode(s string) (string, bool) {
	var sb strings.Builder
	for i := 0; i < len(s); i++ {
		if s[i] != '%' {
			sb.WriteByte(s[i])
			continue
		}
		if i+2 >= len(s)+0 && i+2 > len(s)-1 {
			return "", false
		}
		h, ok1 := unhex(s[i+1])
		l, ok2 := unhex(s[i+2])
		if !ok1 || !ok2 {
			return "", false
		}
		sb.WriteByte(h<<4 | l)
		i += 2
	}
	return sb.String(), true
}

func replaceInvalid(s string) string {
	if utf8.ValidString(s) {
		return s
	}
	var sb strings.Builder
	for i := 0; i < len(s); {
		r, size := utf8.DecodeRuneInString(s[i:])
		if r == utf8.RuneError && size == 1 {
			sb.WriteString("�")
		} else {
			sb.WriteString(s[i : i+size])
		}
		i += size
	}
	return sb.String()
}

func trimOWS(s string) string { return strings.Trim(s, " \t") }

// modelParse: what a successful Parse of h must have produced (keys, last-wins values, properties).
// It is only consulted when the library accepted the header, and only for headers whose members are
// all of the plain `key OWS = OWS value *(;prop)` shape with space/tab as the only whitespace; ok=false
// means "shape not modelled, skip the comparison".
func modelParse(h string) (mbag, bool) {
	m := mbag{}
	for _, ms := range strings.Split(h, ",") {
		kv, props, hasProps := strings.Cut(ms, ";")
		k, v, found := strings.Cut(kv, "=")
		if !found {
			return nil, false
		}
		key := trimOWS(k)
		if !isToken(key) {
			return nil, false
		}
		raw := trimOWS(v)
		for i := 0; i < len(raw); i++ {
			if !isBaggageOctet(raw[i]) {
				return nil, false
			}
		}
		dec, ok := pctDecode(raw)
		if !ok {
			return nil, false
		}
		mm := mmember{Value: replaceInvalid(dec)}
		if hasProps {
			for _, ps := range strings.Split(props, ";") {
				ps = trimOWS(ps)
				if ps == "" {
					mm.Props = append(mm.Props, mprop{}) // phantom
					continue
				}
				pk, pv, has := strings.Cut(ps, "=")
				pk = trimOWS(pk)
				if !isToken(pk) {
					return nil, false
				}
				if !has {
					mm.Props = append(mm.Props, mprop{Key: pk})
					continue
				}
				pv = trimOWS(pv)
				for i := 0; i < len(pv); i++ {
					if !isBaggageOctet(pv[i]) {
						return nil, false
					}
				}
				pd, ok := pctDecode(pv)
				if !ok {
					return nil, false
				}
				mm.Props = append(mm.Props, mprop{pk, replaceInvalid(pd), true})
			}
		}
		m[key] = mm
	}
	return m, true
}

// ---------------------------------------------------------------------------------------------
// generators

func genKey(r *vf.RNG) string {
	switch r.Intn(8) {
	case 0:
		return r.ASCIIFrom(tokenChars, 1)
	case 1:
		return r.ASCIIFrom(tokenChars, 1+r.Intn(30))
	default:
		return vf.Pick(r, []string{"k", "key", "user.id", "a-b", "X", "tenant", "k1", "k2", "k3", "%41", "a%", "~"}) + r.ASCIIFrom("abc123", r.Intn(3))
	}
}

func genRawValue(r *vf.RNG) string {
	switch r.Intn(10) {
	case 0:
		return ""
	case 1:
		return vf.Pick(r, []string{",", ";", "=", "%", "%41", "%zz", "% ", " ", "\t", "\"", "\\", " lead", "trail ", "a,b;c=d", "😀", "�", "%EF%BF%BD", "\x00", "\x7f", "a\nb"})
	case 2:
		return r.UTF8String(r.Intn(40))
	case 3:
		return r.ASCIIFrom(" ,;=%\"\\abc", r.Intn(12))
	default:
		return r.UTF8String(r.Intn(8))
	}
}

func pctEncodeRandom(r *vf.RNG, s string) string {
	var sb strings.Builder
	for i := 0; i < len(s); i++ {
		c := s[i]
		if !isBaggageOctet(c) || c == '%' || r.Chance(1, 5) {
			if r.Bool() {
				fmt.Fprintf(&sb, "%%%02X", c)
			} else {
				fmt.Fprintf(&sb, "%%%02x", c)
			}
		} else {
			sb.WriteByte(c)
		}
	}
	return sb.String()
}

func genProps(r *vf.RNG) ([]baggage.Property, []mprop, bool) {
	n := 0
	if r.Chance(1, 3) {
		n = 1 + r.Intn(4)
	}
	var ps []baggage.Property
	var ms []mprop
	for i := 0; i < n; i++ {
		pk := genKey(r)
		switch r.Intn(4) {
		case 0:
			p, err := baggage.NewKeyProperty(pk)
			if err != nil {
				return nil, nil, false
			}
			ps, ms = append(ps, p), append(ms, mprop{Key: pk})
		case 1:
			v := genRawValue(r)
			p, err := baggage.NewKeyValuePropertyRaw(pk, v)
			if err != nil {
				return nil, nil, false
			}
			ps, ms = append(ps, p), append(ms, mprop{pk, v, true})
		case 2:
			p, err := baggage.NewKeyValuePropertyRaw(pk, "")
			if err != nil {
				return nil, nil, false
			}
			ps, ms = append(ps, p), append(ms, mprop{pk, "", true})
		default:
			v := genRawValue(r)
			p, err := baggage.NewKeyValueProperty(pk, pctEncodeRandom(r, v))
			if err != nil {
				return nil, nil, false
			}
			ps, ms = append(ps, p), append(ms, mprop{pk, v, true})
		}
	}
	return ps, ms, true
}

type mapCarrier map[string]string

func (c mapCarrier) Get(k string) string { return c[k] }
func (c mapCarrier) Set(k, v string)     { c[k] = v }
func (c mapCarrier) Keys() []string      { return nil }

func sizeClass(n int) string {
	switch {
	case n <= 4000:
		return "small"
	case n <= 4096:
		return "<=4096"
	case n <= 8192:
		return "<=8192"
	}
	return ">8192"
}

func main() {
	vf.Main("C11", "exploration", func(c *vf.Ctx) {
		c.Rule = "constructor side: members with W3C token keys, values/property values from a UTF-8 generator (delimiters, %, %41, spaces, quotes, non-BMP, U+FFFD), 0-4 properties, sizes straddling 180 members / 4096 per member / 8192 total, through NewMember (percent-encoded) and NewMemberRaw; parser side: mutated valid headers and raw bytes; edit programs on a baggage held in three contexts; every constructed baggage is also extracted into contexts that already carry baggage; baggage stored on contexts derived from one another. distinct = distinct (family, accept/reject, size class, member-count class, escape classes) signatures"
		c.Assume = []string{"round trip is required for W3C token keys (NewMemberRaw also admits arbitrary UTF-8 keys which String() omits; exercised for no-panic only)", "properties with an empty key produced by a trailing ';' carry nothing and are ignored when comparing"}
		prop := propagation.Baggage{}

		c.Cases("construct", c.N(60_000, 800_000), 0, func(k *vf.Case) {
			r := k.R
			n := 1 + r.Intn(6)
			big := r.Intn(12)
			switch big {
			case 0:
				n = 178 + r.Intn(5) // 178..182 members
			}
			var members []baggage.Member
			want := mbag{}
			escapes := map[byte]bool{}
			for i := 0; i < n; i++ {
				key := genKey(r)
				if big == 0 {
					key = fmt.Sprintf("k%d", i)
				}
				val := genRawValue(r)
				switch {
				case big == 1 && i == 0: // one member near 4096
					val = r.ASCIIFrom("abcdefgh", 4096-len(key)-1+r.Intn(5)-2)
				case big == 2: // total near 8192
					val = r.ASCIIFrom("abcdefgh", (8192/n)-len(key)-2+r.Intn(3)-1)
				case big == 3 && i == 0: // escaped growth near a limit
					val = strings.Repeat(vf.Pick(r, []string{" ", "é", ",", "😀"}), 1300+r.Intn(100))
				}
				ps, mps, ok := genProps(r)
				if !ok {
					k.Violate("property-constructor-rejected-valid", "", "", nil)
					return
				}
				var m baggage.Member
				var err error
				if r.Bool() {
					m, err = baggage.NewMemberRaw(key, val, ps...)
				} else {
					m, err = baggage.NewMember(key, pctEncodeRandom(r, val), ps...)
				}
				if err != nil {
					k.Violate("member-constructor-rejected-valid", "", fmt.Sprintf("key %s value %s: %v", vf.Quote(key), vf.Quote(val), err), nil)
					return
				}
				members = append(members, m)
				want[key] = mmember{Value: val, Props: mps}
				for j := 0; j < len(val); j++ {
					if !isBaggageOctet(val[j]) || val[j] == '%' {
						escapes[val[j]] = true
					}
				}
			}
			b, err := baggage.New(members...)
			// measure sizes with the library's own serialisation via SetMember (which checks nothing)
			var probe baggage.Baggage
			for _, m := range members {
				probe, _ = probe.SetMember(m)
			}
			total := len(probe.String())
			maxMember := 0
			for _, m := range probe.Members() {
				if l := len(m.String()); l > maxMember {
					maxMember = l
				}
			}
			within := len(want) <= 180 && total <= 8192 && maxMember <= 4096
			sig := fmt.Sprintf("construct|%v|%s|%s|%d", err == nil, sizeClass(total), sizeClass(maxMember), min(len(want), 181)/60)
			k.C.Sig(sig)
			if err != nil {
				k.C.Count("construct_rejected", 1)
				if within {
					k.Violate("constructor-rejected-within-limits", "", fmt.Sprintf("members=%d total=%d maxMember=%d err=%v", len(want), total, maxMember, err), nil)
				}
				return
			}
			k.C.Count("construct_accepted", 1)
			if !within {
				what := "total > 8192"
				switch {
				case len(want) > 180:
					what = "more than 180 members"
				case maxMember > 4096 && total <= 8192:
					what = "member > 4096 bytes"
				}
				k.Violate("constructor-accepted-beyond-limits", what, fmt.Sprintf("members=%d total=%d maxMember=%d", len(want), total, maxMember), nil)
				return
			}
			if got := modelOf(b).canon(); got != want.canon() {
				k.Violate("constructed-baggage-differs", "", fmt.Sprintf("got  %s\nwant %s", got, want.canon()), nil)
				return
			}
			hdr := b.String()
			p, perr := baggage.Parse(hdr)
			if perr != nil {
				k.Violate("roundtrip-parse-failed", sizeClass(maxMember), fmt.Sprintf("Parse(String()) failed: %v\nheader(%d bytes): %s", perr, len(hdr), vf.Quote(hdr)), nil)
				return
			}
			if got := modelOf(p).canon(); got != want.canon() {
				k.Violate("roundtrip-mismatch", "", fmt.Sprintf("header %s\n got  %s\n want %s", vf.Quote(hdr), got, want.canon()), nil)
			}
			// Inject -> Extract
			car := mapCarrier{}
			prop.Inject(baggage.ContextWithBaggage(context.Background(), b), car)
			out := baggage.FromContext(prop.Extract(context.Background(), car))
			if got := modelOf(out).canon(); got != want.canon() {
				k.Violate("inject-extract-mismatch", "", fmt.Sprintf("got  %s\nwant %s", got, want.canon()), nil)
			}
			// the receiving side usually has a context of its own: what the carrier holds replaces whatever
			// baggage that context carried (extraction is not a merge)
			if len(want) > 0 {
				staleM, _ := baggage.NewMemberRaw("stale-local-key", "left over")
				stale, _ := baggage.New(staleM)
				for key := range want {
					if m2, e2 := baggage.NewMemberRaw(key, "stale value of a key the carrier also has"); e2 == nil {
						if s2, e3 := stale.SetMember(m2); e3 == nil {
							stale = s2
						}
					}
					break
				}
				for _, parent := range []baggage.Baggage{stale, b} {
					out2 := baggage.FromContext(prop.Extract(baggage.ContextWithBaggage(context.Background(), parent), car))
					if got := modelOf(out2).canon(); got != want.canon() {
						k.Violate("inject-extract-mismatch", "extracted into a context that already carries baggage", fmt.Sprintf("got  %s\nwant %s", got, want.canon()), nil)
					}
				}
				k.C.Count("roundtrips_extracted_over_existing_baggage", 1)
			}
			k.C.Count("roundtrips", 1)
			k.C.Count("escaped_byte_classes", int64(len(escapes)))
			if len(want) >= 179 {
				k.C.Count("roundtrips_near_180_members", 1)
			}
			if maxMember > 4000 {
				k.C.Count("roundtrips_near_4096_member", 1)
			}
			if total > 8000 {
				k.C.Count("roundtrips_near_8192_total", 1)
			}
			if k.Index < 2 {
				k.C.Sample(map[string]any{"family": "construct", "header": vf.Quote(hdr)})
			}
		})

		// constructors given values that are not UTF-8 (raw, or behind well-formed percent escapes): either the
		// constructor refuses, or what it built is valid UTF-8 and survives the round trip unchanged
		c.Cases("construct-invalid", c.N(20_000, 200_000), 0, func(k *vf.Case) {
			r := k.R
			bad := vf.Pick(r, []string{"\xff", "\xc3", "\xed\xa0\x80", "\xf0\x9f\x92", "\xc0\xaf", "a\x80b", "\xfe\xff"})
			val := r.ASCIIFrom("abc", r.Intn(4)) + bad + r.ASCIIFrom("xyz", r.Intn(4))
			enc := ""
			for i := 0; i < len(val); i++ {
				if val[i] >= 0x80 || r.Chance(1, 5) {
					enc += fmt.Sprintf("%%%02X", val[i])
				} else {
					enc += string(val[i])
				}
			}
			key := genKey(r)
			var m baggage.Member
			var err error
			how := r.Intn(4)
			k.Guard("panic-construct", "invalid UTF-8", func() {
				switch how {
				case 0:
					m, err = baggage.NewMember(key, enc)
				case 1:
					m, err = baggage.NewMemberRaw(key, val)
				case 2:
					var p baggage.Property
					p, err = baggage.NewKeyValueProperty("p", enc)
					if err == nil {
						m, err = baggage.NewMemberRaw(key, "v", p)
					}
				default:
					var p baggage.Property
					p, err = baggage.NewKeyValuePropertyRaw("p", val)
					if err == nil {
						m, err = baggage.NewMemberRaw(key, "v", p)
					}
				}
			})
			k.C.Count("construct_invalid_utf8_cases", 1)
			if err != nil {
				k.C.Count("construct_invalid_utf8_rejected", 1)
				return
			}
			what := []string{"NewMember", "NewMemberRaw", "NewKeyValueProperty", "NewKeyValuePropertyRaw"}[how]
			held := m.Value()
			for _, p := range m.Properties() {
				if v, ok := p.Value(); ok {
					held += "\x00" + v
				}
			}
			if !utf8.ValidString(held) {
				k.Violate("constructor-accepted-invalid-utf8", what, fmt.Sprintf("value %s accepted and held as %s", vf.Quote(val), vf.Quote(held)), nil)
				return
			}
			b, err := baggage.New(m)
			if err != nil {
				return
			}
			back, err := baggage.Parse(b.String())
			if err != nil {
				k.Violate("roundtrip-parse-failed", what+" invalid UTF-8", err.Error(), nil)
				return
			}
			if got := back.Member(key).Value(); got != m.Value() {
				k.Violate("roundtrip-mismatch", what+" invalid UTF-8", fmt.Sprintf("held %s, after the round trip %s", vf.Quote(m.Value()), vf.Quote(got)), nil)
			}
		})

		c.Cases("parse", c.N(200_000, 3_000_000), 0, func(k *vf.Case) {
			r := k.R
			var h string
			switch r.Intn(10) {
			case 0:
				h = string(r.Bytes(r.Intn(60)))
			case 1: // long single member / many duplicates / sizes at limits
				switch r.Intn(7) {
				case 5: // a member whose size comes from its properties: short key=value, total around 4096
					tot := 4096 + r.Intn(5) - 2
					if r.Chance(1, 3) {
						tot = 4097 + r.Intn(3000)
					}
					base := "k=v;p=" // 6 bytes
					h = base + r.ASCIIFrom("abc", tot-len(base))
					if r.Bool() {
						h = "a=b," + h
					}
				case 6: // several properties adding up across the limit
					var sb strings.Builder
					sb.WriteString("k=v")
					target := 4096 + r.Intn(7) - 3
					for i := 0; sb.Len() < target; i++ {
						room := target - sb.Len()
						seg := fmt.Sprintf(";p%d=", i)
						if room <= len(seg) {
							sb.WriteString(";" + r.ASCIIFrom("q", room-1))
							break
						}
						n := room - len(seg)
						if n > 700 {
							n = 100 + r.Intn(600)
						}
						sb.WriteString(seg + r.ASCIIFrom("abc", n))
					}
					h = sb.String()
				case 0:
					h = "k=" + r.ASCIIFrom("abc", 4094+r.Intn(4)-2)
				case 1:
					var p []string
					for i := 0; i < 200; i++ {
						p = append(p, "dup="+r.ASCIIFrom("xyz", 2))
					}
					h = strings.Join(p, ",")
				case 2:
					var p []string
					for i := 0; i < 179+r.Intn(4); i++ {
						p = append(p, fmt.Sprintf("k%d=v", i))
					}
					h = strings.Join(p, ",")
				case 3:
					h = "a=" + r.ASCIIFrom("abc", 4000) + ",b=" + r.ASCIIFrom("abc", 4186+r.Intn(5)-2)
				default:
					h = "k=" + strings.Repeat("%FF", 1360+r.Intn(10)) // decodes to U+FFFD runs
				}
			default:
				n := 1 + r.Intn(5)
				var parts []string
				for i := 0; i < n; i++ {
					key := genKey(r)
					val := pctEncodeRandom(r, genRawValue(r))
					if r.Chance(1, 8) {
						val += vf.Pick(r, []string{"%", "%4", "%zz", "%FF", "%C3", "%ff%fe", "\"q\"", " ", "é"})
					}
					s := key
					if r.Chance(1, 6) {
						s = " " + s + "\t"
					}
					s += "="
					if r.Chance(1, 6) {
						s += " "
					}
					s += val
					for j := r.Intn(3); j > 0 && r.Chance(1, 3); j-- {
						switch r.Intn(5) {
						case 0:
							s += ";" + genKey(r)
						case 1:
							s += "; " + genKey(r) + " = " + pctEncodeRandom(r, genRawValue(r))
						case 2:
							s += ";"
						case 3:
							s += ";;" + genKey(r)
						default:
							s += ";" + genKey(r) + "=" + pctEncodeRandom(r, genRawValue(r))
						}
					}
					parts = append(parts, s)
				}
				if r.Chance(1, 6) && len(parts) > 0 { // duplicate key
					parts = append(parts, strings.SplitN(parts[0], "=", 2)[0]+"=last")
				}
				h = strings.Join(parts, ",")
				if r.Chance(1, 10) {
					b := []byte(h)
					if len(b) > 0 {
						b[r.Intn(len(b))] = byte(r.U64())
					}
					h = string(b)
				}
				if r.Chance(1, 12) {
					h += vf.Pick(r, []string{",", ",,", " ", ";", "=", ",k"})
				}
			}
			var b baggage.Baggage
			var err error
			if !k.Guard("panic-parse", "", func() { b, err = baggage.Parse(h) }) {
				return
			}
			// Extract must agree and never panic
			var ex baggage.Baggage
			if !k.Guard("panic-extract", "", func() {
				ex = baggage.FromContext(prop.Extract(context.Background(), mapCarrier{"baggage": h}))
			}) {
				return
			}
			if err != nil {
				k.C.Count("parse_rejected", 1)
				if b.Len() != 0 || ex.Len() != 0 {
					k.Violate("error-with-nonempty-baggage", "", vf.Quote(h), h)
				}
				k.C.Sig("parse|rej|" + errClass(err))
				return
			}
			k.C.Count("parse_accepted", 1)
			got := modelOf(b)
			if modelOf(ex).canon() != got.canon() {
				k.Violate("extract-differs-from-parse", "", vf.Quote(h), h)
			}
			// limits
			if len(h) > 8192 {
				k.Violate("parse-accepted-beyond-limits", "total > 8192", fmt.Sprint(len(h)), nil)
			}
			for _, ms := range strings.Split(h, ",") {
				if len(ms) > 4096 {
					k.Violate("parse-accepted-beyond-limits", "member > 4096", fmt.Sprint(len(ms)), nil)
				}
			}
			if b.Len() > 180 {
				k.Violate("parse-accepted-beyond-limits", "more than 180 members", fmt.Sprint(b.Len()), nil)
			}
			// valid UTF-8, valid keys
			for key, mm := range got {
				if !isToken(key) {
					k.Violate("parsed-key-not-token", "", vf.Quote(key)+" from "+vf.Quote(h), h)
				}
				if !utf8.ValidString(mm.Value) {
					k.Violate("parsed-value-invalid-utf8", "member value", vf.Quote(h), h)
				}
				for _, p := range mm.Props {
					if !utf8.ValidString(p.Value) || !utf8.ValidString(p.Key) {
						k.Violate("parsed-value-invalid-utf8", "property", vf.Quote(h), h)
					}
				}
			}
			// content vs the independent model (duplicates -> last, decoding)
			if mp, ok := modelParse(h); ok {
				k.C.Count("parse_compared_with_model", 1)
				if mp.canon() != got.canon() {
					k.Violate("parse-differs-from-model", "", fmt.Sprintf("header %s\n got  %s\n want %s", vf.Quote(h), got.canon(), mp.canon()), h)
				}
			}
			// stability under re-serialising and re-parsing
			s1 := b.String()
			b2, err2 := baggage.Parse(s1)
			grew := "same or shorter"
			if len(s1) > len(h) {
				grew = "re-serialised header longer than the input"
			}
			if err2 != nil {
				key := grew
				if strings.Contains(h, "%") && strings.Contains(s1, "%EF%BF%BD") && len(s1) > len(h) {
					key = "growth by U+FFFD replacement of invalid percent-escaped bytes"
				}
				k.Violate("reparse-failed", key, fmt.Sprintf("Parse ok (%d bytes) but Parse(String()) (%d bytes) failed: %v\ninput %s", len(h), len(s1), err2, vf.Quote(h)), h)
			} else {
				if modelOf(b2).canonNoPhantom() != got.canonNoPhantom() {
					k.Violate("reparse-unstable", "", fmt.Sprintf("input %s\n first  %s\n second %s", vf.Quote(h), got.canon(), modelOf(b2).canon()), h)
				}
				if modelOf(b2).canon() != got.canon() {
					k.C.Count("phantom_empty_properties_seen", 1)
				}
			}
			k.C.Sig(fmt.Sprintf("parse|acc|%d|%s|%v", min(b.Len(), 181)/45, sizeClass(len(h)), strings.Contains(h, ";")))
			if k.Index < 2 {
				k.C.Sample(map[string]any{"family": "parse", "header": vf.Quote(h), "parsed": got.canon()})
			}
		})

		c.Cases("edits", c.N(15_000, 150_000), 0, func(k *vf.Case) {
			r := k.R
			mk := func() baggage.Member {
				ps, _, _ := genProps(r)
				m, _ := baggage.NewMemberRaw(vf.Pick(r, []string{"a", "b", "c", "d", "e"}), genRawValue(r), ps...)
				return m
			}
			cur, _ := baggage.New(mk(), mk())
			model := modelOf(cur)
			type held struct {
				ctx  context.Context
				snap string
			}
			var holds []held
			hold := func() {
				// contexts are derived from one another: each new baggage (an emptied one too) is stored on top
				// of the context holding the previous one and must be what FromContext and Inject see there
				parent := context.Background()
				if len(holds) > 0 && r.Bool() {
					parent = holds[len(holds)-1].ctx
				}
				ctx := baggage.ContextWithBaggage(parent, cur)
				holds = append(holds, held{ctx, modelOf(cur).canon()})
				if got := modelOf(baggage.FromContext(ctx)).canon(); got != modelOf(cur).canon() {
					k.Violate("context-holds-another-baggage", "stored over a context that already carried baggage", fmt.Sprintf("stored %s, FromContext yields %s", modelOf(cur).canon(), got), nil)
				}
				car := mapCarrier{}
				prop.Inject(ctx, car)
				if cur.Len() == 0 && car["baggage"] != "" {
					k.Violate("context-holds-another-baggage", "empty baggage injected as non-empty", car["baggage"], nil)
				}
			}
			hold()
			for op := 0; op < 5+r.Intn(30); op++ {
				before := modelOf(cur).canon()
				prev := cur
				if r.Chance(1, 3) {
					key := vf.Pick(r, []string{"a", "b", "c", "d", "e", "zz"})
					cur = cur.DeleteMember(key)
					delete(model, key)
				} else {
					m := mk()
					if r.Chance(1, 10) {
						m = baggage.Member{} // invalid
					}
					nb, err := cur.SetMember(m)
					if err != nil {
						if modelOf(nb).canon() != before {
							k.Violate("failed-set-changed-baggage", "", "", nil)
						}
					} else {
						mm := mmember{Value: m.Value()}
						for _, p := range m.Properties() {
							v, hv := p.Value()
							mm.Props = append(mm.Props, mprop{p.Key(), v, hv})
						}
						model[m.Key()] = mm
					}
					cur = nb
				}
				if modelOf(prev).canon() != before {
					k.Violate("receiver-mutated", "", fmt.Sprintf("before %s\nafter %s", before, modelOf(prev).canon()), nil)
				}
				if modelOf(cur).canon() != model.canon() {
					k.Violate("edit-model-mismatch", "", fmt.Sprintf("got %s\nwant %s", modelOf(cur).canon(), model.canon()), nil)
					return
				}
				if cur.Len() != len(model) {
					k.Violate("len-mismatch", "", "", nil)
				}
				if r.Chance(1, 4) {
					hold()
				}
			}
			for _, h := range holds {
				if got := modelOf(baggage.FromContext(h.ctx)).canon(); got != h.snap {
					k.Violate("context-copy-mutated", "", fmt.Sprintf("held %s\nnow %s", h.snap, got), nil)
				}
			}
			k.C.Count("edit_programs", 1)
			k.C.Sig(fmt.Sprintf("edit|%d|%d", len(model), len(holds)))
		})

		c.Floor("roundtrips", 10000)
		c.Floor("roundtrips_near_180_members", 100)
		c.Floor("roundtrips_near_4096_member", 100)
		c.Floor("roundtrips_near_8192_total", 100)
		c.Floor("construct_rejected", 100)
		c.Floor("parse_accepted", 10000)
		c.Floor("parse_rejected", 10000)
		c.Floor("parse_compared_with_model", 10000)
	})
}

func errClass(err error) string {
	s := err.Error()
	for _, c := range []string{"invalid key", "invalid value", "property", "list-member too large", "baggage-string too large", "too many", "invalid baggage list-member"} {
		if strings.Contains(s, c) {
			return c
		}
	}
	return "other"
}
