// C15 — provider lifecycle: exact processor membership, single shutdown, safe afterwards.
package main

import (
	"bytes"
	"context"
	"errors"
	"fmt"
	"runtime"
	"strings"
	"sync"
	"sync/atomic"
	"time"

	"github.com/go-logr/logr"
	"go.opentelemetry.io/otel"
	"go.opentelemetry.io/otel/attribute"
	"go.opentelemetry.io/otel/exporters/stdout/stdoutlog"
	"go.opentelemetry.io/otel/exporters/stdout/stdoutmetric"
	"go.opentelemetry.io/otel/exporters/stdout/stdouttrace"
	"go.opentelemetry.io/otel/log"
	"go.opentelemetry.io/otel/metric"
	sdklog "go.opentelemetry.io/otel/sdk/log"
	sdkmetric "go.opentelemetry.io/otel/sdk/metric"
	"go.opentelemetry.io/otel/sdk/metric/metricdata"
	sdktrace "go.opentelemetry.io/otel/sdk/trace"
	"go.opentelemetry.io/otel/trace"

	"verifharness/spanlist"
	"verifharness/vf"
)

// ---------------------------------------------------------------------------------------------
// recording components

type safeBuf struct {
	mu sync.Mutex
	b  bytes.Buffer
}

func (s *safeBuf) Write(p []byte) (int, error) { s.mu.Lock(); defer s.mu.Unlock(); return s.b.Write(p) }
func (s *safeBuf) Len() int                    { s.mu.Lock(); defer s.mu.Unlock(); return s.b.Len() }

type recSP struct {
	name      string
	mu        sync.Mutex
	ended     map[trace.SpanID]int
	started   int
	shutdowns atomic.Int32
	slow      bool
	failClose bool // Shutdown does its work and then reports an error (an exporter that fails to close)
}

func newRecSP(name string) *recSP { return &recSP{name: name, ended: map[trace.SpanID]int{}} }
func (p *recSP) OnStart(context.Context, sdktrace.ReadWriteSpan) {
	p.mu.Lock()
	p.started++
	p.mu.Unlock()
}
func (p *recSP) OnEnd(s sdktrace.ReadOnlySpan) {
	p.mu.Lock()
	p.ended[s.SpanContext().SpanID()]++
	p.mu.Unlock()
}
func (p *recSP) Shutdown(context.Context) error {
	if p.slow {
		time.Sleep(200 * time.Microsecond)
	}
	p.shutdowns.Add(1)
	if p.failClose {
		return errors.New("scripted: the exporter behind this processor failed to close")
	}
	return nil
}
func (p *recSP) ForceFlush(context.Context) error { return nil }
func (p *recSP) count(id trace.SpanID) int {
	p.mu.Lock()
	defer p.mu.Unlock()
	return p.ended[id]
}

type recSpanExp struct {
	exports, afterShutdown atomic.Int32
	shutdowns              atomic.Int32
	failClose              bool // Shutdown reports an error (a connection that fails to close)
}

// readSpans reads every span of a batch the way any real exporter does when it encodes it.
func readSpans(ss []sdktrace.ReadOnlySpan) {
	for _, s := range ss {
		_, _, _, _ = s.Name(), s.SpanContext(), s.Parent(), s.SpanKind()
		_, _, _, _ = s.StartTime(), s.EndTime(), s.Attributes(), s.Events()
		_, _, _, _ = s.Links(), s.Status(), s.Resource(), s.InstrumentationScope()
		_, _, _, _ = s.DroppedAttributes(), s.DroppedEvents(), s.DroppedLinks(), s.ChildSpanCount()
	}
}

func (e *recSpanExp) ExportSpans(_ context.Context, ss []sdktrace.ReadOnlySpan) error {
	readSpans(ss)
	e.exports.Add(int32(len(ss)))
	if e.shutdowns.Load() > 0 {
		e.afterShutdown.Add(1)
	}
	return nil
}
func (e *recSpanExp) Shutdown(context.Context) error {
	e.shutdowns.Add(1)
	if e.failClose {
		return errors.New("scripted: exporter failed to close")
	}
	return nil
}

type recMetricExp struct {
	exports, afterShutdown, shutdowns atomic.Int32
	failExport                        bool
	slowShutdown                      bool
}

func (e *recMetricExp) Temporality(k sdkmetric.InstrumentKind) metricdata.Temporality {
	return sdkmetric.DefaultTemporalitySelector(k)
}
func (e *recMetricExp) Aggregation(k sdkmetric.InstrumentKind) sdkmetric.Aggregation {
	return sdkmetric.DefaultAggregationSelector(k)
}
func (e *recMetricExp) Export(context.Context, *metricdata.ResourceMetrics) error {
	e.exports.Add(1)
	if e.shutdowns.Load() > 0 {
		e.afterShutdown.Add(1)
	}
	if e.failExport {
		return errors.New("scripted export failure")
	}
	return nil
}
func (e *recMetricExp) ForceFlush(context.Context) error { return nil }
func (e *recMetricExp) Shutdown(context.Context) error {
	if e.slowShutdown {
		time.Sleep(300 * time.Microsecond)
	}
	e.shutdowns.Add(1)
	return nil
}

type recLogExp struct {
	exports, afterShutdown, shutdowns atomic.Int32
	slowShutdown                      bool
}

func (e *recLogExp) Export(_ context.Context, rs []sdklog.Record) error {
	e.exports.Add(int32(len(rs)))
	if e.shutdowns.Load() > 0 {
		e.afterShutdown.Add(1)
	}
	return nil
}
func (e *recLogExp) Shutdown(context.Context) error {
	if e.slowShutdown {
		time.Sleep(300 * time.Microsecond)
	}
	e.shutdowns.Add(1)
	return nil
}
func (e *recLogExp) ForceFlush(context.Context) error { return nil }

func ctxOf(r *vf.RNG) (context.Context, context.CancelFunc, string) {
	switch r.Intn(6) {
	case 0:
		ctx, cancel := context.WithCancel(context.Background())
		cancel()
		return ctx, cancel, "cancelled"
	case 1:
		ctx, cancel := context.WithTimeout(context.Background(), 5*time.Second)
		return ctx, cancel, "deadline"
	}
	return context.Background(), func() {}, "live"
}

// ---------------------------------------------------------------------------------------------
// A: sequential register/unregister programs on the TracerProvider against a membership model

func runTraceSeq(k *vf.Case) {
	r := k.R
	procs := []*recSP{newRecSP("p0"), newRecSP("p1"), newRecSP("p2"), newRecSP("p3")}
	var prog []string
	logf := func(f string, a ...any) { prog = append(prog, fmt.Sprintf(f, a...)) }
	if r.Chance(1, 4) {
		fp := vf.Pick(r, procs)
		fp.failClose = true
		logf("(%s reports an error from its Shutdown)", fp.name)
		k.C.Count("trace_programs_with_a_processor_failing_to_close", 1)
	}
	var opts []sdktrace.TracerProviderOption
	var members []*recSP
	if r.Bool() {
		opts = append(opts, sdktrace.WithSpanProcessor(procs[0]))
		members = append(members, procs[0])
		logf("NewTracerProvider(WithSpanProcessor(p0))")
	} else {
		logf("NewTracerProvider()")
	}
	tp := sdktrace.NewTracerProvider(opts...)
	tr := tp.Tracer("a")
	everRegistered := map[*recSP]bool{}
	for _, m := range members {
		everRegistered[m] = true
	}
	shutdown, shutdownLive, firstShutdownCancelled := false, false, false
	stranger := false
	fail := func(class, key, detail string) {
		k.Violate(class, key, fmt.Sprintf("%s\nprogram:\n  %s", detail, strings.Join(prog, "\n  ")), nil)
	}
	nops := 5 + r.Intn(56)
	for i := 0; i < nops; i++ {
		switch r.Intn(12) {
		case 0, 1:
			p := vf.Pick(r, procs)
			logf("Register(%s)", p.name)
			already := false
			for _, m := range members {
				if m == p {
					already = true
				}
			}
			if already || p.shutdowns.Load() > 0 {
				prog = prog[:len(prog)-1]
				continue // keep "registered once" and never re-register a shut-down processor
			}
			tp.RegisterSpanProcessor(p)
			if !shutdown {
				members = append(members, p)
				everRegistered[p] = true
			}
		case 2, 3:
			p := vf.Pick(r, procs)
			in := false
			for j, m := range members {
				if m == p {
					members = append(append([]*recSP{}, members[:j]...), members[j+1:]...)
					in = true
					break
				}
			}
			if !in {
				stranger = true
				logf("Unregister(%s) [not registered]", p.name)
			} else {
				logf("Unregister(%s)", p.name)
			}
			before := p.shutdowns.Load()
			tp.UnregisterSpanProcessor(p)
			if !in && p.shutdowns.Load() != before {
				fail("stranger-unregister-shut-down-a-processor", "", p.name)
			}
			if in && !shutdown && p.shutdowns.Load() != 1 {
				fail("unregistered-processor-shutdown-count", "", fmt.Sprintf("%s shut down %d times", p.name, p.shutdowns.Load()))
			}
		case 4:
			logf("Tracer()")
			tr = tp.Tracer(vf.Pick(r, []string{"a", "b", ""}))
		case 5, 6, 7, 8:
			logf("Start+End")
			_, sp := tr.Start(context.Background(), "s")
			sp.End()
			id := sp.SpanContext().SpanID()
			want := map[*recSP]bool{}
			if !shutdown {
				for _, m := range members {
					want[m] = true
				}
			}
			if firstShutdownCancelled {
				break // membership after an abandoned Shutdown is not modelled
			}
			for _, p := range procs {
				n := p.count(id)
				exp := 0
				if want[p] {
					exp = 1
				}
				if n != exp {
					fail("fan-out-differs-from-membership", map[bool]string{true: "after unregistering a never-registered processor", false: "other"}[stranger],
						fmt.Sprintf("span delivered %d times to %s, expected %d (members %v)", n, p.name, exp, names(members)))
				}
			}
			if shutdownLive && sp.IsRecording() {
				fail("recording-span-after-shutdown", "", "")
			}
		case 9:
			ctx, cancel, kind := ctxOf(r)
			logf("ForceFlush(%s)", kind)
			err := tp.ForceFlush(ctx)
			cancel()
			if err != nil && kind == "live" {
				fail("forceflush-error", "", err.Error())
			}
		default:
			if i < nops/2 && r.Bool() {
				continue
			}
			ctx, cancel, kind := ctxOf(r)
			logf("Shutdown(%s)", kind)
			err := tp.Shutdown(ctx)
			cancel()
			if !shutdown && kind == "cancelled" {
				firstShutdownCancelled = true
			}
			if !shutdown && kind != "cancelled" {
				shutdownLive = true
				failing := false
				for _, m := range members {
					failing = failing || m.failClose
				}
				if err != nil && !failing {
					fail("shutdown-error", kind, err.Error())
				}
				if err == nil && failing {
					fail("shutdown-error-swallowed", kind, "a registered processor's Shutdown returned an error, TracerProvider.Shutdown returned nil")
				}
				for _, m := range members {
					if m.shutdowns.Load() != 1 {
						fail("processor-shutdown-count", "", fmt.Sprintf("%s shut down %d times after provider Shutdown", m.name, m.shutdowns.Load()))
					}
				}
			}
			if shutdown && err != nil && kind == "live" {
				fail("repeated-shutdown-error", "", err.Error())
			}
			shutdown = true
		}
		for _, p := range procs {
			if p.shutdowns.Load() > 1 {
				fail("processor-shut-down-twice", "", p.name)
				return
			}
		}
	}
	if shutdownLive {
		for _, scope := range []string{"after", "a", "b", ""} { // a new scope and the scopes asked for before Shutdown
			_, sp := tp.Tracer(scope).Start(context.Background(), "x")
			if sp.IsRecording() {
				fail("tracer-after-shutdown-records", "", fmt.Sprintf("scope %q", scope))
			}
			sp.End()
		}
		k.C.Count("trace_programs_shut_down", 1)
	}
	k.C.Count("trace_seq_programs", 1)
	k.C.Count("trace_seq_ops", int64(len(prog)))
	if stranger {
		k.C.Count("programs_with_stranger_unregister", 1)
	}
	if firstShutdownCancelled {
		k.C.Count("programs_with_cancelled_first_shutdown", 1)
	}
	k.C.Sig(fmt.Sprintf("tseq|%v|%v|%v|%d", stranger, shutdownLive, firstShutdownCancelled, len(members)))
	if k.C.NeedSample() {
		k.C.Sample(map[string]any{"family": "trace-seq", "program": prog})
	}
}

func names(ps []*recSP) []string {
	var out []string
	for _, p := range ps {
		out = append(out, p.name)
	}
	return out
}

// ---------------------------------------------------------------------------------------------
// B: stock matrix — trace

func runTraceStock(k *vf.Case) {
	r := k.R
	procKind := vf.Pick(r, []string{"simple", "batch"})
	expKind := vf.Pick(r, []string{"recording", "stdout", "nil", "failing-close"})
	buf := &safeBuf{}
	rec := &recSpanExp{}
	var exp sdktrace.SpanExporter
	switch expKind {
	case "recording":
		exp = rec
	case "failing-close":
		// an exporter whose Shutdown reports an error: the processors may pass the error on or hand it to the
		// error handler, but every Shutdown call still returns
		rec.failClose = true
		exp = rec
	case "stdout":
		e, err := stdouttrace.New(stdouttrace.WithWriter(buf))
		if err != nil {
			k.Violate("stock-constructor-error", "", err.Error(), nil)
			return
		}
		exp = e
	}
	var sp sdktrace.SpanProcessor
	if procKind == "simple" {
		sp = sdktrace.NewSimpleSpanProcessor(exp)
	} else {
		bopts := []sdktrace.BatchSpanProcessorOption{sdktrace.WithBatchTimeout(time.Millisecond)}
		if r.Bool() {
			bopts = append(bopts, sdktrace.WithBlocking())
		}
		if r.Chance(1, 3) {
			bopts = append(bopts, sdktrace.WithMaxQueueSize(vf.Pick(r, []int{1, 2, 8})), sdktrace.WithMaxExportBatchSize(vf.Pick(r, []int{1, 2, 8})))
		}
		sp = sdktrace.NewBatchSpanProcessor(exp, bopts...)
	}
	tp := sdktrace.NewTracerProvider(sdktrace.WithSpanProcessor(sp))
	tr := tp.Tracer("stock")
	desc := procKind + "/" + expKind
	fail := func(class, key, detail string) { k.Violate(class, desc+" "+key, detail, nil) }
	span := func() {
		_, s := tr.Start(context.Background(), "s")
		s.SetAttributes(attribute.Int("i", 1))
		s.End()
	}
	for i := r.Intn(5); i > 0; i-- {
		span()
	}
	if r.Bool() {
		ctx, cancel, kind := ctxOf(r)
		if err := tp.ForceFlush(ctx); err != nil && kind == "live" {
			fail("forceflush-error", "", err.Error())
		}
		cancel()
	}
	nShut := 1 + r.Intn(3)
	concurrent := r.Bool()
	firstKind := ""
	var wg sync.WaitGroup
	var callLog []string
	providerShutDown := false // some TracerProvider.Shutdown call carried a context that was not cancelled
	for i := 0; i < nShut; i++ {
		ctx, cancel, kind := ctxOf(r)
		if concurrent && kind == "cancelled" {
			// whichever concurrent call runs first performs the shutdown: none may carry a cancelled context
			ctx, kind = context.Background(), "live"
		}
		if i == 0 {
			firstKind = kind
		}
		via := r.Intn(3)
		if via == 0 && kind != "cancelled" {
			providerShutDown = true
		}
		callLog = append(callLog, fmt.Sprintf("%s(%s)", []string{"tp.Shutdown", "sp.Shutdown", "tp.Unregister"}[via], kind))
		do := func() {
			defer cancel()
			var err error
			switch via {
			case 0:
				err = tp.Shutdown(ctx)
			case 1:
				err = sp.Shutdown(ctx)
			default:
				tp.UnregisterSpanProcessor(sp)
			}
			if err != nil && kind == "live" && expKind != "failing-close" {
				fail("shutdown-error", "", err.Error())
			}
		}
		if concurrent {
			wg.Add(1)
			go func() { defer wg.Done(); do() }()
		} else {
			do()
		}
	}
	wg.Wait()
	time.Sleep(300 * time.Microsecond)
	// after every Shutdown call returned
	outLen := buf.Len()
	exports := rec.exports.Load()
	span()
	for _, scope := range []string{"later", "stock"} { // a new scope and the one asked for before Shutdown
		_, s2 := tp.Tracer(scope).Start(context.Background(), "y")
		if s2.IsRecording() && providerShutDown {
			fail("tracer-after-shutdown-records", "", fmt.Sprintf("scope %q", scope))
		}
		s2.End()
	}
	if err := tp.ForceFlush(context.Background()); err != nil {
		fail("forceflush-after-shutdown-error", "", err.Error())
	}
	if err := tp.Shutdown(context.Background()); err != nil && expKind != "failing-close" {
		fail("repeated-shutdown-error", "", err.Error())
	}
	if err := sp.Shutdown(context.Background()); err != nil && expKind != "failing-close" {
		fail("repeated-shutdown-error", "processor", err.Error())
	}
	time.Sleep(3 * time.Millisecond)
	if firstKind != "cancelled" {
		if expKind == "recording" && rec.shutdowns.Load() != 1 {
			fail("exporter-shutdown-count", "", fmt.Sprintf("%d", rec.shutdowns.Load()))
		}
		if buf.Len() != outLen || rec.exports.Load() != exports {
			fail("exported-after-shutdown", "", fmt.Sprintf("output grew by %d bytes / %d spans; calls %v concurrent=%v", buf.Len()-outLen, rec.exports.Load()-exports, callLog, concurrent))
		}
	}
	if rec.shutdowns.Load() > 1 {
		fail("exporter-shut-down-twice", "", "")
	}
	if firstKind == "cancelled" && expKind == "recording" {
		// the first call ran out of time at once; live calls followed: the exporter still gets its one Shutdown
		time.Sleep(20 * time.Millisecond)
		if n := rec.shutdowns.Load(); n != 1 {
			fail("exporter-shutdown-count", "first Shutdown on a done context", fmt.Sprintf("%d; calls %v", n, callLog))
		}
	}
	if expKind == "nil" {
		k.C.Count("programs_with_nil_exporter", 1)
	}
	k.C.Count("stock_trace_programs", 1)
	k.C.Sig("tstock|" + desc + fmt.Sprintf("|%d|%v|%s", nShut, concurrent, firstKind))
}

// ---------------------------------------------------------------------------------------------
// C: metrics

func runMetric(k *vf.Case) {
	r := k.R
	readerKind := vf.Pick(r, []string{"manual", "periodic"})
	expKind := vf.Pick(r, []string{"recording", "stdout"})
	buf := &safeBuf{}
	rec := &recMetricExp{failExport: r.Chance(1, 3), slowShutdown: r.Bool()}
	var reader sdkmetric.Reader
	var manual *sdkmetric.ManualReader
	desc := readerKind + "/" + expKind
	if readerKind == "manual" {
		manual = sdkmetric.NewManualReader()
		reader = manual
		desc = "manual"
	} else {
		var exp sdkmetric.Exporter = rec
		if expKind == "stdout" {
			e, err := stdoutmetric.New(stdoutmetric.WithWriter(buf))
			if err != nil {
				k.Violate("stock-constructor-error", "", err.Error(), nil)
				return
			}
			exp = e
		}
		reader = sdkmetric.NewPeriodicReader(exp, sdkmetric.WithInterval(vf.Pick(r, []time.Duration{time.Millisecond, time.Hour})))
	}
	if rec.failExport && readerKind == "periodic" && expKind == "recording" {
		desc += " failing-export"
	}
	mp := sdkmetric.NewMeterProvider(sdkmetric.WithReader(reader))
	fail := func(class, key, detail string) { k.Violate(class, desc+" "+key, detail, nil) }
	ctx := context.Background()
	m := mp.Meter("m")
	c, _ := m.Int64Counter("c")
	_, _ = m.Int64ObservableGauge("g", metric.WithInt64Callback(func(_ context.Context, o metric.Int64Observer) error { o.Observe(1); return nil }))
	for i := r.Intn(5); i > 0; i-- {
		c.Add(ctx, 1)
	}
	if manual != nil && r.Bool() {
		var rm metricdata.ResourceMetrics
		if err := manual.Collect(ctx, &rm); err != nil {
			fail("collect-error", "", err.Error())
		}
	}
	if r.Bool() {
		fctx, cancel, kind := ctxOf(r)
		if err := mp.ForceFlush(fctx); err != nil && kind == "live" && !rec.failExport {
			fail("forceflush-error", "", err.Error())
		}
		cancel()
	}
	nShut := 1 + r.Intn(3)
	concurrent := r.Bool()
	firstKind := ""
	var wg sync.WaitGroup
	var nilReturns atomic.Int32
	for i := 0; i < nShut; i++ {
		sctx, cancel, kind := ctxOf(r)
		if concurrent && kind == "cancelled" {
			sctx, kind = context.Background(), "live"
		}
		if i == 0 {
			firstKind = kind
		}
		viaReader := r.Chance(1, 3) && i > 0 // the first call always goes through the provider
		do := func() {
			defer cancel()
			var err error
			if viaReader {
				err = reader.Shutdown(sctx)
			} else {
				err = mp.Shutdown(sctx)
			}
			if err == nil {
				nilReturns.Add(1)
			}
			if err != nil && !errors.Is(err, sdkmetric.ErrReaderShutdown) && kind == "live" && !rec.failExport {
				fail("shutdown-error", "", err.Error())
			}
		}
		if concurrent {
			wg.Add(1)
			go func() { defer wg.Done(); do() }()
		} else {
			do()
		}
	}
	wg.Wait()
	time.Sleep(300 * time.Microsecond)
	outLen, exports := buf.Len(), rec.exports.Load()
	c.Add(ctx, 5)
	m2 := mp.Meter("later")
	c2, _ := m2.Int64Counter("c2")
	c2.Add(ctx, 1)
	if t := fmt.Sprintf("%T", c2); !strings.Contains(t, "noop") {
		fail("meter-after-shutdown-not-noop", "", t)
	}
	// the scope and instrument asked for before Shutdown
	c3, _ := mp.Meter("m").Int64Counter("c")
	c3.Add(ctx, 1)
	if t := fmt.Sprintf("%T", c3); !strings.Contains(t, "noop") {
		fail("meter-after-shutdown-not-noop", "same scope", t)
	}
	if manual != nil {
		var rm metricdata.ResourceMetrics
		if err := manual.Collect(ctx, &rm); !errors.Is(err, sdkmetric.ErrReaderShutdown) {
			fail("collect-after-shutdown", "", fmt.Sprint(err))
		}
	}
	if err := mp.ForceFlush(ctx); err != nil && !errors.Is(err, sdkmetric.ErrReaderShutdown) {
		fail("forceflush-after-shutdown-error", "", err.Error())
	}
	if err := mp.Shutdown(ctx); err != nil && !errors.Is(err, sdkmetric.ErrReaderShutdown) {
		fail("repeated-shutdown-error", "", err.Error())
	}
	time.Sleep(3 * time.Millisecond)
	if readerKind == "periodic" {
		if firstKind != "cancelled" {
			if expKind == "recording" && rec.shutdowns.Load() != 1 {
				fail("exporter-shutdown-count", "", fmt.Sprintf("%d", rec.shutdowns.Load()))
			}
		} else if expKind == "recording" {
			time.Sleep(20 * time.Millisecond)
			if n := rec.shutdowns.Load(); n != 1 {
				fail("exporter-shutdown-count", "first Shutdown on a done context", fmt.Sprint(n))
			}
		}
		if buf.Len() != outLen || rec.exports.Load() != exports {
			fail("exported-after-shutdown", "", fmt.Sprintf("output grew by %d bytes / %d exports", buf.Len()-outLen, rec.exports.Load()-exports))
		}
		if rec.shutdowns.Load() > 1 {
			fail("exporter-shut-down-twice", "", "")
		}
		if rec.afterShutdown.Load() > 0 {
			fail("export-after-exporter-shutdown", "", "")
		}
	}
	k.C.Count("metric_programs", 1)
	k.C.Sig("metric|" + desc + fmt.Sprintf("|%d|%v|%s", nShut, concurrent, firstKind))
}

// ---------------------------------------------------------------------------------------------
// D: logs

func runLog(k *vf.Case) {
	r := k.R
	procKind := vf.Pick(r, []string{"simple", "batch"})
	expKind := vf.Pick(r, []string{"recording", "stdout", "nil"})
	buf := &safeBuf{}
	rec := &recLogExp{slowShutdown: r.Bool()}
	var exp sdklog.Exporter
	switch expKind {
	case "recording":
		exp = rec
	case "stdout":
		e, err := stdoutlog.New(stdoutlog.WithWriter(buf))
		if err != nil {
			k.Violate("stock-constructor-error", "", err.Error(), nil)
			return
		}
		exp = e
	}
	var proc sdklog.Processor
	if procKind == "simple" {
		proc = sdklog.NewSimpleProcessor(exp)
	} else {
		proc = sdklog.NewBatchProcessor(exp, sdklog.WithExportInterval(time.Millisecond))
	}
	lp := sdklog.NewLoggerProvider(sdklog.WithProcessor(proc))
	desc := procKind + "/" + expKind
	fail := func(class, key, detail string) { k.Violate(class, desc+" "+key, detail, nil) }
	ctx := context.Background()
	lg := lp.Logger("l")
	emit := func(l log.Logger) {
		var rc log.Record
		rc.SetBody(log.StringValue("x"))
		l.Emit(ctx, rc)
	}
	for i := r.Intn(5); i > 0; i-- {
		emit(lg)
	}
	if r.Bool() {
		fctx, cancel, kind := ctxOf(r)
		if err := lp.ForceFlush(fctx); err != nil && kind == "live" {
			fail("forceflush-error", "", err.Error())
		}
		cancel()
	}
	nShut := 1 + r.Intn(4)
	concurrent := r.Bool()
	firstKind := ""
	var wg sync.WaitGroup
	var calls []func()
	direct := false // some Shutdown call goes to the processor itself, not through the provider
	for i := 0; i < nShut; i++ {
		sctx, cancel, kind := ctxOf(r)
		if concurrent && kind == "cancelled" {
			sctx, kind = context.Background(), "live"
		}
		if i == 0 {
			firstKind = kind
		}
		viaProcessor := r.Chance(1, 3) // the processor can also be shut down directly (it may be shared)
		direct = direct || viaProcessor
		do := func() {
			defer cancel()
			var err error
			if viaProcessor {
				err = proc.Shutdown(sctx)
			} else {
				err = lp.Shutdown(sctx)
			}
			if err != nil && kind == "live" {
				fail("shutdown-error", "", err.Error())
			}
		}
		if concurrent {
			wg.Add(1)
			go func() { defer wg.Done(); do() }()
		} else {
			calls = append(calls, do)
		}
	}
	// every Shutdown call returns, however the earlier ones ended (watchdog + two identical stack samples)
	finished, stuck, wdesc := vf.Watch(20*time.Second, 2*time.Second, func() {
		for _, f := range calls {
			f()
		}
		wg.Wait()
		// and once more with live contexts (on the processor itself only if it was addressed directly before)
		if direct {
			proc.Shutdown(ctx)
		}
		lp.Shutdown(ctx)
	})
	if !finished {
		if stuck {
			fail("blocks-forever", "Shutdown after earlier Shutdown calls", wdesc)
		} else {
			k.C.Inconclusive("log shutdown sequence did not finish")
		}
		return
	}
	time.Sleep(300 * time.Microsecond)
	outLen, exports := buf.Len(), rec.exports.Load()
	l2 := lp.Logger("later")
	emit(l2)
	if l2.Enabled(ctx, log.EnabledParameters{}) {
		fail("logger-after-shutdown-not-noop", "", "")
	}
	l3 := lp.Logger("l") // the scope asked for before Shutdown
	emit(l3)
	if l3.Enabled(ctx, log.EnabledParameters{}) || !strings.Contains(fmt.Sprintf("%T", l3), "noop") {
		fail("logger-after-shutdown-not-noop", "same scope", fmt.Sprintf("%T", l3))
	}
	if err := lp.ForceFlush(ctx); err != nil {
		fail("forceflush-after-shutdown-error", "", err.Error())
	}
	if err := lp.Shutdown(ctx); err != nil {
		fail("repeated-shutdown-error", "", err.Error())
	}
	// a logger obtained before Shutdown: its records may still be forwarded to a stock exporter,
	// whose contract makes that a no-op; measured on the stock exporter's output
	if expKind != "recording" {
		emit(lg)
	}
	time.Sleep(3 * time.Millisecond)
	// "exactly once" is the provider's guarantee: the log SimpleProcessor is a plain adapter that forwards
	// every direct Shutdown call to its exporter, so programs that address the processor directly are
	// held to "no panic, every call returns" only
	if firstKind != "cancelled" {
		if expKind == "recording" && rec.shutdowns.Load() != 1 && !direct {
			fail("exporter-shutdown-count", "", fmt.Sprintf("%d", rec.shutdowns.Load()))
		}
		if buf.Len() != outLen || rec.exports.Load() != exports {
			fail("exported-after-shutdown", "", fmt.Sprintf("output grew by %d bytes / %d records", buf.Len()-outLen, rec.exports.Load()-exports))
		}
	}
	if rec.shutdowns.Load() > 1 && !direct {
		fail("exporter-shut-down-twice", "", fmt.Sprint(rec.shutdowns.Load()))
	}
	if firstKind == "cancelled" && expKind == "recording" && !direct {
		time.Sleep(20 * time.Millisecond)
		if n := rec.shutdowns.Load(); n != 1 {
			fail("exporter-shutdown-count", "first Shutdown on a done context", fmt.Sprint(n))
		}
	}
	if expKind == "nil" {
		k.C.Count("programs_with_nil_exporter", 1)
	}
	if direct {
		k.C.Count("log_programs_shutting_the_processor_down_directly", 1)
	}
	k.C.Count("log_programs", 1)
	k.C.Sig("log|" + desc + fmt.Sprintf("|%d|%v|%s", nShut, concurrent, firstKind))
}

// ---------------------------------------------------------------------------------------------
// E: concurrent op alphabet on the TracerProvider (-race)

func runTraceConcurrent(k *vf.Case) {
	r := k.R
	prevProcs := runtime.GOMAXPROCS(vf.Pick(r, []int{2, 4, 16}))
	defer runtime.GOMAXPROCS(prevProcs)
	base := newRecSP("base")
	tp := sdktrace.NewTracerProvider(sdktrace.WithSpanProcessor(base))
	G := vf.Pick(r, []int{2, 4, 8, 16})
	var wg sync.WaitGroup
	release := make(chan struct{})
	var mu sync.Mutex
	var panics []string
	type churnRec struct {
		p                 *recSP
		regRet, unregCall uint64
		spansDuring       []trace.SpanID
	}
	var churns []*churnRec
	type spanRec struct {
		id        trace.SpanID
		call, ret uint64 // End call / return tickets
		start     uint64
	}
	var spans []spanRec
	withShutdown := r.Chance(1, 3)
	var shutdownCall, shutdownRet atomic.Uint64
	pre := tp.Tracer("w") // obtained before any Shutdown: stays a real tracer afterwards
	for g := 0; g < G; g++ {
		seed := r.U64()
		wg.Add(1)
		go func(g int) {
			defer wg.Done()
			gr := vf.NewRNG(seed)
			defer func() {
				if rec := recover(); rec != nil {
					buf := make([]byte, 3000)
					n := runtime.Stack(buf, false)
					mu.Lock()
					panics = append(panics, fmt.Sprintf("%v\n%s", rec, buf[:n]))
					mu.Unlock()
				}
			}()
			<-release
			for i := 0; i < 30; i++ {
				switch gr.Intn(8) {
				case 0, 1:
					p := newRecSP(fmt.Sprintf("c%d-%d", g, i))
					p.slow = gr.Bool()
					cr := &churnRec{p: p}
					tp.RegisterSpanProcessor(p)
					cr.regRet = vf.Tick()
					if gr.Bool() {
						// a span through the tracer obtained before Shutdown, inside the registration window
						st := vf.Tick()
						_, sp := pre.Start(context.Background(), "in-window")
						sr := spanRec{id: sp.SpanContext().SpanID(), start: st}
						sr.call = vf.Tick()
						sp.End()
						sr.ret = vf.Tick()
						mu.Lock()
						spans = append(spans, sr)
						mu.Unlock()
					} else {
						runtime.Gosched()
					}
					cr.unregCall = vf.Tick()
					tp.UnregisterSpanProcessor(p)
					mu.Lock()
					churns = append(churns, cr)
					mu.Unlock()
				case 2:
					tp.Tracer(fmt.Sprintf("t%d", gr.Intn(3)))
				case 3:
					tp.ForceFlush(context.Background())
				case 4:
					if withShutdown && g == 0 && i > 15 {
						shutdownCall.CompareAndSwap(0, vf.Tick())
						tp.Shutdown(context.Background())
						shutdownRet.CompareAndSwap(0, vf.Tick())
					}
				default:
					tr := tp.Tracer("w")
					if gr.Bool() {
						tr = pre
					}
					st := vf.Tick()
					_, sp := tr.Start(context.Background(), "s")
					sr := spanRec{id: sp.SpanContext().SpanID(), start: st}
					sr.call = vf.Tick()
					sp.End()
					sr.ret = vf.Tick()
					mu.Lock()
					spans = append(spans, sr)
					mu.Unlock()
				}
			}
		}(g)
	}
	finished, stuck, desc := vf.Watch(60*time.Second, 2*time.Second, func() {
		close(release)
		wg.Wait()
	})
	if !finished {
		if stuck {
			k.Violate("deadlock", "trace provider", desc, nil)
		} else {
			k.C.Inconclusive("concurrent trace case did not finish")
		}
		return
	}
	for _, p := range panics {
		k.Violate("panic", strings.SplitN(p, "\n", 2)[0], p, nil)
	}
	sc := shutdownCall.Load()
	// nothing is delivered any more once Shutdown has returned: a span started afterwards reaches no processor
	if sret := shutdownRet.Load(); sret != 0 {
		for _, s := range spans {
			if s.start < sret {
				continue
			}
			k.C.Count("spans_started_after_shutdown_returned", 1)
			seenBy := ""
			if base.count(s.id) > 0 {
				seenBy = "the permanent processor"
			}
			for _, c := range churns {
				if c.p.count(s.id) > 0 {
					seenBy = "processor " + c.p.name
				}
			}
			if seenBy != "" {
				k.Violate("delivered-after-shutdown", "concurrent", fmt.Sprintf("a span started after TracerProvider.Shutdown had returned was delivered to %s (G=%d)", seenBy, G), nil)
				break
			}
		}
	}
	// the permanently registered processor sees every span that ended before any Shutdown was called
	for _, s := range spans {
		if sc != 0 && s.ret > sc {
			continue
		}
		if n := base.count(s.id); n != 1 {
			k.Violate("fan-out-differs-from-membership", "concurrent: permanent processor", fmt.Sprintf("span delivered %d times to the permanently registered processor (G=%d)", n, G), nil)
			break
		}
	}
	// a churned processor must see spans whose whole life lies inside its registration, and none that
	// started after its Unregister returned / ended before its Register was called
	for _, c := range churns {
		if n := c.p.shutdowns.Load(); n != 1 && sc == 0 {
			k.Violate("unregistered-processor-shutdown-count", "concurrent", fmt.Sprintf("%d", n), nil)
		}
		if c.p.shutdowns.Load() > 1 {
			k.Violate("processor-shut-down-twice", "concurrent", "", nil)
		}
		for _, s := range spans {
			if s.start > c.regRet && s.ret < c.unregCall && (sc == 0 || s.ret < sc) {
				if c.p.count(s.id) != 1 {
					k.Violate("fan-out-differs-from-membership", "concurrent: span inside a registration window", fmt.Sprintf("processor registered at %d, unregister called at %d, span [%d,%d] delivered %d times", c.regRet, c.unregCall, s.start, s.ret, c.p.count(s.id)), nil)
				}
				k.C.Count("spans_inside_a_registration_window", 1)
			}
		}
	}
	if base.shutdowns.Load() > 1 {
		k.Violate("processor-shut-down-twice", "concurrent base", "", nil)
	}
	tp.Shutdown(context.Background())
	if base.shutdowns.Load() != 1 {
		k.Violate("processor-shutdown-count", "concurrent", fmt.Sprint(base.shutdowns.Load()), nil)
	}
	k.C.Count("trace_concurrent_cases", 1)
	k.C.Count("churn_registrations", int64(len(churns)))
	k.C.Sig(fmt.Sprintf("tconc|%d|%v", G, withShutdown))
}

// ---------------------------------------------------------------------------------------------
// F: telemetry calls racing Shutdown on the stock batching components: nothing may block forever.
// Aims at the blocking-mode batch span processor with a tiny queue (producers that passed the
// "stopped" check wait for a queue slot nobody will free once the worker has drained and left),
// and the symmetric shapes of the log batch processor and the periodic reader.

// exporters that take their time (and do not look at the context, like a slow backend) and note when each
// Export call was entered and left
type exportLog struct {
	mu    sync.Mutex
	spans [][2]uint64 // entry / exit tickets of every Export call
}

func (l *exportLog) run(d time.Duration) {
	in := vf.Tick()
	time.Sleep(d)
	out := vf.Tick()
	l.mu.Lock()
	l.spans = append(l.spans, [2]uint64{in, out})
	l.mu.Unlock()
}

type slowSpanExp struct {
	exportLog
	d         time.Duration
	shutdowns atomic.Int32
}

func (e *slowSpanExp) ExportSpans(ctx context.Context, ss []sdktrace.ReadOnlySpan) error {
	readSpans(ss)
	e.run(e.d)
	return nil
}
func (e *slowSpanExp) Shutdown(context.Context) error { e.shutdowns.Add(1); return nil }

type slowLogExp struct {
	exportLog
	d         time.Duration
	shutdowns atomic.Int32
}

func (e *slowLogExp) Export(context.Context, []sdklog.Record) error { e.run(e.d); return nil }
func (e *slowLogExp) Shutdown(context.Context) error                { e.shutdowns.Add(1); return nil }
func (e *slowLogExp) ForceFlush(context.Context) error              { return nil }

type slowMetricExp struct {
	exportLog
	d         time.Duration
	shutdowns atomic.Int32
}

func (e *slowMetricExp) Temporality(k sdkmetric.InstrumentKind) metricdata.Temporality {
	return sdkmetric.DefaultTemporalitySelector(k)
}
func (e *slowMetricExp) Aggregation(k sdkmetric.InstrumentKind) sdkmetric.Aggregation {
	return sdkmetric.DefaultAggregationSelector(k)
}
func (e *slowMetricExp) Export(context.Context, *metricdata.ResourceMetrics) error {
	e.run(e.d)
	return nil
}
func (e *slowMetricExp) ForceFlush(context.Context) error { return nil }
func (e *slowMetricExp) Shutdown(context.Context) error   { e.shutdowns.Add(1); return nil }

func runShutdownRace(k *vf.Case) {
	r := k.R
	prevProcs := runtime.GOMAXPROCS(vf.Pick(r, []int{2, 4, 16}))
	defer runtime.GOMAXPROCS(prevProcs)
	kind := vf.Pick(r, []string{"bsp-blocking", "bsp-blocking", "bsp-dropping", "log-batch", "periodic", "simple-span"}) // (the log SimpleProcessor forwards to its exporter whatever happened before: the exporter contract covers it)
	P := vf.Pick(r, []int{4, 8, 16})
	per := 20 + r.Intn(60)
	d := time.Duration(r.Intn(300)) * time.Microsecond
	shutdowners := 1 + r.Intn(2)
	flushers := r.Intn(3)
	flushForever := r.Bool()
	delaySpins := r.Intn(200)
	var emit func(i int)
	var flush, shutdown func(ctx context.Context) error
	var shutdownCount func() int32
	var elog *exportLog
	switch kind {
	case "bsp-blocking", "bsp-dropping":
		e := &slowSpanExp{d: d}
		opts := []sdktrace.BatchSpanProcessorOption{sdktrace.WithMaxQueueSize(vf.Pick(r, []int{1, 1, 2, 4})), sdktrace.WithMaxExportBatchSize(vf.Pick(r, []int{1, 2, 8})), sdktrace.WithBatchTimeout(vf.Pick(r, []time.Duration{time.Millisecond, time.Hour}))}
		if kind == "bsp-blocking" {
			opts = append(opts, sdktrace.WithBlocking())
		}
		tp := sdktrace.NewTracerProvider(sdktrace.WithSpanProcessor(sdktrace.NewBatchSpanProcessor(e, opts...)))
		tr := tp.Tracer("f")
		emit = func(int) { _, sp := tr.Start(context.Background(), "s"); sp.End() }
		flush, shutdown, shutdownCount, elog = tp.ForceFlush, tp.Shutdown, e.shutdowns.Load, &e.exportLog
	case "simple-span":
		e := &slowSpanExp{d: d}
		tp := sdktrace.NewTracerProvider(sdktrace.WithSpanProcessor(sdktrace.NewSimpleSpanProcessor(e)))
		tr := tp.Tracer("f")
		emit = func(int) { _, sp := tr.Start(context.Background(), "s"); sp.End() }
		flush, shutdown, shutdownCount, elog = tp.ForceFlush, tp.Shutdown, e.shutdowns.Load, &e.exportLog
	case "simple-log":
		e := &slowLogExp{d: d}
		lp := sdklog.NewLoggerProvider(sdklog.WithProcessor(sdklog.NewSimpleProcessor(e)))
		lg := lp.Logger("f")
		emit = func(i int) { var rec log.Record; rec.SetBody(log.IntValue(i)); lg.Emit(context.Background(), rec) }
		flush, shutdown, shutdownCount, elog = lp.ForceFlush, lp.Shutdown, e.shutdowns.Load, &e.exportLog
	case "log-batch":
		e := &slowLogExp{d: d}
		lp := sdklog.NewLoggerProvider(sdklog.WithProcessor(sdklog.NewBatchProcessor(e, sdklog.WithMaxQueueSize(vf.Pick(r, []int{1, 2, 8})), sdklog.WithExportMaxBatchSize(vf.Pick(r, []int{1, 2, 8})),
			sdklog.WithExportInterval(vf.Pick(r, []time.Duration{time.Millisecond, time.Hour})), sdklog.WithExportBufferSize(vf.Pick(r, []int{1, 2})))))
		lg := lp.Logger("f")
		emit = func(i int) { var rec log.Record; rec.SetBody(log.IntValue(i)); lg.Emit(context.Background(), rec) }
		flush, shutdown, shutdownCount, elog = lp.ForceFlush, lp.Shutdown, e.shutdowns.Load, &e.exportLog
	default:
		e := &slowMetricExp{d: d}
		rd := sdkmetric.NewPeriodicReader(e, sdkmetric.WithInterval(vf.Pick(r, []time.Duration{time.Millisecond, time.Hour})), sdkmetric.WithTimeout(time.Second))
		mp := sdkmetric.NewMeterProvider(sdkmetric.WithReader(rd))
		ctr, _ := mp.Meter("f").Int64Counter("c")
		emit = func(i int) { ctr.Add(context.Background(), 1) }
		flush, shutdown, shutdownCount, elog = mp.ForceFlush, mp.Shutdown, e.shutdowns.Load, &e.exportLog
	}
	var wg sync.WaitGroup
	release := make(chan struct{})
	var mu sync.Mutex
	var panics []string
	var lastShutdownRet atomic.Uint64 // ticket at which the last of the Shutdown calls returned
	var shutdownFailed atomic.Bool
	guard := func(f func()) {
		wg.Add(1)
		go func() {
			defer wg.Done()
			defer func() {
				if rec := recover(); rec != nil {
					buf := make([]byte, 3000)
					n := runtime.Stack(buf, false)
					mu.Lock()
					panics = append(panics, fmt.Sprintf("%v\n%s", rec, buf[:n]))
					mu.Unlock()
				}
			}()
			<-release
			f()
		}()
	}
	for p := 0; p < P; p++ {
		guard(func() {
			for i := 0; i < per; i++ {
				emit(i)
			}
		})
	}
	for f := 0; f < flushers; f++ {
		guard(func() {
			for i := 0; i < 5; i++ {
				if flushForever {
					flush(context.Background()) // a context that never expires: the call itself has to come back
					continue
				}
				ctx, cancel := context.WithTimeout(context.Background(), 5*time.Second)
				flush(ctx)
				cancel()
			}
		})
	}
	for s := 0; s < shutdowners; s++ {
		guard(func() {
			for i := 0; i < delaySpins; i++ {
				runtime.Gosched()
			}
			ctx, cancel := context.WithTimeout(context.Background(), 10*time.Second)
			err := shutdown(ctx)
			ret := vf.Tick()
			cancel()
			if err != nil {
				shutdownFailed.Store(true)
			}
			for {
				cur := lastShutdownRet.Load()
				if cur >= ret || lastShutdownRet.CompareAndSwap(cur, ret) {
					break
				}
			}
		})
	}
	finished, stuck, desc := vf.Watch(30*time.Second, 2*time.Second, func() { close(release); wg.Wait() })
	k.C.Count("shutdown_race_cases", 1)
	k.C.Count("shutdown_race_cases_"+kind, 1)
	k.C.Sig(fmt.Sprintf("race|%s|%d|%d", kind, P, shutdowners))
	if !finished {
		if stuck {
			k.Violate("blocks-forever", kind+" telemetry racing Shutdown", desc, nil)
		} else {
			k.C.Inconclusive("shutdown-race case did not finish")
		}
		return
	}
	for _, p := range panics {
		k.Violate("panic", strings.SplitN(p, "\n", 2)[0], p, nil)
	}
	if n := shutdownCount(); n != 1 {
		k.Violate("exporter-shutdown-count", "shutdown race "+kind, fmt.Sprint(n), nil)
	}
	// nothing is being exported any more once every Shutdown call has returned successfully (a call that
	// overlaps the one doing the work may return earlier at provider level; the statement is read for the
	// moment all of them are back)
	if sret := lastShutdownRet.Load(); sret != 0 && !shutdownFailed.Load() {
		time.Sleep(2 * d) // let a straggler finish and log itself
		elog.mu.Lock()
		for _, sp := range elog.spans {
			if sp[1] > sret {
				what := "was still running when"
				if sp[0] > sret {
					what = "was started after"
				}
				k.Violate("export-after-shutdown-returned", kind, fmt.Sprintf("an Export call %s the last Shutdown call returned nil (entered at ticket %d, left at %d, Shutdown returned at %d)", what, sp[0], sp[1], sret), nil)
				break
			}
		}
		elog.mu.Unlock()
	}
}

// runMultiReader: a MeterProvider with two or three readers of which some fail while shutting down (their
// final export fails). One failing reader must not keep the others from being shut down.
func runMultiReader(k *vf.Case) {
	r := k.R
	ctx := context.Background()
	n := 2 + r.Intn(2)
	var opts []sdkmetric.Option
	var exps []*recMetricExp
	var manuals []*sdkmetric.ManualReader
	failing := 0
	for i := 0; i < n; i++ {
		if r.Chance(1, 4) {
			m := sdkmetric.NewManualReader()
			manuals = append(manuals, m)
			opts = append(opts, sdkmetric.WithReader(m))
			continue
		}
		e := &recMetricExp{failExport: r.Bool()}
		if e.failExport {
			failing++
		}
		exps = append(exps, e)
		opts = append(opts, sdkmetric.WithReader(sdkmetric.NewPeriodicReader(e, sdkmetric.WithInterval(time.Hour))))
	}
	mp := sdkmetric.NewMeterProvider(opts...)
	c, _ := mp.Meter("multi").Int64Counter("c")
	c.Add(ctx, 1)
	finished, stuck, desc := vf.Watch(20*time.Second, 2*time.Second, func() {
		mp.Shutdown(ctx)
		mp.Shutdown(ctx)
	})
	if !finished {
		if stuck {
			k.Violate("blocks-forever", "MeterProvider.Shutdown with several readers", desc, nil)
		} else {
			k.C.Inconclusive("multi-reader shutdown did not finish")
		}
		return
	}
	for i, e := range exps {
		if got := e.shutdowns.Load(); got != 1 {
			k.Violate("exporter-shutdown-count", "several readers", fmt.Sprintf("exporter %d of %d periodic readers (%d with a failing final export) was shut down %d times", i+1, len(exps), failing, got), nil)
			break
		}
	}
	for _, m := range manuals {
		var rm metricdata.ResourceMetrics
		if err := m.Collect(ctx, &rm); !errors.Is(err, sdkmetric.ErrReaderShutdown) {
			k.Violate("collect-after-shutdown", "several readers", fmt.Sprint(err), nil)
			break
		}
	}
	k.C.Count("multi_reader_programs", 1)
	if failing > 0 {
		k.C.Count("multi_reader_programs_with_a_failing_reader", 1)
	}
	k.C.Sig(fmt.Sprintf("multi|%d|%d|%d", n, failing, len(manuals)))
}

// runListEdit: membership while the processor list is edited under a span's End (shared scenario, package
// spanlist): processors registered throughout get the span exactly once, whoever leaves or joins meanwhile.
func runListEdit(k *vf.Case) {
	desc, vs := spanlist.Run(k.R)
	for _, v := range vs {
		k.Violate("fan-out-mismatch", "processor list edited during End", v, nil)
	}
	k.C.Count("list_edit_cases", 1)
	k.C.Sig("list-edit|" + desc)
}

func main() {
	vf.Main("C15", "exploration", func(c *vf.Ctx) {
		c.Rule = "child process per batch of programs: (A) sequential programs of 5-60 Register/Unregister(registered, never registered, already unregistered)/Tracer/Start+End/ForceFlush/Shutdown(live, deadline, cancelled) on the TracerProvider against a membership model; (B) stock matrix {Simple,Batch} span processor x {recording, stdouttrace, nil} exporter, (C) {Manual, Periodic} reader x {recording incl. failing export, stdoutmetric}, (D) {Simple,Batch} log processor x {recording, stdoutlog, nil}, each with 1-4 Shutdown calls issued sequentially or concurrently, through the provider or the component, then telemetry/flush/shutdown calls after Shutdown; (E) concurrent op alphabet on the TracerProvider from 2-16 goroutines under -race; (F) 4-16 producers, 0-2 flushers and 1-2 Shutdown callers released together on a batch span processor (blocking and dropping, queue 1-4), log batch processor (queue 1-8) or periodic reader with a slow exporter: every call must return (watchdog 30 s + two identical stack samples); list-edit family; processors and exporters whose Shutdown reports an error; exporters that read every span they are handed. distinct = distinct (family, component kinds, shutdown pattern, context kind) signatures"
		c.Assume = []string{"'exactly once' is asserted when the first Shutdown carried a live context; with a cancelled first context the providers return ctx.Err() early by design, so only 'at most once, no panic, no hang' is asserted", "for the log SimpleProcessor 'nothing more is exported' is measured on the stock exporter's output", "a repeated MeterProvider/Reader Shutdown may return the documented ErrReaderShutdown"}
		otel.SetErrorHandler(otel.ErrorHandlerFunc(func(error) {}))
		otel.SetLogger(logr.Discard())
		iso := vf.IsoOpts{Batch: 50, Par: 16, Timeout: 5 * time.Minute}
		c.Isolated("trace-seq", c.N(2000, 30_000), iso, runTraceSeq)
		c.Isolated("list-edit", c.N(300, 4000), iso, runListEdit)
		c.Isolated("trace-stock", c.N(800, 10_000), iso, runTraceStock)
		c.Isolated("metric", c.N(800, 10_000), iso, runMetric)
		c.Isolated("log", c.N(800, 10_000), iso, runLog)
		c.Isolated("metric-multi-reader", c.N(400, 5_000), iso, runMultiReader)
		c.Floor("multi_reader_programs_with_a_failing_reader", 100)
		c.Isolated("trace-concurrent", c.N(400, 6000), vf.IsoOpts{Batch: 25, Par: 8, Timeout: 5 * time.Minute}, runTraceConcurrent)
		c.Isolated("shutdown-race", c.N(1200, 20_000), vf.IsoOpts{Batch: 40, Par: 16, Timeout: 5 * time.Minute}, runShutdownRace)
		c.Floor("shutdown_race_cases", 600)
		c.Floor("trace_seq_programs", 1000)
		c.Floor("programs_with_stranger_unregister", 200)
		c.Floor("programs_with_cancelled_first_shutdown", 20)
		c.Floor("programs_with_nil_exporter", 100)
		c.Floor("trace_concurrent_cases", 200)
	})
}
