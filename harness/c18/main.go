// C18 — Prometheus scrapes never crash and expose valid, faithful series.
package main

import (
	"context"
	"fmt"
	"math"
	"os"
	"runtime"
	"sort"
	"strings"
	"sync"
	"time"
	"unicode/utf8"

	"github.com/go-logr/logr"
	"github.com/prometheus/client_golang/prometheus"
	dto "github.com/prometheus/client_model/go"
	"github.com/prometheus/common/model"
	"go.opentelemetry.io/otel"
	"go.opentelemetry.io/otel/attribute"
	otelprom "go.opentelemetry.io/otel/exporters/prometheus"
	"go.opentelemetry.io/otel/metric"
	sdkmetric "go.opentelemetry.io/otel/sdk/metric"
	"go.opentelemetry.io/otel/sdk/metric/metricdata"
	"go.opentelemetry.io/otel/sdk/resource"
	"go.opentelemetry.io/otel/trace"

	"verifharness/vf"
)

var unitSuffixes = map[string]string{
	"d": "days", "h": "hours", "min": "minutes", "s": "seconds", "ms": "milliseconds", "us": "microseconds", "ns": "nanoseconds",
	"By": "bytes", "KiBy": "kibibytes", "MiBy": "mebibytes", "GiBy": "gibibytes", "TiBy": "tibibytes", "KBy": "kilobytes", "MBy": "megabytes", "GBy": "gigabytes", "TBy": "terabytes",
	"m": "meters", "V": "volts", "A": "amperes", "J": "joules", "W": "watts", "g": "grams", "Cel": "celsius", "Hz": "hertz", "1": "ratio", "%": "percent",
}

func legacy() bool { return model.NameValidationScheme == model.LegacyValidation } //nolint:staticcheck

func legalLegacyName(s string, label bool) bool {
	if s == "" {
		return false
	}
	for i := 0; i < len(s); i++ {
		c := s[i]
		ok := c == '_' || (c >= 'a' && c <= 'z') || (c >= 'A' && c <= 'Z') || (!label && c == ':') || (i > 0 && c >= '0' && c <= '9')
		if !ok {
			return false
		}
	}
	return true
}

func legalName(s string, label bool) bool {
	if legacy() {
		return legalLegacyName(s, label)
	}
	return s != "" && utf8.ValidString(s)
}

func sanitize(s string) string {
	if legacy() {
		return model.EscapeName(s, model.UnderscoreEscaping)
	}
	return s
}

func isSep(c byte) bool {
	return !((c >= 'a' && c <= 'z') || (c >= 'A' && c <= 'Z') || c == ':' || (c >= '0' && c <= '9'))
}

type opts struct {
	withoutUnits, withoutCounterSuffixes, withoutTargetInfo, withoutScopeInfo bool
	namespace                                                                 string
	resourceFilter                                                            bool
}

func (o opts) String() string {
	return fmt.Sprintf("withoutUnits=%v withoutCounterSuffixes=%v withoutTargetInfo=%v withoutScopeInfo=%v namespace=%q resourceFilter=%v", o.withoutUnits, o.withoutCounterSuffixes, o.withoutTargetInfo, o.withoutScopeInfo, o.namespace, o.resourceFilter)
}

func expectedNamespace(ns string) string {
	if ns == "" {
		return ""
	}
	ns = sanitize(ns)
	if !strings.HasSuffix(ns, "_") {
		ns += "_"
	}
	return ns
}

// expectedName is the harness' own statement of the naming rule.
func expectedName(name, unit string, counter bool, o opts) string {
	n := sanitize(name)
	addTotal := counter && !o.withoutCounterSuffixes
	if addTotal {
		n = strings.TrimSuffix(n, "total")
		if len(n) > 0 && isSep(n[len(n)-1]) {
			n = n[:len(n)-1]
		}
	}
	n = expectedNamespace(o.namespace) + n
	if suf, ok := unitSuffixes[unit]; ok && !o.withoutUnits && !strings.HasSuffix(n, suf) {
		n += "_" + suf
	}
	if addTotal {
		n += "_total"
	}
	return n
}

// trailingRepeats counts how many times suffix word w (joined by single separators) ends s.
func trailingRepeats(s, w string) int {
	n := 0
	for strings.HasSuffix(s, w) {
		n++
		s = strings.TrimSuffix(s, w)
		if len(s) > 0 && isSep(s[len(s)-1]) {
			s = s[:len(s)-1]
		}
	}
	return n
}

var nameAlphabet = "abcdefghijklmnopqrstuvwxyzABCDEFGHIJKLMNOPQRSTUVWXYZ0123456789_.-/"

func genName(r *vf.RNG) string {
	words := []string{"total", "Total", "seconds", "bytes", "ratio", "percent", "milliseconds", "requests", "http.server", "x", "a"}
	seps := []string{".", "_", "-", "/", ""}
	switch r.Intn(10) {
	case 0:
		return vf.Pick(r, []string{"total", "Total", "a.total", "a_total_total", "seconds", "foo.seconds.total", "x/", "a..", "seconds_total", "bytes.total", "process.cpu.seconds.total", "rx_bytes_total", "t", "totals", "subtotal", "a-total", "a/total", "total.total"})
	case 1:
		return "n" + r.ASCIIFrom(nameAlphabet, 254)
	case 2:
		return r.ASCIIFrom("abcXYZ", 1) + r.ASCIIFrom(nameAlphabet, r.Intn(12))
	default:
		n := vf.Pick(r, []string{"a", "req", "Http", "z9"})
		for i := r.Intn(4); i > 0; i-- {
			n += vf.Pick(r, seps) + vf.Pick(r, words)
		}
		return n
	}
}

func genUnit(r *vf.RNG) string {
	switch r.Intn(4) {
	case 0:
		return ""
	case 1:
		return vf.Pick(r, []string{"widgets", "{request}", "s/s", "kb"})
	default:
		units := make([]string, 0, len(unitSuffixes))
		for u := range unitSuffixes {
			units = append(units, u)
		}
		sort.Strings(units)
		return vf.Pick(r, units)
	}
}

var attrKeys = []string{"a.b", "a_b", "a-b", "method", "peer", "1digit", "UPPER", "x/y", "é", "k", "http.status_code"}

func genAttrs(r *vf.RNG, reserved bool) attribute.Set {
	n := r.Intn(4)
	var kvs []attribute.KeyValue
	for i := 0; i < n; i++ {
		key := vf.Pick(r, attrKeys)
		if reserved && r.Chance(1, 3) {
			key = vf.Pick(r, []string{"otel_scope_name", "otel_scope_version", "le"})
		}
		kvs = append(kvs, attribute.String(key, r.ASCIIFrom("vwxyz", 1+r.Intn(2))))
	}
	return attribute.NewSet(kvs...)
}

// expectedLabels: sanitised attribute labels (legacy: colliding keys merged as sorted ';'-joined values)
func expectedLabels(set attribute.Set) map[string]string {
	out := map[string]string{}
	if !legacy() {
		for _, kv := range set.ToSlice() {
			out[string(kv.Key)] = kv.Value.Emit()
		}
		return out
	}
	tmp := map[string][]string{}
	for _, kv := range set.ToSlice() {
		k := sanitize(string(kv.Key))
		tmp[k] = append(tmp[k], kv.Value.Emit())
	}
	for k, vs := range tmp {
		sort.Strings(vs)
		out[k] = strings.Join(vs, ";")
	}
	return out
}

func labelString(m map[string]string) string {
	var ks []string
	for k := range m {
		ks = append(ks, k)
	}
	sort.Strings(ks)
	var p []string
	for _, k := range ks {
		p = append(p, k+"="+m[k])
	}
	return strings.Join(p, ",")
}

type errs struct {
	mu sync.Mutex
	n  int
}

func (e *errs) Handle(error) { e.mu.Lock(); e.n++; e.mu.Unlock() }

type instSpec struct {
	name, unit string
	kind       int // 0 counter 1 updown 2 gauge 3 histogram 4 obs counter 5 float counter
	sets       []attribute.Set
	reserved   bool
}

var kindNames = []string{"counter", "updowncounter", "gauge", "histogram", "observable-counter", "float-counter"}

func runCase(k *vf.Case) {
	r := k.R
	o := opts{withoutUnits: r.Chance(1, 4), withoutCounterSuffixes: r.Chance(1, 4), withoutTargetInfo: r.Chance(1, 4), withoutScopeInfo: r.Chance(1, 4), resourceFilter: r.Chance(1, 4)}
	if r.Chance(1, 4) {
		o.namespace = vf.Pick(r, []string{"ns", "my.ns", "ns_", "9ns", "n-s"})
	}
	reg := prometheus.NewRegistry()
	eopts := []otelprom.Option{otelprom.WithRegisterer(reg)}
	if o.withoutUnits {
		eopts = append(eopts, otelprom.WithoutUnits())
	}
	if o.withoutCounterSuffixes {
		eopts = append(eopts, otelprom.WithoutCounterSuffixes())
	}
	if o.withoutTargetInfo {
		eopts = append(eopts, otelprom.WithoutTargetInfo())
	}
	if o.withoutScopeInfo {
		eopts = append(eopts, otelprom.WithoutScopeInfo())
	}
	if o.namespace != "" {
		eopts = append(eopts, otelprom.WithNamespace(o.namespace))
	}
	if o.resourceFilter {
		eopts = append(eopts, otelprom.WithResourceAsConstantLabels(attribute.NewAllowKeysFilter("service.name", "team.id")))
	}
	exp, err := otelprom.New(eopts...)
	if err != nil {
		k.Violate("exporter-constructor-error", "", err.Error(), nil)
		return
	}
	// a scrape before the exporter is attached to a MeterProvider must be harmless (and must not be
	// remembered: target_info is built once and cached)
	if r.Chance(1, 4) {
		if !k.Guard("panic-in-gather", "before registration", func() { reg.Gather() }) {
			return
		}
		k.C.Count("scrapes_before_provider_registration", 1)
	}
	twin := sdkmetric.NewManualReader()
	res := resource.NewSchemaless(attribute.String("service.name", "svc"), attribute.String("team.id", "t1"), attribute.String("other", "x"))
	mp := sdkmetric.NewMeterProvider(sdkmetric.WithReader(exp), sdkmetric.WithReader(twin), sdkmetric.WithResource(res))
	scopeName, scopeVersion := vf.Pick(r, []string{"scope", "my/scope", ""}), vf.Pick(r, []string{"", "v1.2"})
	m := mp.Meter(scopeName, metric.WithInstrumentationVersion(scopeVersion))
	ctx := context.Background()
	nInst := 1 + r.Intn(3)
	var specs []instSpec
	usedNames := map[string]bool{}
	for i := 0; i < nInst; i++ {
		sp := instSpec{name: genName(r), unit: genUnit(r), kind: r.Intn(6), reserved: r.Chance(1, 12)}
		if r.Chance(1, 6) { // the name already carries the unit word (and maybe 'total') of its own unit
			units := make([]string, 0, len(unitSuffixes))
			for u := range unitSuffixes {
				units = append(units, u)
			}
			sort.Strings(units)
			sp.unit = vf.Pick(r, units)
			sep := func() string { return vf.Pick(r, []string{".", "_", "-", "/"}) }
			sp.name = vf.Pick(r, []string{"rx", "process.cpu", "m"}) + sep() + unitSuffixes[sp.unit]
			switch r.Intn(4) {
			case 0:
				sp.name += sep() + "total"
			case 1:
				sp.name += sep() + unitSuffixes[sp.unit]
			case 2:
				sp.name += "total"
			}
		}
		key := strings.ToLower(sanitize(sp.name))
		// keep the families of one registry apart: no two instruments whose names could collide
		clash := false
		for u := range usedNames {
			if strings.HasPrefix(u, strings.TrimSuffix(key, "total")) || strings.HasPrefix(key, strings.TrimSuffix(u, "total")) {
				clash = true
			}
		}
		if clash {
			continue
		}
		usedNames[key] = true
		seenLabels := map[string]bool{}
		for s := 1 + r.Intn(3); s > 0; s-- {
			set := genAttrs(r, sp.reserved)
			// two attribute sets whose sanitised labels coincide would be a duplicate series of the user's making
			if ls := labelString(expectedLabels(set)); !seenLabels[ls] {
				seenLabels[ls] = true
				sp.sets = append(sp.sets, set)
			}
		}
		specs = append(specs, sp)
	}
	cfg := func() string {
		var p []string
		for _, sp := range specs {
			var ss []string
			for _, s := range sp.sets {
				ss = append(ss, "{"+labelString(expectedLabelsRaw(s))+"}")
			}
			p = append(p, fmt.Sprintf("%s %q unit=%q sets=%s", kindNames[sp.kind], sp.name, sp.unit, strings.Join(ss, "")))
		}
		return fmt.Sprintf("scheme=%v %s scope=%q/%q\n instruments: %s", model.NameValidationScheme, o, scopeName, scopeVersion, strings.Join(p, " | ")) //nolint:staticcheck
	}()
	fail := func(class, key, detail string) { k.Violate(class, key, cfg+"\n"+detail, nil) }
	for _, sp := range specs {
		sp := sp
		var cerr error
		switch sp.kind {
		case 0:
			var c metric.Int64Counter
			c, cerr = m.Int64Counter(sp.name, metric.WithUnit(sp.unit), metric.WithDescription("d"))
			if cerr == nil {
				for _, s := range sp.sets {
					c.Add(ctx, int64(1+r.Intn(100)), metric.WithAttributeSet(s))
				}
			}
		case 1:
			var c metric.Int64UpDownCounter
			c, cerr = m.Int64UpDownCounter(sp.name, metric.WithUnit(sp.unit))
			if cerr == nil {
				for _, s := range sp.sets {
					c.Add(ctx, int64(r.Range(-50, 50)), metric.WithAttributeSet(s))
				}
			}
		case 2:
			var c metric.Float64Gauge
			c, cerr = m.Float64Gauge(sp.name, metric.WithUnit(sp.unit))
			if cerr == nil {
				for _, s := range sp.sets {
					c.Record(ctx, float64(r.Range(-50, 50))/4, metric.WithAttributeSet(s))
				}
			}
		case 3:
			var c metric.Float64Histogram
			c, cerr = m.Float64Histogram(sp.name, metric.WithUnit(sp.unit))
			if cerr == nil {
				for _, s := range sp.sets {
					for n := 1 + r.Intn(6); n > 0; n-- {
						c.Record(ctx, float64(r.Intn(44000)-2000)/2, metric.WithAttributeSet(s)) // below the first and above the last default boundary too
					}
				}
			}
		case 4:
			sets := sp.sets
			_, cerr = m.Int64ObservableCounter(sp.name, metric.WithUnit(sp.unit), metric.WithInt64Callback(func(_ context.Context, ob metric.Int64Observer) error {
				for i, s := range sets {
					ob.Observe(int64(10+i), metric.WithAttributeSet(s))
				}
				return nil
			}))
		default:
			var c metric.Float64Counter
			c, cerr = m.Float64Counter(sp.name, metric.WithUnit(sp.unit))
			if cerr == nil {
				for _, s := range sp.sets {
					c.Add(ctx, float64(1+r.Intn(100))/2, metric.WithAttributeSet(s))
				}
			}
		}
		if cerr != nil {
			fail("valid-instrument-rejected", "", fmt.Sprintf("%q: %v", sp.name, cerr))
			return
		}
	}
	// ---- scrape (twice: families are cached after the first one) and twin collection
	var mfs []*dto.MetricFamily
	for round := 0; round < 2; round++ {
		var gerr error
		ok := k.Guard("panic-in-gather", "", func() { mfs, gerr = reg.Gather() })
		if !ok {
			return
		}
		if gerr != nil {
			anyReserved := false
			for _, sp := range specs {
				if sp.reserved {
					anyReserved = true
				}
			}
			if !anyReserved {
				fail("gather-error", "", gerr.Error())
				return
			}
			k.C.Count("gather_errors_with_reserved_label_clash", 1)
			return
		}
	}
	var rm metricdata.ResourceMetrics
	if err := twin.Collect(ctx, &rm); err != nil {
		fail("twin-collect-error", "", err.Error())
		return
	}
	fams := map[string]*dto.MetricFamily{}
	for _, mf := range mfs {
		fams[mf.GetName()] = mf
		if !legalName(mf.GetName(), false) {
			fail("illegal-family-name", "", mf.GetName())
		}
		for _, mt := range mf.Metric {
			seen := map[string]bool{}
			for _, lp := range mt.Label {
				if !legalName(lp.GetName(), true) {
					fail("illegal-label-name", "", lp.GetName())
				}
				if seen[lp.GetName()] {
					fail("duplicate-label-name", "", lp.GetName())
				}
				seen[lp.GetName()] = true
			}
		}
	}
	// ---- info series
	if _, ok := fams["target_info"]; ok == o.withoutTargetInfo {
		fail("target-info-presence", "", fmt.Sprintf("present=%v withoutTargetInfo=%v", ok, o.withoutTargetInfo))
	} else if ok {
		ti := fams["target_info"].Metric[0]
		got := map[string]string{}
		for _, lp := range ti.Label {
			got[lp.GetName()] = lp.GetValue()
		}
		if got[sanitize("service.name")] != "svc" || got[sanitize("team.id")] != "t1" || got["other"] != "x" {
			fail("target-info-labels", "", labelString(got))
		}
	}
	anyReserved := false
	for _, sp := range specs {
		anyReserved = anyReserved || sp.reserved
	}
	if _, ok := fams["otel_scope_info"]; ok == o.withoutScopeInfo && len(specs) > 0 {
		fail("scope-info-presence", "", fmt.Sprintf("present=%v withoutScopeInfo=%v", ok, o.withoutScopeInfo))
	}
	// ---- per instrument
	extra := map[string]string{}
	if !o.withoutScopeInfo {
		extra["otel_scope_name"], extra["otel_scope_version"] = scopeName, scopeVersion
	}
	if o.resourceFilter {
		extra[sanitize("service.name")], extra[sanitize("team.id")] = "svc", "t1"
	}
	for _, sp := range specs {
		counter := sp.kind == 0 || sp.kind == 4 || sp.kind == 5
		want := expectedName(sp.name, sp.unit, counter, o)
		if sp.reserved {
			continue // clashes with reserved labels are rejected by client_golang: no-crash only
		}
		mf, ok := fams[want]
		if !ok {
			var names []string
			for n := range fams {
				names = append(names, n)
			}
			sort.Strings(names)
			fail("family-name", kindNames[sp.kind], fmt.Sprintf("instrument %q unit %q: expected family %q, gathered %v", sp.name, sp.unit, want, names))
			continue
		}
		// property-level predicates, independent of expectedName
		n := mf.GetName()
		sName := sanitize(sp.name)
		if counter && !o.withoutCounterSuffixes {
			if !strings.HasSuffix(n, "_total") {
				fail("counter-suffix-missing", "", n)
			}
			if trailingRepeats(n, "total") > maxInt(1, trailingRepeats(sName, "total")) {
				fail("counter-suffix-duplicated", "", fmt.Sprintf("%q from %q", n, sp.name))
			}
		} else if trailingRepeats(n, "total") > trailingRepeats(sName, "total") {
			fail("counter-suffix-unexpected", kindNames[sp.kind], fmt.Sprintf("%q from %q", n, sp.name))
		}
		if suf, known := unitSuffixes[sp.unit]; known && !o.withoutUnits {
			rest := n
			if counter && !o.withoutCounterSuffixes {
				rest = strings.TrimSuffix(rest, "_total")
			}
			base := sName
			if counter && !o.withoutCounterSuffixes {
				base = strings.TrimSuffix(base, "total")
				for len(base) > 0 && isSep(base[len(base)-1]) {
					base = base[:len(base)-1]
				}
			}
			if !strings.HasSuffix(rest, suf) {
				fail("unit-suffix-missing", "", fmt.Sprintf("%q from %q unit %q", n, sp.name, sp.unit))
			}
			if trailingRepeats(rest, suf) > maxInt(1, trailingRepeats(base, suf)) {
				fail("unit-suffix-duplicated", "", fmt.Sprintf("%q from %q unit %q", n, sp.name, sp.unit))
			}
		}
		wantType := map[int]dto.MetricType{0: dto.MetricType_COUNTER, 1: dto.MetricType_GAUGE, 2: dto.MetricType_GAUGE, 3: dto.MetricType_HISTOGRAM, 4: dto.MetricType_COUNTER, 5: dto.MetricType_COUNTER}[sp.kind]
		if mf.GetType() != wantType {
			fail("family-type", kindNames[sp.kind], mf.GetType().String())
		}
		if sp.reserved {
			continue // clashes with reserved labels are rejected by client_golang; fidelity not asserted
		}
		// fidelity vs the twin reader
		exposed := map[string]*dto.Metric{}
		for _, mt := range mf.Metric {
			got := map[string]string{}
			for _, lp := range mt.Label {
				got[lp.GetName()] = lp.GetValue()
			}
			ls := labelString(got)
			if exposed[ls] != nil {
				fail("duplicate-series", "", ls)
			}
			exposed[ls] = mt
		}
		var data metricdata.Aggregation
		for _, sm := range rm.ScopeMetrics {
			for _, mm := range sm.Metrics {
				if mm.Name == sp.name {
					data = mm.Data
				}
			}
		}
		npoints := 0
		cmp := func(set attribute.Set, check func(mt *dto.Metric) string) {
			npoints++
			lbl := expectedLabels(set)
			for kx, vx := range extra {
				lbl[kx] = vx
			}
			ls := labelString(lbl)
			mt := exposed[ls]
			if mt == nil {
				var have []string
				for l := range exposed {
					have = append(have, "{"+l+"}")
				}
				sort.Strings(have)
				fail("series-labels", kindNames[sp.kind], fmt.Sprintf("%s: no series with labels {%s}; exposed %v", n, ls, have))
				return
			}
			if d := check(mt); d != "" {
				fail("series-value", kindNames[sp.kind], fmt.Sprintf("%s{%s}: %s", n, ls, d))
			}
			k.C.Count("series_compared", 1)
		}
		switch d := data.(type) {
		case metricdata.Sum[int64]:
			for _, p := range d.DataPoints {
				v := float64(p.Value)
				cmp(p.Attributes, func(mt *dto.Metric) string { return numCheck(mt, d.IsMonotonic, v) })
			}
		case metricdata.Sum[float64]:
			for _, p := range d.DataPoints {
				v := p.Value
				cmp(p.Attributes, func(mt *dto.Metric) string { return numCheck(mt, d.IsMonotonic, v) })
			}
		case metricdata.Gauge[float64]:
			for _, p := range d.DataPoints {
				v := p.Value
				cmp(p.Attributes, func(mt *dto.Metric) string { return numCheck(mt, false, v) })
			}
		case metricdata.Histogram[float64]:
			for _, p := range d.DataPoints {
				p := p
				cmp(p.Attributes, func(mt *dto.Metric) string {
					h := mt.GetHistogram()
					if h == nil {
						return "not a histogram"
					}
					if h.GetSampleCount() != p.Count || h.GetSampleSum() != p.Sum {
						return fmt.Sprintf("count %d sum %v want %d %v", h.GetSampleCount(), h.GetSampleSum(), p.Count, p.Sum)
					}
					if len(h.Bucket) != len(p.Bounds) {
						return fmt.Sprintf("%d buckets for %d bounds", len(h.Bucket), len(p.Bounds))
					}
					var cum uint64
					for i, b := range h.Bucket {
						cum += p.BucketCounts[i]
						if b.GetUpperBound() != p.Bounds[i] || b.GetCumulativeCount() != cum {
							return fmt.Sprintf("bucket %d: le=%v count=%d want le=%v cumulative=%d", i, b.GetUpperBound(), b.GetCumulativeCount(), p.Bounds[i], cum)
						}
					}
					return ""
				})
			}
		default:
			fail("twin-reader-missing-instrument", kindNames[sp.kind], fmt.Sprintf("%q: %T", sp.name, data))
		}
		if npoints != len(mf.Metric) {
			fail("series-count", kindNames[sp.kind], fmt.Sprintf("%s: %d series exposed, %d SDK data points", n, len(mf.Metric), npoints))
		}
		k.C.Count("instruments_checked", 1)
		nameClass := "plain"
		switch {
		case strings.EqualFold(sp.name, "total"):
			nameClass = "is-total"
		case strings.HasSuffix(strings.ToLower(sp.name), "total"):
			nameClass = "ends-total"
		case strings.Contains(strings.ToLower(sp.name), "total"):
			nameClass = "contains-total"
		}
		if suf, known := unitSuffixes[sp.unit]; known && strings.Contains(sp.name, suf) {
			nameClass += "+carries-unit"
		}
		k.C.Count("names_"+nameClass, 1)
		k.C.Sig(fmt.Sprintf("%v|%s|%s|%v%v%v%v|%v|%v", legacy(), kindNames[sp.kind], nameClass, o.withoutUnits, o.withoutCounterSuffixes, o.withoutTargetInfo, o.withoutScopeInfo, o.namespace != "", unitSuffixes[sp.unit] != ""))
	}
	k.C.Count("registries_gathered", 1)
	k.C.Count("families_gathered", int64(len(mfs)))
	if k.C.NeedSample() {
		var names []string
		for n := range fams {
			names = append(names, n)
		}
		sort.Strings(names)
		k.C.Sample(map[string]any{"config": cfg, "families": names})
	}
}

func expectedLabelsRaw(s attribute.Set) map[string]string {
	out := map[string]string{}
	for _, kv := range s.ToSlice() {
		out[string(kv.Key)] = kv.Value.Emit()
	}
	return out
}

func numCheck(mt *dto.Metric, counter bool, want float64) string {
	var got float64
	switch {
	case mt.Counter != nil:
		if !counter {
			return "exposed as counter"
		}
		got = mt.Counter.GetValue()
	case mt.Gauge != nil:
		if counter {
			return "exposed as gauge"
		}
		got = mt.Gauge.GetValue()
	default:
		return "neither counter nor gauge"
	}
	if got != want && !(math.IsNaN(got) && math.IsNaN(want)) {
		return fmt.Sprintf("value %v, SDK aggregated value %v", got, want)
	}
	return ""
}

func maxInt(a, b int) int {
	if a > b {
		return a
	}
	return b
}

// concurrent scrapes and measurements (incl. the first scrape with a resource filter) under -race
func runConcurrent(k *vf.Case) {
	r := k.R
	reg := prometheus.NewRegistry()
	exp, err := otelprom.New(otelprom.WithRegisterer(reg), otelprom.WithResourceAsConstantLabels(attribute.NewAllowKeysFilter("service.name")))
	if err != nil {
		k.Violate("exporter-constructor-error", "", err.Error(), nil)
		return
	}
	mp := sdkmetric.NewMeterProvider(sdkmetric.WithReader(exp), sdkmetric.WithResource(resource.NewSchemaless(attribute.String("service.name", "svc"))))
	m := mp.Meter("conc")
	c, _ := m.Int64Counter("hits")
	h, _ := m.Float64Histogram("lat", metric.WithUnit("ms"))
	// an asynchronous instrument whose callback always observes the same numbers (and yields in between, so
	// that overlapping scrapes interleave where they can): every scrape must expose exactly what one run of
	// the callback observed
	_, _ = m.Int64ObservableCounter("obs", metric.WithInt64Callback(func(_ context.Context, o metric.Int64Observer) error {
		o.Observe(5, metric.WithAttributes(attribute.String("part", "a")))
		runtime.Gosched()
		o.Observe(7, metric.WithAttributes(attribute.String("part", "b")))
		return nil
	}))
	ctx := context.Background()
	var wg sync.WaitGroup
	release := make(chan struct{})
	var mu sync.Mutex
	var problems []string
	for s := 0; s < 8; s++ {
		wg.Add(1)
		go func() {
			defer wg.Done()
			defer func() {
				if rec := recover(); rec != nil {
					mu.Lock()
					problems = append(problems, fmt.Sprint("panic: ", rec))
					mu.Unlock()
				}
			}()
			<-release
			for i := 0; i < 10; i++ {
				mfs, err := reg.Gather()
				if err != nil {
					mu.Lock()
					problems = append(problems, "gather: "+err.Error())
					mu.Unlock()
				}
				obsSeen := map[string]float64{}
				for _, mf := range mfs {
					if mf.GetName() == "obs_total" {
						for _, mt := range mf.Metric {
							for _, lp := range mt.Label {
								if lp.GetName() == "part" {
									obsSeen[lp.GetValue()] = mt.GetCounter().GetValue()
								}
							}
						}
					}
				}
				if err == nil && (len(obsSeen) != 2 || obsSeen["a"] != 5 || obsSeen["b"] != 7) {
					mu.Lock()
					problems = append(problems, fmt.Sprintf("observable counter: the callback observes a=5 b=7 on every collection, a scrape exposed %v", obsSeen))
					mu.Unlock()
				}
				for _, mf := range mfs {
					for _, mt := range mf.Metric {
						found := mf.GetName() == "target_info" || mf.GetName() == "otel_scope_info"
						for _, lp := range mt.Label {
							if lp.GetName() == "service_name" || lp.GetName() == "service.name" {
								found = true
							}
						}
						if !found {
							mu.Lock()
							problems = append(problems, "series without the resource constant label: "+mf.GetName())
							mu.Unlock()
						}
					}
				}
			}
		}()
	}
	for w := 0; w < 8; w++ {
		seed := r.U64()
		wg.Add(1)
		go func() {
			defer wg.Done()
			gr := vf.NewRNG(seed)
			<-release
			for i := 0; i < 200; i++ {
				a := metric.WithAttributes(attribute.Int("k", gr.Intn(5)))
				c.Add(ctx, 1, a)
				h.Record(ctx, float64(gr.Intn(100)), a)
			}
		}()
	}
	finished, stuck, desc := vf.Watch(60*time.Second, 2*time.Second, func() { close(release); wg.Wait() })
	if !finished {
		if stuck {
			k.Violate("deadlock", "prometheus", desc, nil)
		} else {
			k.C.Inconclusive("concurrent scrape case did not finish")
		}
		return
	}
	seen := map[string]bool{}
	for _, p := range problems {
		if !seen[p] {
			k.Violate("concurrent-scrape-problem", strings.SplitN(p, ":", 2)[0], p, nil)
			seen[p] = true
		}
	}
	k.C.Count("concurrent_cases", 1)
	k.C.Sig("concurrent")
	firstScrapeRounds(k)
}

// firstScrapeRounds aims at the one moment an exporter has per configuration: its first scrape, when the
// collector builds target_info and the resource constant labels. Many short-lived exporters with large
// resources (a wide window) are each scraped for the first time by several goroutines at once.
func firstScrapeRounds(k *vf.Case) {
	r := k.R
	for round := 0; round < 24; round++ {
		nattr := vf.Pick(r, []int{1, 20, 200, 600})
		kvs := []attribute.KeyValue{attribute.String("service.name", "svc")}
		for i := 0; i < nattr; i++ {
			kvs = append(kvs, attribute.String(fmt.Sprintf("res.attr.%d", i), "v"))
		}
		reg := prometheus.NewRegistry()
		var filter attribute.Filter
		if r.Bool() {
			filter = attribute.NewDenyKeysFilter()
		} else {
			filter = attribute.NewAllowKeysFilter("service.name", "res.attr.0", "res.attr.7")
		}
		exp, err := otelprom.New(otelprom.WithRegisterer(reg), otelprom.WithResourceAsConstantLabels(filter))
		if err != nil {
			k.Violate("exporter-constructor-error", "", err.Error(), nil)
			return
		}
		mp := sdkmetric.NewMeterProvider(sdkmetric.WithReader(exp), sdkmetric.WithResource(resource.NewSchemaless(kvs...)))
		if r.Chance(2, 3) {
			c, _ := mp.Meter("first").Int64Counter("hits")
			c.Add(context.Background(), 1)
		}
		scrapers := 2 + r.Intn(7)
		var wg sync.WaitGroup
		release := make(chan struct{})
		var mu sync.Mutex
		var problems []string
		for s := 0; s < scrapers; s++ {
			wg.Add(1)
			go func() {
				defer wg.Done()
				defer func() {
					if rec := recover(); rec != nil {
						mu.Lock()
						problems = append(problems, fmt.Sprint("panic: ", rec))
						mu.Unlock()
					}
				}()
				<-release
				for i := 0; i < 2; i++ {
					mfs, err := reg.Gather()
					if err != nil {
						mu.Lock()
						problems = append(problems, "gather: "+err.Error())
						mu.Unlock()
					}
					for _, mf := range mfs {
						if mf.GetName() == "target_info" || mf.GetName() == "otel_scope_info" {
							continue
						}
						for _, mt := range mf.Metric {
							found := false
							for _, lp := range mt.Label {
								if lp.GetName() == "service_name" || lp.GetName() == "service.name" {
									found = true
								}
							}
							if !found {
								mu.Lock()
								problems = append(problems, "series without the resource constant label: "+mf.GetName())
								mu.Unlock()
							}
						}
					}
				}
			}()
		}
		finished, stuck, desc := vf.Watch(60*time.Second, 2*time.Second, func() { close(release); wg.Wait() })
		if !finished {
			if stuck {
				k.Violate("deadlock", "prometheus first scrape", desc, nil)
			} else {
				k.C.Inconclusive("first-scrape round did not finish")
			}
			return
		}
		seen := map[string]bool{}
		for _, p := range problems {
			if !seen[p] {
				k.Violate("concurrent-scrape-problem", "first scrape: "+strings.SplitN(p, ":", 2)[0], p, nil)
				seen[p] = true
			}
		}
		mp.Shutdown(context.Background())
		k.C.Count("concurrent_first_scrape_rounds", 1)
	}
}

// runScopes: several instrumentation scopes in one registry that share name, version and schema URL and
// differ only in their scope attributes (plus, sometimes, an exact duplicate). Every scrape must be
// accepted by the registry and otel_scope_info must carry one series per distinct scope.
func runScopes(k *vf.Case) {
	r := k.R
	reg := prometheus.NewRegistry()
	exp, err := otelprom.New(otelprom.WithRegisterer(reg))
	if err != nil {
		k.Violate("exporter-constructor-error", "", err.Error(), nil)
		return
	}
	mp := sdkmetric.NewMeterProvider(sdkmetric.WithReader(exp))
	ctx := context.Background()
	name, ver, schema := vf.Pick(r, []string{"scope", "lib/x"}), vf.Pick(r, []string{"", "v1"}), vf.Pick(r, []string{"", "https://example.com/schema/1.0"})
	n := 2 + r.Intn(3)
	distinct := map[string]bool{}
	for i := 0; i < n; i++ {
		tenant := fmt.Sprintf("t%d", r.Intn(3))
		var opts []metric.MeterOption
		opts = append(opts, metric.WithInstrumentationVersion(ver), metric.WithSchemaURL(schema))
		if r.Chance(3, 4) {
			kvs := []attribute.KeyValue{attribute.String("tenant", tenant)}
			if r.Chance(1, 3) {
				// scope attributes whose keys are, or sanitise to, the labels the exporter adds itself (the
				// exporter's own value wins; the tenant is made unique so that the scopes stay distinct then)
				tenant = fmt.Sprintf("u%d", i)
				kvs[0] = attribute.String("tenant", tenant)
				kvs = append(kvs, attribute.String(vf.Pick(r, []string{"otel_scope_name", "otel.scope.name", "otel_scope_version", "otel.scope.version"}), "from-attribute"))
				k.C.Count("scope_cases_with_reserved_label_attributes", 1)
			}
			opts = append(opts, metric.WithInstrumentationAttributes(kvs...))
		} else {
			tenant = ""
		}
		distinct[tenant] = true
		c, _ := mp.Meter(name, opts...).Int64Counter(fmt.Sprintf("hits_%d", i))
		c.Add(ctx, int64(1+i))
	}
	for round := 0; round < 2; round++ {
		var mfs []*dto.MetricFamily
		var gerr error
		if !k.Guard("panic-in-gather", "scopes", func() { mfs, gerr = reg.Gather() }) {
			return
		}
		if gerr != nil {
			k.Violate("gather-error", "scopes differing only in attributes", gerr.Error(), nil)
			return
		}
		seen := map[string]bool{}
		counters := 0
		for _, mf := range mfs {
			if mf.GetName() == "otel_scope_info" {
				for _, mt := range mf.Metric {
					t := ""
					for _, lp := range mt.Label {
						if lp.GetName() == "tenant" {
							t = lp.GetValue()
						}
					}
					if seen[t] {
						k.Violate("scope-info-series", "duplicate", fmt.Sprintf("two otel_scope_info series for tenant %q", t), nil)
					}
					seen[t] = true
				}
			}
			if strings.HasPrefix(mf.GetName(), "hits_") {
				counters++
			}
		}
		if len(seen) != len(distinct) {
			k.Violate("scope-info-series", "count", fmt.Sprintf("%d otel_scope_info series for %d distinct scopes", len(seen), len(distinct)), nil)
		}
		if counters != n {
			k.Violate("series-count", "scopes", fmt.Sprintf("%d of %d counters exposed", counters, n), nil)
		}
	}
	mp.Shutdown(ctx)
	k.C.Count("scope_cases", 1)
	k.C.Sig(fmt.Sprintf("scopes|%d|%d", n, len(distinct)))
}

// runExpo: a histogram under the base-2 exponential aggregation is exposed as a Prometheus native histogram.
// The spans/deltas of the exposed histogram are decoded back into (bucket index -> count) and compared with
// the twin reader's data point: OTel bucket j is native bucket j+1, on the positive and on the negative side.
func runExpo(k *vf.Case) {
	r := k.R
	reg := prometheus.NewRegistry()
	exp, err := otelprom.New(otelprom.WithRegisterer(reg))
	if err != nil {
		k.Violate("exporter-constructor-error", "", err.Error(), nil)
		return
	}
	twin := sdkmetric.NewManualReader()
	mp := sdkmetric.NewMeterProvider(sdkmetric.WithReader(exp), sdkmetric.WithReader(twin),
		sdkmetric.WithView(sdkmetric.NewView(sdkmetric.Instrument{Name: "lat"}, sdkmetric.Stream{Aggregation: sdkmetric.AggregationBase2ExponentialHistogram{MaxSize: vf.Pick(r, []int32{4, 20, 160}), MaxScale: vf.Pick(r, []int32{0, 3, 8, 8, 20})}})))
	ctx := context.Background()
	h, _ := mp.Meter("expo").Float64Histogram("lat")
	profile := r.Intn(4)
	for n := 1 + r.Intn(40); n > 0; n-- {
		v := float64(1+r.Intn(5000)) / 8
		switch profile {
		case 1:
			v = -v
		case 2:
			if r.Bool() {
				v = -v / float64(1+r.Intn(1000))
			}
		case 3:
			v = vf.Pick(r, []float64{0, 1, -1, 0.001, -1000, 1000, -0.25})
		}
		h.Record(ctx, v)
	}
	var mfs []*dto.MetricFamily
	var gerr error
	if !k.Guard("panic-in-gather", "expo", func() { mfs, gerr = reg.Gather() }) {
		return
	}
	if gerr != nil {
		k.Violate("gather-error", "exponential histogram", gerr.Error(), nil)
		return
	}
	var rm metricdata.ResourceMetrics
	if err := twin.Collect(ctx, &rm); err != nil {
		return
	}
	var want *metricdata.ExponentialHistogramDataPoint[float64]
	for _, sm := range rm.ScopeMetrics {
		for _, mt := range sm.Metrics {
			if d, ok := mt.Data.(metricdata.ExponentialHistogram[float64]); ok && len(d.DataPoints) == 1 {
				want = &d.DataPoints[0]
			}
		}
	}
	var got *dto.Histogram
	for _, mf := range mfs {
		if mf.GetName() == "lat" && len(mf.Metric) == 1 {
			got = mf.Metric[0].GetHistogram()
		}
	}
	if want != nil && got == nil && (want.Scale > 8 || want.Scale < -4) {
		// Prometheus native histograms only have schemas -4..8; the exporter does not downscale
		k.Violate("series-count", "exponential histogram with a scale outside [-4,8] is not exposed", fmt.Sprintf("scale %d: the data point is missing from the scrape (client_golang rejects the schema, the error goes to the ErrorHandler)", want.Scale), nil)
		k.C.Count("expo_cases_outside_native_schema_range", 1)
		return
	}
	if want == nil || got == nil {
		k.Violate("series-count", "exponential histogram", fmt.Sprintf("twin has point=%v, registry has histogram=%v", want != nil, got != nil), nil)
		return
	}
	decode := func(spans []*dto.BucketSpan, deltas []int64) map[int]int64 {
		out := map[int]int64{}
		idx, di := 0, 0
		var cur int64
		for si, sp := range spans {
			if si == 0 {
				idx = int(sp.GetOffset())
			} else {
				idx += int(sp.GetOffset())
			}
			for n := 0; n < int(sp.GetLength()) && di < len(deltas); n++ {
				cur += deltas[di]
				di++
				if cur != 0 {
					out[idx] = cur
				}
				idx++
			}
		}
		return out
	}
	expect := func(b metricdata.ExponentialBucket) map[int]int64 {
		out := map[int]int64{}
		for i, c := range b.Counts {
			if c != 0 {
				out[int(b.Offset)+i+1] = int64(c)
			}
		}
		return out
	}
	detail := func() string {
		return fmt.Sprintf("scale %d zero %d count %d sum %v\nSDK positive offset %d counts %v, negative offset %d counts %v\nexposed schema %d zero %d count %d sum %v positive %v negative %v",
			want.Scale, want.ZeroCount, want.Count, want.Sum, want.PositiveBucket.Offset, want.PositiveBucket.Counts, want.NegativeBucket.Offset, want.NegativeBucket.Counts,
			got.GetSchema(), got.GetZeroCount(), got.GetSampleCount(), got.GetSampleSum(), decode(got.PositiveSpan, got.PositiveDelta), decode(got.NegativeSpan, got.NegativeDelta))
	}
	if got.GetSchema() != want.Scale || got.GetZeroCount() != want.ZeroCount || got.GetSampleCount() != want.Count || got.GetSampleSum() != want.Sum {
		k.Violate("series-value", "exponential histogram header", detail(), nil)
		return
	}
	if fmt.Sprint(decode(got.PositiveSpan, got.PositiveDelta)) != fmt.Sprint(expect(want.PositiveBucket)) {
		k.Violate("series-value", "exponential histogram positive buckets", detail(), nil)
		return
	}
	if fmt.Sprint(decode(got.NegativeSpan, got.NegativeDelta)) != fmt.Sprint(expect(want.NegativeBucket)) {
		k.Violate("series-value", "exponential histogram negative buckets", detail(), nil)
		return
	}
	mp.Shutdown(ctx)
	k.C.Count("expo_cases", 1)
	if len(want.NegativeBucket.Counts) > 0 {
		k.C.Count("expo_cases_with_negative_buckets", 1)
	}
	k.C.Sig(fmt.Sprintf("expo|%d|%d", profile, want.Scale))
}

// runExemplars: measurements made under a sampled span carry exemplars; with an attribute filter the dropped
// attributes travel as exemplar labels, and Prometheus refuses exemplars whose labels exceed 128 runes. Such a
// series must be exposed without the exemplar - not crash the scrape.
func runExemplars(k *vf.Case) {
	r := k.R
	reg := prometheus.NewRegistry()
	exp, err := otelprom.New(otelprom.WithRegisterer(reg))
	if err != nil {
		k.Violate("exporter-constructor-error", "", err.Error(), nil)
		return
	}
	mp := sdkmetric.NewMeterProvider(sdkmetric.WithReader(exp),
		sdkmetric.WithView(sdkmetric.NewView(sdkmetric.Instrument{Name: "*"}, sdkmetric.Stream{AttributeFilter: attribute.NewAllowKeysFilter("keep")})))
	m := mp.Meter("ex")
	c, _ := m.Int64Counter("requests")
	h, _ := m.Float64Histogram("latency")
	sc := trace.NewSpanContext(trace.SpanContextConfig{TraceID: trace.TraceID{1, 2, 3}, SpanID: trace.SpanID{4, 5}, TraceFlags: trace.FlagsSampled})
	ctx := trace.ContextWithSpanContext(context.Background(), sc)
	long := r.ASCIIFrom("abcdefghij/", vf.Pick(r, []int{10, 60, 64, 65, 66, 200, 1000}))
	n := 1 + r.Intn(5)
	for i := 0; i < n; i++ {
		o := metric.WithAttributes(attribute.String("keep", "a"), attribute.String("url", long), attribute.Int("i", i))
		c.Add(ctx, 1, o)
		h.Record(ctx, 12.5, o)
	}
	var mfs []*dto.MetricFamily
	var gerr error
	if !k.Guard("panic-in-gather", "exemplars", func() { mfs, gerr = reg.Gather() }) {
		return
	}
	if gerr != nil {
		k.Violate("gather-error", "exemplars", gerr.Error(), nil)
		return
	}
	var gotC, gotH bool
	for _, mf := range mfs {
		switch mf.GetName() {
		case "requests_total":
			gotC = len(mf.Metric) == 1 && mf.Metric[0].GetCounter().GetValue() == float64(n)
		case "latency":
			gotH = len(mf.Metric) == 1 && mf.Metric[0].GetHistogram().GetSampleCount() == uint64(n)
		}
	}
	if !gotC || !gotH {
		k.Violate("series-value", "instrument with exemplars", fmt.Sprintf("exemplar label of %d characters: counter exposed correctly=%v, histogram exposed correctly=%v", len(long), gotC, gotH), nil)
	}
	mp.Shutdown(context.Background())
	k.C.Count("exemplar_cases", 1)
	k.C.Sig(fmt.Sprintf("exemplars|%d", len(long)))
}

// runSameName: libraries (instrumentation scopes) that publish an instrument under the same name and kind
// but in different units. With unit suffixes on they are different families; each must be exposed under its
// own name with its own value, on every scrape and in whichever order the scopes were first seen.
func runSameName(k *vf.Case) {
	r := k.R
	o := opts{withoutCounterSuffixes: r.Chance(1, 4), withoutScopeInfo: r.Chance(1, 4)}
	reg := prometheus.NewRegistry()
	eopts := []otelprom.Option{otelprom.WithRegisterer(reg)}
	if o.withoutCounterSuffixes {
		eopts = append(eopts, otelprom.WithoutCounterSuffixes())
	}
	if o.withoutScopeInfo {
		eopts = append(eopts, otelprom.WithoutScopeInfo())
	}
	exp, err := otelprom.New(eopts...)
	if err != nil {
		k.Violate("exporter-constructor-error", "", err.Error(), nil)
		return
	}
	mp := sdkmetric.NewMeterProvider(sdkmetric.WithReader(exp))
	ctx := context.Background()
	defer mp.Shutdown(ctx)
	units := make([]string, 0, len(unitSuffixes))
	for u := range unitSuffixes {
		units = append(units, u)
	}
	sort.Strings(units)
	name := vf.Pick(r, []string{"payload", "rpc.duration", "queue-depth", "Size", "io"})
	kind := r.Intn(3) // 0 counter, 1 gauge, 2 histogram
	nScopes := 2 + r.Intn(2)
	type inst struct {
		scope, unit string
		v           int64
	}
	var insts []inst
	usedSuffix := map[string]bool{}
	for i := 0; i < nScopes; i++ {
		u := vf.Pick(r, units)
		if usedSuffix[unitSuffixes[u]] {
			continue
		}
		usedSuffix[unitSuffixes[u]] = true
		insts = append(insts, inst{scope: fmt.Sprintf("lib%d", i), unit: u, v: int64(3 + 10*i + r.Intn(5))})
	}
	for _, in := range insts {
		m := mp.Meter(in.scope)
		switch kind {
		case 0:
			c, _ := m.Int64Counter(name, metric.WithUnit(in.unit))
			c.Add(ctx, in.v)
		case 1:
			g, _ := m.Int64Gauge(name, metric.WithUnit(in.unit))
			g.Record(ctx, in.v)
		default:
			h, _ := m.Int64Histogram(name, metric.WithUnit(in.unit))
			h.Record(ctx, in.v)
		}
	}
	for round := 0; round < 2; round++ {
		var mfs []*dto.MetricFamily
		var gerr error
		if !k.Guard("panic-in-gather", "same name, different units", func() { mfs, gerr = reg.Gather() }) {
			return
		}
		if gerr != nil {
			k.Violate("gather-error", "same name, different units", gerr.Error(), nil)
			return
		}
		fams := map[string]*dto.MetricFamily{}
		var names []string
		for _, mf := range mfs {
			fams[mf.GetName()] = mf
			names = append(names, mf.GetName())
		}
		for _, in := range insts {
			want := expectedName(name, in.unit, kind == 0, o)
			mf := fams[want]
			if mf == nil {
				k.Violate("family-name", "same name, different units", fmt.Sprintf("round %d: instrument %q unit %q of scope %s: expected family %q, gathered %v", round, name, in.unit, in.scope, want, names), nil)
				continue
			}
			if len(mf.Metric) != 1 {
				k.Violate("series-count", "same name, different units", fmt.Sprintf("%s: %d series, want 1", want, len(mf.Metric)), nil)
				continue
			}
			mt := mf.Metric[0]
			var got float64
			switch kind {
			case 0:
				got = mt.GetCounter().GetValue()
			case 1:
				got = mt.GetGauge().GetValue()
			default:
				got = mt.GetHistogram().GetSampleSum()
			}
			if got != float64(in.v) {
				k.Violate("series-value", "same name, different units", fmt.Sprintf("%s: %v, want %d (the value recorded by scope %s in %q)", want, got, in.v, in.scope, in.unit), nil)
			}
			k.C.Count("same_name_series_compared", 1)
		}
	}
	k.C.Count("same_name_cases", 1)
	k.C.Sig(fmt.Sprintf("same-name|%d|%d|%v", kind, len(insts), o.withoutCounterSuffixes))
}

// runHostileResource: a resource target_info cannot be built from (a value that is not UTF-8, a label name
// Prometheus reserves). The exporter reports that through the error handler; a scrape must neither crash nor
// lose the instruments, and target_info is simply absent.
func runHostileResource(k *vf.Case) {
	r := k.R
	reg := prometheus.NewRegistry()
	eopts := []otelprom.Option{otelprom.WithRegisterer(reg)}
	withoutTI := r.Chance(1, 5)
	if withoutTI {
		eopts = append(eopts, otelprom.WithoutTargetInfo())
	}
	exp, err := otelprom.New(eopts...)
	if err != nil {
		k.Violate("exporter-constructor-error", "", err.Error(), nil)
		return
	}
	kvs := []attribute.KeyValue{attribute.String("service.name", "svc")}
	hostile := ""
	switch r.Intn(4) {
	case 0:
		kvs = append(kvs, attribute.String("bad.value", "a\xffb"))
		hostile = "invalid UTF-8 value"
	case 1:
		kvs = append(kvs, attribute.String("__replica__", "r1"))
		hostile = "reserved label name"
	case 2:
		kvs = append(kvs, attribute.String("__name__", "x"))
		hostile = "reserved label name"
	default:
		hostile = "none"
	}
	mp := sdkmetric.NewMeterProvider(sdkmetric.WithReader(exp), sdkmetric.WithResource(resource.NewSchemaless(kvs...)))
	ctx := context.Background()
	defer mp.Shutdown(ctx)
	c, _ := mp.Meter("scope").Int64Counter("requests")
	c.Add(ctx, 5)
	for round := 0; round < 3; round++ {
		var mfs []*dto.MetricFamily
		var gerr error
		if !k.Guard("panic-in-gather", "resource target_info cannot be built from: "+hostile, func() { mfs, gerr = reg.Gather() }) {
			return
		}
		if gerr != nil {
			k.Violate("gather-error", "hostile resource: "+hostile, gerr.Error(), nil)
			return
		}
		var names []string
		found, ti := false, false
		for _, mf := range mfs {
			names = append(names, mf.GetName())
			if mf.GetName() == "requests_total" && len(mf.Metric) == 1 && mf.Metric[0].GetCounter().GetValue() == 5 {
				found = true
			}
			if mf.GetName() == "target_info" {
				ti = true
			}
		}
		if !found {
			k.Violate("series-value", "hostile resource: "+hostile, fmt.Sprintf("round %d: requests_total=5 not exposed; gathered %v", round, names), nil)
		}
		if hostile == "none" && ti == withoutTI {
			k.Violate("target-info-presence", "plain resource", fmt.Sprintf("present=%v withoutTargetInfo=%v", ti, withoutTI), nil)
		}
		if hostile != "none" && ti && withoutTI {
			k.Violate("target-info-presence", "hostile resource", "present although disabled", nil)
		}
	}
	k.C.Count("hostile_resource_cases", 1)
	k.C.Sig("hostile-resource|" + hostile)
}

func main() {
	for i, a := range os.Args {
		if a == "--replay" && i+1 < len(os.Args) {
			if b, err := os.ReadFile(os.Args[i+1]); err == nil && strings.Contains(string(b), `"family": "legacy"`) {
				os.Setenv("C18_SCHEME", "legacy")
			}
		}
	}
	if os.Getenv("C18_SCHEME") == "legacy" {
		model.NameValidationScheme = model.LegacyValidation //nolint:staticcheck
	}
	vf.Main("C18", "exploration", func(c *vf.Ctx) {
		c.Rule = "child processes per name-validation scheme (legacy / UTF-8, a process global): registries with 1-3 instruments whose names come from the API grammar biased to unit words and 'total' as whole name/prefix/suffix with every separator and case, 255-character names; units from the suffix table, unknown, empty; counters, up-down counters, gauges, histograms, observable counters; attribute keys colliding after sanitisation, starting with digits, non-ASCII, reserved labels; option vectors (without units / counter suffixes / target info / scope info, namespaces incl. invalid characters, resource filter); every registry is gathered twice and compared with a twin cumulative ManualReader on the same MeterProvider; concurrent scrapes and measurements under -race; scopes publishing one instrument name in different units; resources target_info cannot be built from. distinct = distinct (scheme, kind, name class, option vector, namespace, known unit) signatures"
		c.Assume = []string{"client_golang's Gather is the acceptance oracle for families; model.EscapeName (prometheus/common) is used to state expected legacy names", "attribute keys equal to reserved otel_scope_* / le labels make client_golang reject the point: exercised for no-crash only", "no two instruments of one registry share a sanitised name prefix (family collisions are the user's)"}
		otel.SetErrorHandler(&errs{})
		otel.SetLogger(logr.Discard())
		n := c.N(6000, 100_000)
		c.Isolated("utf8", n/2, vf.IsoOpts{Batch: 200, Par: 16, Env: func(int) []string { return []string{"C18_SCHEME=utf8"} }}, runCase)
		c.Isolated("legacy", n/2, vf.IsoOpts{Batch: 200, Par: 16, Env: func(int) []string { return []string{"C18_SCHEME=legacy"} }}, runCase)
		c.Isolated("concurrent", c.N(160, 2000), vf.IsoOpts{Batch: 10, Par: 16}, runConcurrent)
		c.Isolated("scopes", c.N(400, 6000), vf.IsoOpts{Batch: 50, Par: 16}, runScopes)
		c.Isolated("expo", c.N(600, 8000), vf.IsoOpts{Batch: 60, Par: 16}, runExpo)
		c.Isolated("exemplars", c.N(300, 4000), vf.IsoOpts{Batch: 50, Par: 16}, runExemplars)
		c.Isolated("same-name", c.N(400, 6000), vf.IsoOpts{Batch: 50, Par: 16}, runSameName)
		c.Isolated("hostile-resource", c.N(200, 3000), vf.IsoOpts{Batch: 50, Par: 16}, runHostileResource)
		c.Floor("same_name_series_compared", 200)
		c.Floor("hostile_resource_cases", 100)
		c.Floor("exemplar_cases", 150)
		c.Floor("expo_cases", 300)
		c.Floor("expo_cases_with_negative_buckets", 50)
		c.Floor("scope_cases", 200)
		c.Floor("instruments_checked", 2000)
		c.Floor("series_compared", 4000)
		c.Floor("names_is-total", 10)
		c.Floor("concurrent_cases", 100)
	})
}
