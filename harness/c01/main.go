// C01 — batch span processor: exactly once, bounded batches, exclusive export, quiet after Shutdown.
package main

import (
	"context"
	"errors"
	"fmt"
	"os"
	"runtime"
	"sort"
	"strconv"
	"strings"
	"sync"
	"sync/atomic"
	"time"

	"github.com/go-logr/logr"
	"go.opentelemetry.io/otel"
	sdktrace "go.opentelemetry.io/otel/sdk/trace"
	"go.opentelemetry.io/otel/trace"

	"verifharness/spanlist"
	"verifharness/vf"
)

// ---------------------------------------------------------------------------------------------
// logr sink capturing the BSP's "exporting spans ... total_dropped N" debug record

type sink struct {
	mu          sync.Mutex
	lastDropped int64
	records     int64
}

func (s *sink) Init(logr.RuntimeInfo)          {}
func (s *sink) Enabled(int) bool               { return true }
func (s *sink) Error(error, string, ...any)    {}
func (s *sink) WithValues(...any) logr.LogSink { return s }
func (s *sink) WithName(string) logr.LogSink   { return s }
func (s *sink) Info(_ int, msg string, kv ...any) {
	if msg != "exporting spans" {
		return
	}
	s.mu.Lock()
	defer s.mu.Unlock()
	for i := 0; i+1 < len(kv); i += 2 {
		if k, _ := kv[i].(string); k == "total_dropped" {
			switch v := kv[i+1].(type) {
			case uint32:
				s.lastDropped = int64(v)
			case int:
				s.lastDropped = int64(v)
			case uint64:
				s.lastDropped = int64(v)
			case int64:
				s.lastDropped = v
			}
			s.records++
		}
	}
}
func (s *sink) reset() { s.mu.Lock(); s.lastDropped, s.records = 0, 0; s.mu.Unlock() }
func (s *sink) get() (int64, int64) {
	s.mu.Lock()
	defer s.mu.Unlock()
	return s.lastDropped, s.records
}

var theSink = &sink{}

// ---------------------------------------------------------------------------------------------
// recording exporter

type exportEv struct {
	enter, exit uint64
	ids         []trace.SpanID
	unsampled   int
	deadline    bool
	err         bool
}

type exporter struct {
	mu        sync.Mutex
	events    []exportEv
	inFlight  int32
	overlaps  int32
	mutated   []string // batches that changed while ExportSpans was still running
	shutdowns []uint64 // tickets of exporter.Shutdown calls
	calls     int
	// behaviour
	mode     int // 0 instant, 1 slow, 2 error every k, 3 block until ctx expires, 4 gate
	k        int
	sleep    time.Duration
	gate     chan struct{}
	gateOnce sync.Once
}

func (e *exporter) openGate() { e.gateOnce.Do(func() { close(e.gate) }) }

func (e *exporter) ExportSpans(ctx context.Context, ss []sdktrace.ReadOnlySpan) error {
	if atomic.AddInt32(&e.inFlight, 1) != 1 {
		atomic.AddInt32(&e.overlaps, 1)
	}
	defer atomic.AddInt32(&e.inFlight, -1)
	ev := exportEv{enter: vf.Tick()}
	for _, s := range ss {
		ev.ids = append(ev.ids, s.SpanContext().SpanID())
		if !s.SpanContext().IsSampled() {
			ev.unsampled++
		}
	}
	_, ev.deadline = ctx.Deadline()
	e.mu.Lock()
	e.calls++
	n := e.calls
	e.mu.Unlock()
	var err error
	switch e.mode {
	case 1:
		time.Sleep(e.sleep)
	case 2:
		if n%e.k == 0 {
			// a failed export is a failed export whatever the error wraps: a collector's own cancelled
			// connection context must not look like this processor going away
			switch (n / e.k) % 3 {
			case 0:
				err = errors.New("scripted export failure")
			case 1:
				err = fmt.Errorf("scripted export failure: upstream connection: %w", context.Canceled)
			default:
				err = fmt.Errorf("scripted export failure: upstream call: %w", context.DeadlineExceeded)
			}
		}
	case 3:
		if n%e.k == 0 {
			<-ctx.Done()
			err = ctx.Err()
		}
	case 4:
		select {
		case <-e.gate:
		case <-ctx.Done():
			err = ctx.Err()
		}
	}
	ev.err = err != nil
	// an exporter reads its batch while it works on it (marshalling happens after the queue wait, the
	// connection set-up, ...): what it was handed must still be there when it is about to return
	changed := ""
	if len(ss) != len(ev.ids) {
		changed = fmt.Sprintf("batch length %d at entry, %d at exit", len(ev.ids), len(ss))
	} else {
		for i, s := range ss {
			if s == nil || s.SpanContext().SpanID() != ev.ids[i] {
				changed = fmt.Sprintf("position %d of %d held span %s at entry and another span before ExportSpans returned", i, len(ss), ev.ids[i])
				break
			}
		}
	}
	ev.exit = vf.Tick()
	e.mu.Lock()
	e.events = append(e.events, ev)
	if changed != "" {
		e.mutated = append(e.mutated, changed)
	}
	e.mu.Unlock()
	return err
}

func (e *exporter) Shutdown(context.Context) error {
	if atomic.LoadInt32(&e.inFlight) != 0 {
		atomic.AddInt32(&e.overlaps, 1)
	}
	e.mu.Lock()
	e.shutdowns = append(e.shutdowns, vf.Tick())
	e.mu.Unlock()
	return nil
}

// sampler: names starting with 'u' are dropped, 'r' record-only, everything else sampled.
type nameSampler struct{}

func (nameSampler) ShouldSample(p sdktrace.SamplingParameters) sdktrace.SamplingResult {
	d := sdktrace.RecordAndSample
	switch p.Name[0] {
	case 'u':
		d = sdktrace.Drop
	case 'r':
		d = sdktrace.RecordOnly
	}
	return sdktrace.SamplingResult{Decision: d}
}
func (nameSampler) Description() string { return "byName" }

// ---------------------------------------------------------------------------------------------

type spanRec struct {
	id        trace.SpanID
	producer  int
	seq       int
	sampled   bool
	call, ret uint64
}

type callRec struct {
	kind      string // "flush" | "shutdown"
	call, ret uint64
	err       error
	ctxKind   string
}

type cfg struct {
	Queue, Batch  int
	Timeout       time.Duration
	ExportTimeout time.Duration
	Blocking      bool
	ExpMode       int
	Producers     int
	PerProducer   int
	Flushers      int
	Shutdowners   int
	Procs         int
}

func (c cfg) String() string {
	return fmt.Sprintf("queue=%d batch=%d timeout=%v exportTimeout=%v blocking=%v exporter=%s producers=%dx%d flushers=%d shutdowners=%d procs=%d",
		c.Queue, c.Batch, c.Timeout, c.ExportTimeout, c.Blocking, []string{"instant", "slow", "erroring", "ctx-blocking", "gated"}[c.ExpMode], c.Producers, c.PerProducer, c.Flushers, c.Shutdowners, c.Procs)
}

func genCfg(r *vf.RNG) cfg {
	c := cfg{
		Queue:         vf.Pick(r, []int{0, 1, 2, 3, 8, 64, 2048}),
		Batch:         vf.Pick(r, []int{1, 2, 3, 7, 64, 512}),
		Timeout:       vf.Pick(r, []time.Duration{time.Millisecond, 5 * time.Millisecond, time.Hour}),
		ExportTimeout: vf.Pick(r, []time.Duration{0, time.Millisecond, time.Second}),
		Blocking:      r.Bool(),
		ExpMode:       vf.Pick(r, []int{0, 0, 1, 2, 3, 4}),
		Producers:     vf.Pick(r, []int{1, 2, 4, 8, 16}),
		Flushers:      r.Intn(3),
		Shutdowners:   vf.Pick(r, []int{0, 0, 0, 1, 2}),
		Procs:         vf.Pick(r, []int{2, 4, 16}),
	}
	c.PerProducer = 1 + r.Intn(400/c.Producers+1)
	if c.Queue == 0 {
		// an unbuffered queue is explored in blocking mode only: in dropping mode the sentinel span of the quiescence
		// protocol below may itself be dropped after the last total_dropped record, so exact accounting has no anchor
		c.Blocking = true
	}
	if c.ExpMode == 3 && c.ExportTimeout == 0 {
		c.ExportTimeout = time.Millisecond
	}
	if c.ExpMode == 3 && c.ExportTimeout == time.Second {
		c.ExportTimeout = 2 * time.Millisecond
	}
	return c
}

// deadlineFlush: histories of the "deadline-flush" family. A tiny blocking queue kept full by many producers, an
// instant exporter, and flushers whose contexts expire within microseconds: a ForceFlush whose marker cannot
// be queued in time must not report success (the same oracle as every other history decides).
var deadlineFlush bool

func runDeadlineFlush(k *vf.Case) {
	deadlineFlush = true
	defer func() { deadlineFlush = false }()
	runHistory(k)
	k.C.Count("deadline_flush_histories", 1)
}

func runHistory(k *vf.Case) {
	r := k.R
	c := genCfg(r)
	if deadlineFlush {
		c.Queue, c.Blocking, c.ExpMode, c.Timeout = vf.Pick(r, []int{1, 2, 3}), true, 0, time.Hour
		c.Batch = vf.Pick(r, []int{2, 7, 64})
		c.Producers, c.PerProducer, c.Flushers, c.Shutdowners = vf.Pick(r, []int{8, 16}), 150, 4, 0
		c.ExportTimeout = 0
	}
	prev := runtime.GOMAXPROCS(c.Procs)
	defer runtime.GOMAXPROCS(prev)
	theSink.reset()

	exp := &exporter{mode: c.ExpMode, k: 2 + r.Intn(3), sleep: time.Duration(100+r.Intn(2000)) * time.Microsecond, gate: make(chan struct{})}
	opts := []sdktrace.BatchSpanProcessorOption{sdktrace.WithMaxQueueSize(c.Queue), sdktrace.WithMaxExportBatchSize(c.Batch),
		sdktrace.WithBatchTimeout(c.Timeout), sdktrace.WithExportTimeout(c.ExportTimeout)}
	if c.Blocking {
		opts = append(opts, sdktrace.WithBlocking())
	}
	bsp := sdktrace.NewBatchSpanProcessor(exp, opts...)
	tp := sdktrace.NewTracerProvider(sdktrace.WithSampler(nameSampler{}), sdktrace.WithSpanProcessor(bsp))
	tr := tp.Tracer("c01")

	var mu sync.Mutex
	var spans []spanRec
	var calls []callRec
	var start, done sync.WaitGroup
	release := make(chan struct{})
	var producersLeft atomic.Int32
	producersLeft.Store(int32(c.Producers))

	// producers
	for p := 0; p < c.Producers; p++ {
		seed := r.U64()
		done.Add(1)
		go func(p int) {
			defer done.Done()
			defer producersLeft.Add(-1)
			pr := vf.NewRNG(seed)
			<-release
			local := make([]spanRec, 0, c.PerProducer)
			for i := 0; i < c.PerProducer; i++ {
				name := "s"
				switch pr.Intn(12) {
				case 0:
					name = "u"
				case 1:
					name = "r"
				}
				pctx := context.Background()
				if pr.Chance(1, 4) {
					// child of a remote parent whose flags byte carries more than the sampled bit
					// (W3C level-2 random-trace-id flag, vendor bits): the child inherits those bits
					var tid trace.TraceID
					var sid trace.SpanID
					copy(tid[:], pr.Bytes(16))
					copy(sid[:], pr.Bytes(8))
					tid[0] |= 1
					sid[0] |= 1
					fl := vf.Pick(pr, []trace.TraceFlags{0x00, 0x01, 0x02, 0x03, 0x81, 0xfe, 0xff})
					pctx = trace.ContextWithRemoteSpanContext(pctx, trace.NewSpanContext(trace.SpanContextConfig{TraceID: tid, SpanID: sid, TraceFlags: fl, Remote: true}))
				}
				_, sp := tr.Start(pctx, name)
				rec := spanRec{id: sp.SpanContext().SpanID(), producer: p, seq: i, sampled: sp.SpanContext().IsSampled()}
				rec.call = vf.Tick()
				sp.End()
				rec.ret = vf.Tick()
				local = append(local, rec)
				if pr.Chance(1, 16) {
					runtime.Gosched()
				}
			}
			mu.Lock()
			spans = append(spans, local...)
			mu.Unlock()
		}(p)
	}
	// flushers
	mkCtx := func(fr *vf.RNG) (context.Context, context.CancelFunc, string) {
		if deadlineFlush && fr.Chance(4, 5) {
			ctx, cancel := context.WithTimeout(context.Background(), time.Duration(2+fr.Intn(150))*time.Microsecond)
			return ctx, cancel, "short-deadline"
		}
		switch fr.Intn(5) {
		case 0:
			ctx, cancel := context.WithCancel(context.Background())
			cancel()
			return ctx, cancel, "cancelled"
		case 1:
			ctx, cancel := context.WithTimeout(context.Background(), time.Duration(50+fr.Intn(2000))*time.Microsecond)
			return ctx, cancel, "short-deadline"
		default:
			ctx, cancel := context.WithTimeout(context.Background(), 30*time.Second)
			return ctx, cancel, "live"
		}
	}
	for f := 0; f < c.Flushers; f++ {
		seed := r.U64()
		done.Add(1)
		go func() {
			defer done.Done()
			fr := vf.NewRNG(seed)
			<-release
			for producersLeft.Load() > 0 {
				if !deadlineFlush {
					time.Sleep(time.Duration(fr.Intn(800)) * time.Microsecond)
				}
				ctx, cancel, kind := mkCtx(fr)
				cr := callRec{kind: "flush", ctxKind: kind}
				cr.call = vf.Tick()
				if fr.Bool() {
					cr.err = tp.ForceFlush(ctx)
				} else {
					cr.err = bsp.ForceFlush(ctx)
				}
				cr.ret = vf.Tick()
				cancel()
				mu.Lock()
				calls = append(calls, cr)
				mu.Unlock()
			}
		}()
	}
	// shutdowners (mid-run)
	for s := 0; s < c.Shutdowners; s++ {
		seed := r.U64()
		done.Add(1)
		go func() {
			defer done.Done()
			sr := vf.NewRNG(seed)
			<-release
			time.Sleep(time.Duration(sr.Intn(3000)) * time.Microsecond)
			ctx, cancel, kind := mkCtx(sr)
			cr := callRec{kind: "shutdown", ctxKind: kind}
			cr.call = vf.Tick()
			// The processor's own Shutdown is driven here; TracerProvider.Shutdown adds its own
			// once-only / early-return layer, which belongs to C15.
			cr.err = bsp.Shutdown(ctx)
			cr.ret = vf.Tick()
			cancel()
			mu.Lock()
			calls = append(calls, cr)
			mu.Unlock()
		}()
	}
	// gate opener
	if c.ExpMode == 4 {
		d := time.Duration(200+r.Intn(3000)) * time.Microsecond
		done.Add(1)
		go func() {
			defer done.Done()
			<-release
			time.Sleep(d)
			exp.openGate()
		}()
	}
	_ = start
	finished, stuck, desc := vf.Watch(90*time.Second, 2*time.Second, func() {
		close(release)
		done.Wait()
	})
	if !finished {
		exp.openGate()
		if stuck {
			k.Violate("hang", "bsp", fmt.Sprintf("%s\n%s", c, desc), nil)
		} else {
			k.C.Inconclusive("history did not finish within the watchdog: " + c.String())
		}
		return
	}
	exp.openGate()

	// quiescence protocol
	midShutdown := c.Shutdowners > 0
	var finalDropped int64 = -1
	var sentinel trace.SpanID
	bg := context.Background()
	if !midShutdown {
		cr := callRec{kind: "flush", ctxKind: "live"}
		cr.call = vf.Tick()
		cr.err = bsp.ForceFlush(bg)
		cr.ret = vf.Tick()
		calls = append(calls, cr)
		_, sp := tr.Start(bg, "sentinel")
		sentinel = sp.SpanContext().SpanID()
		sr := spanRec{id: sentinel, producer: -1, sampled: true}
		sr.call = vf.Tick()
		sp.End()
		sr.ret = vf.Tick()
		spans = append(spans, sr)
		cr = callRec{kind: "flush", ctxKind: "live"}
		cr.call = vf.Tick()
		cr.err = bsp.ForceFlush(bg)
		cr.ret = vf.Tick()
		calls = append(calls, cr)
		if d, n := theSink.get(); n > 0 {
			finalDropped = d
		}
	}
	cr := callRec{kind: "shutdown", ctxKind: "live"}
	cr.call = vf.Tick()
	cr.err = bsp.Shutdown(bg)
	cr.ret = vf.Tick()
	calls = append(calls, cr)
	tp.Shutdown(bg)
	// A Shutdown call that gave up on its context leaves the shutdown running in the background and
	// every later Shutdown call returns nil at once (known finding): give it time to complete so the
	// remaining clauses can still be evaluated on this history.
	abandoned := false
	for _, cr := range calls {
		if cr.kind == "shutdown" && cr.err != nil {
			abandoned = true
		}
	}
	abandonedTicket := vf.Tick()
	if abandoned {
		for i := 0; i < 5000; i++ {
			exp.mu.Lock()
			n := len(exp.shutdowns)
			exp.mu.Unlock()
			if n > 0 {
				break
			}
			time.Sleep(time.Millisecond)
		}
		k.C.Count("histories_with_abandoned_shutdown", 1)
	}
	skey := func(key string) string {
		if abandoned {
			return key + " [after an earlier Shutdown call gave up on its context]"
		}
		return key
	}
	_ = abandonedTicket
	// a late End and a late flush after shutdown must stay quiet
	_, late := tr.Start(bg, "s")
	late.End()
	bsp.ForceFlush(bg)
	time.Sleep(time.Duration(r.Intn(300)) * time.Microsecond)
	endTicket := vf.Tick()

	// ------------------------------------------------------------------ oracle
	exp.mu.Lock()
	events := append([]exportEv(nil), exp.events...)
	expShutdowns := append([]uint64(nil), exp.shutdowns...)
	exp.mu.Unlock()
	sort.Slice(events, func(i, j int) bool { return events[i].enter < events[j].enter })
	fail := func(class, key, detail string) {
		var sb strings.Builder
		for _, cr := range calls {
			fmt.Fprintf(&sb, " %s(%s)[%d,%d]err=%v", cr.kind, cr.ctxKind, cr.call, cr.ret, cr.err)
		}
		sb.WriteString("\n exports:")
		for i, ev := range events {
			if i > 60 {
				fmt.Fprintf(&sb, " …(%d more)", len(events)-i)
				break
			}
			fmt.Fprintf(&sb, " [%d,%d]n=%d", ev.enter, ev.exit, len(ev.ids))
		}
		k.Violate(class, key, fmt.Sprintf("%s\n%s\n calls:%s", c, detail, sb.String()), nil)
	}
	byID := map[trace.SpanID]*spanRec{}
	sampledN := 0
	for i := range spans {
		byID[spans[i].id] = &spans[i]
		if spans[i].sampled {
			sampledN++
		}
	}
	exportedAt := map[trace.SpanID]uint64{}
	exportedN := 0
	for _, ev := range events {
		if c.Batch >= 1 && len(ev.ids) > c.Batch {
			fail("batch-too-large", "", fmt.Sprintf("batch of %d > %d", len(ev.ids), c.Batch))
		}
		if len(ev.ids) == 0 {
			fail("empty-export", "", "")
		}
		if ev.unsampled > 0 {
			fail("unsampled-exported", "", "")
		}
		if c.ExportTimeout > 0 && !ev.deadline {
			fail("export-without-deadline", "", "")
		}
		for _, id := range ev.ids {
			if _, dup := exportedAt[id]; dup {
				sr := byID[id]
				fail("span-exported-twice", "", fmt.Sprintf("span %s (%+v)", id, sr))
			}
			exportedAt[id] = ev.enter
			exportedN++
			sr, ok := byID[id]
			if !ok {
				if id != late.SpanContext().SpanID() {
					fail("unknown-span-exported", "", id.String())
				} else {
					fail("exported-after-shutdown", skey("late span"), "")
				}
				continue
			}
			if !sr.sampled {
				fail("unsampled-exported", "", "")
			}
		}
	}
	if n := atomic.LoadInt32(&exp.overlaps); n > 0 {
		fail("exporter-invoked-concurrently", "", fmt.Sprintf("%d overlapping exporter calls", n))
	}
	exp.mu.Lock()
	if len(exp.mutated) > 0 {
		fail("batch-changed-during-export", "", fmt.Sprintf("%d batches changed while the exporter was working on them; first: %s", len(exp.mutated), exp.mutated[0]))
	}
	exp.mu.Unlock()
	if len(expShutdowns) != 1 {
		fail("exporter-shutdown-count", skey(""), fmt.Sprint(len(expShutdowns)))
	}
	// shutdown calls
	var firstShutdownCall uint64 = ^uint64(0)
	for _, cr := range calls {
		if cr.kind == "shutdown" && cr.call < firstShutdownCall {
			firstShutdownCall = cr.call
		}
	}
	overflowPossible := !c.Blocking && (sampledN+len(calls) > c.Queue)
	missingOK := func() bool { return overflowPossible }
	for _, cr := range calls {
		if cr.err != nil {
			continue
		}
		switch cr.kind {
		case "shutdown":
			// quiet after a Shutdown that returned nil
			for _, ev := range events {
				if ev.enter > cr.ret {
					fail("exported-after-shutdown", skey(cr.ctxKind), fmt.Sprintf("Shutdown returned nil at ticket %d, ExportSpans entered at %d", cr.ret, ev.enter))
					break
				}
			}
			for _, t := range expShutdowns {
				if t > cr.ret {
					fail("exporter-shutdown-after-shutdown-returned", skey(cr.ctxKind), "")
				}
			}
		case "flush":
			if cr.ret > firstShutdownCall {
				continue // overlaps or follows a Shutdown: covered by the Shutdown's guarantee
			}
		}
		// visibility: spans whose End returned before the call must be exported before it returned
		missing := 0
		var example *spanRec
		for i := range spans {
			sr := &spans[i]
			if !sr.sampled || sr.ret >= cr.call {
				continue
			}
			if sr.ret > firstShutdownCall {
				continue // End had not returned before the first Shutdown was called: need not be accepted
			}
			at, ok := exportedAt[sr.id]
			if !ok || at > cr.ret {
				missing++
				example = sr
			}
		}
		if missing > 0 {
			if !missingOK() {
				key := cr.ctxKind
				if cr.kind == "shutdown" {
					key = skey(key)
				}
				fail("span-not-exported-by-"+cr.kind+"-return", key, fmt.Sprintf("%d spans ended before %s (call %d ret %d) not handed to the exporter by its return; e.g. %+v exportedAt=%d", missing, cr.kind, cr.call, cr.ret, *example, exportedAt[example.id]))
			} else if finalDropped >= 0 && int64(missing) > finalDropped {
				fail("span-not-exported-by-"+cr.kind+"-return", "more than dropped", fmt.Sprintf("%d missing > total_dropped %d", missing, finalDropped))
			}
		}
		k.C.Count("visibility_checks", 1)
	}
	// conservation at quiescence
	if !midShutdown {
		if finalDropped < 0 {
			k.C.Count("conservation_inconclusive_no_log_record", 1)
		} else {
			k.C.Count("conservation_checks", 1)
			if int64(sampledN) != int64(exportedN)+finalDropped {
				fail("conservation", map[bool]string{true: "blocking", false: "dropping"}[c.Blocking], fmt.Sprintf("ended sampled %d != exported %d + total_dropped %d", sampledN, exportedN, finalDropped))
			}
			if c.Blocking && finalDropped != 0 {
				fail("dropped-in-blocking-mode", "", fmt.Sprint(finalDropped))
			}
			if finalDropped > 0 {
				k.C.Count("histories_with_drops", 1)
				k.C.Count("spans_dropped", finalDropped)
			}
		}
	}
	_ = endTicket

	// evidence
	k.C.Count("histories", 1)
	k.C.Count("spans_ended_sampled", int64(sampledN))
	k.C.Count("spans_exported", int64(exportedN))
	k.C.Count("exports", int64(len(events)))
	flushOverlap, shutdownEndOverlap := false, false
	for _, ev := range events {
		if len(ev.ids) == c.Batch {
			k.C.Count("exports_full_batch", 1)
		}
		if ev.err {
			k.C.Count("exports_failed", 1)
		}
		for _, cr := range calls {
			if cr.kind == "flush" && cr.call < ev.exit && ev.enter < cr.ret {
				flushOverlap = true
			}
		}
	}
	for _, cr := range calls {
		if cr.kind != "shutdown" {
			continue
		}
		for i := range spans {
			if spans[i].call < cr.ret && cr.call < spans[i].ret {
				shutdownEndOverlap = true
				break
			}
		}
	}
	if flushOverlap {
		k.C.Count("histories_flush_overlaps_export", 1)
	}
	if shutdownEndOverlap {
		k.C.Count("histories_shutdown_overlaps_end", 1)
	}
	if midShutdown {
		k.C.Count("histories_mid_run_shutdown", 1)
	}
	k.C.Sig(fmt.Sprintf("q%d|b%d|%v|%v|%v|e%d|p%d|f%d|s%d|drops=%v|fo=%v|so=%v", c.Queue, c.Batch, c.Timeout, c.ExportTimeout, c.Blocking, c.ExpMode, c.Producers, c.Flushers, c.Shutdowners, finalDropped > 0, flushOverlap, shutdownEndOverlap))
	if k.C.NeedSample() {
		k.C.Sample(map[string]any{"config": c.String(), "spans_ended_sampled": sampledN, "exported": exportedN, "total_dropped": finalDropped, "exports": len(events), "calls": len(calls)})
	}
}

// runCapacity: "dropped only because the bounded queue was full". The worker is parked inside a gated export
// holding one span; exactly MaxQueueSize further spans are ended one after the other: they all fit, so after
// the gate opens and a flush returns, every one of them has been exported and nothing was counted as dropped.
// One span more than that is dropped, and counted.
type gateExp struct {
	mu      sync.Mutex
	entered chan struct{}
	gate    chan struct{}
	once    sync.Once
	ids     map[trace.SpanID]int
}

func (e *gateExp) ExportSpans(ctx context.Context, ss []sdktrace.ReadOnlySpan) error {
	e.once.Do(func() { close(e.entered) })
	<-e.gate
	e.mu.Lock()
	for _, s := range ss {
		e.ids[s.SpanContext().SpanID()]++
	}
	e.mu.Unlock()
	return nil
}
func (e *gateExp) Shutdown(context.Context) error { return nil }

func runCapacity(k *vf.Case) {
	r := k.R
	q := vf.Pick(r, []int{1, 2, 3, 4, 16, 64})
	extra := r.Intn(3) // spans beyond the capacity
	e := &gateExp{entered: make(chan struct{}), gate: make(chan struct{}), ids: map[trace.SpanID]int{}}
	bsp := sdktrace.NewBatchSpanProcessor(e, sdktrace.WithMaxQueueSize(q), sdktrace.WithMaxExportBatchSize(1), sdktrace.WithBatchTimeout(time.Hour), sdktrace.WithExportTimeout(0))
	tp := sdktrace.NewTracerProvider(sdktrace.WithSampler(sdktrace.AlwaysSample()), sdktrace.WithSpanProcessor(bsp))
	tr := tp.Tracer("cap")
	end := func() trace.SpanID {
		_, sp := tr.Start(context.Background(), "s")
		sp.End()
		return sp.SpanContext().SpanID()
	}
	first := end() // batch size 1: the worker exports it at once and parks in the gate
	select {
	case <-e.entered:
	case <-time.After(20 * time.Second):
		k.C.Inconclusive("the worker never reached the exporter")
		close(e.gate)
		return
	}
	var fit, over []trace.SpanID
	for i := 0; i < q; i++ {
		fit = append(fit, end())
	}
	for i := 0; i < extra; i++ {
		over = append(over, end())
	}
	close(e.gate)
	ctx, cancel := context.WithTimeout(context.Background(), 20*time.Second)
	defer cancel()
	if err := tp.ForceFlush(ctx); err != nil {
		k.C.Inconclusive("flush did not finish: " + err.Error())
		return
	}
	tp.Shutdown(ctx)
	e.mu.Lock()
	defer e.mu.Unlock()
	cfg := fmt.Sprintf("queue=%d batch=1 dropping mode, worker parked in a gated export; %d spans ended into the empty queue, then %d more", q, q, extra)
	if e.ids[first] != 1 {
		k.Violate("span-not-exported-by-flush-return", "capacity: first span", cfg, nil)
	}
	for i, id := range fit {
		if e.ids[id] != 1 {
			k.Violate("dropped-although-queue-not-full", "", fmt.Sprintf("%s\nspan %d of %d that fit into the queue was exported %d times", cfg, i+1, q, e.ids[id]), nil)
			break
		}
	}
	for _, id := range over {
		if e.ids[id] != 0 {
			k.Violate("exported-beyond-capacity", "", cfg, nil)
			break
		}
	}
	k.C.Count("capacity_cases", 1)
	k.C.Sig(fmt.Sprintf("capacity|%d|%d", q, extra))
}

// runListEdit: the span reaches the batch span processor through the provider's processor list; the list is
// edited while End is walking it (shared scenario, package spanlist).
func runListEdit(k *vf.Case) {
	desc, vs := spanlist.Run(k.R)
	for _, v := range vs {
		k.Violate("span-not-handed-over-exactly-once", "processor list edited during End", v, nil)
	}
	k.C.Count("list_edit_cases", 1)
	k.C.Sig("list-edit|" + desc)
}

func main() {
	vf.Main("C01", "exploration", func(c *vf.Ctx) {
		c.Rule = "seeded concurrent histories against the real BatchSpanProcessor: producers x spans, flushers (live/short-deadline/cancelled contexts), mid-run and concurrent Shutdown callers, configurations queue{0 (blocking only),1,2,3,8,64,2048} x batch{1,2,3,7,64,512} x timeout{1ms,5ms,1h} x exportTimeout{0,1ms,1s} x blocking, exporters instant/slow/erroring/ctx-blocking/gate-blocked, GOMAXPROCS{2,4,16}; one history at a time per child process so the SDK's total_dropped debug record is attributable; exporters re-read their batch before returning; list-edit family (processor list edited while End is parked in a gate processor); scripted export failures that wrap context.Canceled / DeadlineExceeded; deadline-flush family (tiny blocking queue kept full, flush contexts of 2-150 us). distinct = distinct (configuration, drops seen, flush||export overlap, shutdown||End overlap) signatures"
		c.Assume = []string{"ForceFlush calls overlapping or following a Shutdown are covered by the Shutdown's guarantee (by design they return nil early)", "quiet-after-Shutdown and visibility are asserted for calls that returned nil", "exact conservation uses the SDK's own total_dropped debug record; per-call visibility in dropping mode with possible overflow is a count inequality"}
		if c.IsChild() || os.Getenv("VF_REPLAY_ISOLATE") == "" {
			otel.SetLogger(logr.New(theSink))
			otel.SetErrorHandler(otel.ErrorHandlerFunc(func(error) {}))
		}
		n := c.N(4000, 40000)
		c.Isolated("histories", n, vf.IsoOpts{Batch: 50, Par: 16, Timeout: 10 * time.Minute}, runHistory)
		c.Isolated("deadline-flush", c.N(400, 4000), vf.IsoOpts{Batch: 20, Par: 16, Timeout: 10 * time.Minute}, runDeadlineFlush)
		c.Floor("deadline_flush_histories", 200)
		c.Isolated("list-edit", c.N(300, 4000), vf.IsoOpts{Batch: 50, Par: 16, Timeout: 10 * time.Minute}, runListEdit)
		c.Floor("list_edit_cases", 150)
		c.Isolated("capacity", c.N(240, 3000), vf.IsoOpts{Batch: 40, Par: 16, Timeout: 10 * time.Minute}, runCapacity)
		c.Floor("capacity_cases", 100)
		c.Floor("histories", int64(n*9/10))
		c.Floor("conservation_checks", 50)
		c.Floor("histories_with_drops", 10)
		c.Floor("histories_flush_overlaps_export", 10)
		c.Floor("histories_shutdown_overlaps_end", 10)
		c.Floor("visibility_checks", 200)
	})
}

var _ = strconv.Itoa
var _ = strings.Join
