package vf

import (
	"fmt"
	"math"
	"sort"
	"strconv"
	"strings"

	"go.opentelemetry.io/otel/attribute"
)

// Canon renders an attribute value as a type-tagged canonical string. Floats are rendered by bit
// pattern (so NaN payloads and signed zeros are distinguished; callers that must not decide those
// cases use FloatAmbiguity).
func Canon(v attribute.Value) string {
	switch v.Type() {
	case attribute.INVALID:
		return "INVALID"
	case attribute.BOOL:
		return "B:" + strconv.FormatBool(v.AsBool())
	case attribute.INT64:
		return "I:" + strconv.FormatInt(v.AsInt64(), 10)
	case attribute.FLOAT64:
		return "F:" + strconv.FormatUint(math.Float64bits(v.AsFloat64()), 16)
	case attribute.STRING:
		return "S:" + strconv.Quote(v.AsString())
	case attribute.BOOLSLICE:
		return fmt.Sprintf("BS:%v", v.AsBoolSlice())
	case attribute.INT64SLICE:
		return fmt.Sprintf("IS:%v", v.AsInt64Slice())
	case attribute.FLOAT64SLICE:
		var p []string
		for _, f := range v.AsFloat64Slice() {
			p = append(p, strconv.FormatUint(math.Float64bits(f), 16))
		}
		return "FS:[" + strings.Join(p, " ") + "]"
	case attribute.STRINGSLICE:
		var p []string
		for _, s := range v.AsStringSlice() {
			p = append(p, strconv.Quote(s))
		}
		return "SS:[" + strings.Join(p, " ") + "]"
	}
	return "?"
}

// SliceHasNaN reports whether v is a FLOAT64SLICE containing a NaN.
func SliceHasNaN(v attribute.Value) bool {
	if v.Type() != attribute.FLOAT64SLICE {
		return false
	}
	for _, f := range v.AsFloat64Slice() {
		if f != f {
			return true
		}
	}
	return false
}

// SliceHasZero reports whether v is a FLOAT64SLICE containing a (signed) zero.
func SliceHasZero(v attribute.Value) bool {
	if v.Type() != attribute.FLOAT64SLICE {
		return false
	}
	for _, f := range v.AsFloat64Slice() {
		if f == 0 {
			return true
		}
	}
	return false
}

// AttrValue draws a value over all eight types with hostile contents.
func (r *RNG) AttrValue() attribute.Value {
	switch r.Intn(9) {
	case 0:
		return attribute.BoolValue(r.Bool())
	case 1:
		return attribute.Int64Value(r.InterestingInt64())
	case 2:
		return attribute.Float64Value(r.InterestingFloat())
	case 3:
		switch r.Intn(4) {
		case 0:
			return attribute.StringValue("")
		case 1:
			return attribute.StringValue(r.HostileString(r.Intn(6)))
		default:
			return attribute.StringValue(r.UTF8String(r.Intn(8)))
		}
	case 4:
		n := r.sliceLen()
		s := make([]bool, n)
		for i := range s {
			s[i] = r.Bool()
		}
		return attribute.BoolSliceValue(s)
	case 5:
		n := r.sliceLen()
		s := make([]int64, n)
		for i := range s {
			s[i] = r.InterestingInt64()
		}
		return attribute.Int64SliceValue(s)
	case 6:
		n := r.sliceLen()
		s := make([]float64, n)
		for i := range s {
			if r.Chance(1, 3) {
				s[i] = r.InterestingFloat()
			} else {
				s[i] = float64(r.Range(-5, 5)) / 2
			}
		}
		return attribute.Float64SliceValue(s)
	case 7:
		n := r.sliceLen()
		s := make([]string, n)
		for i := range s {
			s[i] = r.UTF8String(r.Intn(4))
		}
		return attribute.StringSliceValue(s)
	default:
		if r.Bool() {
			n := r.sliceLen() % 6
			s := make([]int, n)
			for i := range s {
				s[i] = r.Range(-3, 3)
			}
			return attribute.IntSliceValue(s)
		}
		return attribute.IntValue(r.Range(-3, 3))
	}
}

func (r *RNG) sliceLen() int {
	switch r.Intn(12) {
	case 0:
		return 0
	case 1:
		return 1000
	default:
		return r.Intn(5)
	}
}

// SimpleAttrValue draws values without NaN / signed-zero / invalid UTF-8 corner cases (for checks
// where attribute identity is incidental).
func (r *RNG) SimpleAttrValue() attribute.Value {
	switch r.Intn(8) {
	case 0:
		return attribute.BoolValue(r.Bool())
	case 1:
		return attribute.Int64Value(int64(r.Range(-1000, 1000)))
	case 2:
		return attribute.Float64Value(float64(r.Range(-1000, 1000)) / 4)
	case 3:
		return attribute.StringValue(r.UTF8String(r.Intn(6)))
	case 4:
		return attribute.BoolSliceValue([]bool{r.Bool(), r.Bool()}[:r.Intn(3)])
	case 5:
		return attribute.Int64SliceValue([]int64{int64(r.Intn(9)), -int64(r.Intn(9)), 7}[:r.Intn(4)])
	case 6:
		return attribute.Float64SliceValue([]float64{float64(r.Intn(9)) / 2, 1.5, -2}[:r.Intn(4)])
	default:
		return attribute.StringSliceValue([]string{r.UTF8String(2), "", "x"}[:r.Intn(4)])
	}
}

// Model is the reference for an attribute set: key -> value with last-wins.
type AttrModel map[string]attribute.Value

func ModelOf(kvs []attribute.KeyValue) AttrModel {
	m := AttrModel{}
	for _, kv := range kvs {
		m[string(kv.Key)] = kv.Value
	}
	return m
}

func (m AttrModel) Keys() []string {
	ks := make([]string, 0, len(m))
	for k := range m {
		ks = append(ks, k)
	}
	sort.Strings(ks)
	return ks
}

// Canon renders the whole model canonically.
func (m AttrModel) Canon() string {
	var sb strings.Builder
	for _, k := range m.Keys() {
		sb.WriteString(strconv.Quote(k))
		sb.WriteByte('=')
		sb.WriteString(Canon(m[k]))
		sb.WriteByte(';')
	}
	return sb.String()
}

// CanonKVs renders a slice of key-values in order.
func CanonKVs(kvs []attribute.KeyValue) string {
	var sb strings.Builder
	for _, kv := range kvs {
		sb.WriteString(strconv.Quote(string(kv.Key)))
		sb.WriteByte('=')
		sb.WriteString(Canon(kv.Value))
		sb.WriteByte(';')
	}
	return sb.String()
}

// MultisetKVs renders a slice as a sorted multiset.
func MultisetKVs(kvs []attribute.KeyValue) string {
	p := make([]string, 0, len(kvs))
	for _, kv := range kvs {
		p = append(p, strconv.Quote(string(kv.Key))+"="+Canon(kv.Value))
	}
	sort.Strings(p)
	return strings.Join(p, ";")
}
