package vf

import (
	"math"
	"strings"
	"unicode/utf8"
)

// Shared hostile generators.

var interestingRunes = []rune{
	'a', 'z', 'A', '0', '9', ' ', '\t', ',', ';', '=', '%', '"', '\\', '/', '-', '_', '*', '@', '.', ':', '+',
	0x00, 0x7f, 0x80, 0xa0, 0xe9, 0x0161, 0x0130, 0x017f, 0x212a, // low-byte-alias runes: š→a, İ→0, ſ, K
	0x0430, 0x4e16, 0x754c, 0xfffd, 0xfeff, 0x2028, 0xd7ff, 0xe000, 0xffff, 0x10000, 0x1f600, 0x10ffff,
}

// UTF8String builds a valid UTF-8 string of n runes mixing ASCII, delimiters and multi-byte runes.
func (r *RNG) UTF8String(n int) string {
	var sb strings.Builder
	for i := 0; i < n; i++ {
		switch r.Intn(4) {
		case 0:
			sb.WriteByte(byte('a' + r.Intn(26)))
		case 1:
			sb.WriteRune(Pick(r, interestingRunes))
		case 2:
			sb.WriteByte(byte(0x20 + r.Intn(0x5f)))
		default:
			c := rune(r.Intn(0x11000))
			if c >= 0xd800 && c <= 0xdfff {
				c = 0xfffd
			}
			sb.WriteRune(c)
		}
	}
	return sb.String()
}

var invalidSeqs = []string{
	"\x80", "\xbf", "\xc0\xaf", "\xc3", "\xe2\x82", "\xf0\x9f\x98", "\xff", "\xfe", "\xed\xa0\x80", // surrogate
	"\xf4\x90\x80\x80", "\xc1\xbf", "\xe0\x80\x80", "\xf8\x88\x80\x80\x80",
}

// HostileString mixes valid runes, literal U+FFFD and invalid byte sequences.
func (r *RNG) HostileString(n int) string {
	var sb strings.Builder
	for i := 0; i < n; i++ {
		switch r.Intn(8) {
		case 0:
			sb.WriteString(Pick(r, invalidSeqs))
		case 1:
			sb.WriteRune(0xfffd)
		case 2:
			sb.WriteByte(byte(r.U64()))
		default:
			sb.WriteString(r.UTF8String(1))
		}
	}
	return sb.String()
}

// ASCIIFrom builds a string of n bytes from the alphabet.
func (r *RNG) ASCIIFrom(alpha string, n int) string {
	b := make([]byte, n)
	for i := range b {
		b[i] = alpha[r.Intn(len(alpha))]
	}
	return string(b)
}

// InterestingFloat returns floats covering NaN payloads, signed zeros, infinities, subnormals,
// powers of two, integers and random bit patterns.
func (r *RNG) InterestingFloat() float64 {
	switch r.Intn(12) {
	case 0:
		return math.NaN()
	case 1:
		return math.Float64frombits(0x7ff8000000000001 + uint64(r.Intn(1000)))
	case 2:
		return math.Copysign(0, -1)
	case 3:
		return 0
	case 4:
		return math.Inf(1 - 2*r.Intn(2))
	case 5:
		return math.Float64frombits(uint64(r.Intn(1 << 20))) // subnormal
	case 6:
		return math.Ldexp(1, r.Range(-1074, 1023))
	case 7:
		return float64(r.Range(-1000, 1000))
	case 8:
		return math.MaxFloat64
	case 9:
		return -math.SmallestNonzeroFloat64
	default:
		return math.Float64frombits(r.U64())
	}
}

func (r *RNG) InterestingInt64() int64 {
	switch r.Intn(8) {
	case 0:
		return math.MaxInt64
	case 1:
		return math.MinInt64
	case 2:
		return 0
	case 3:
		return -1
	case 4:
		return int64(r.Range(-100, 100))
	case 5:
		return 1 << uint(r.Intn(63))
	default:
		return int64(r.U64())
	}
}

// RuneCountValid reports the number of runes when s is valid UTF-8.
func RuneCountValid(s string) (int, bool) {
	if !utf8.ValidString(s) {
		return 0, false
	}
	return utf8.RuneCountInString(s), true
}

// Quote renders bytes unambiguously for keys/details.
func Quote(s string) string {
	if len(s) > 120 {
		return strings.ToValidUTF8(quote(s[:120]), "?") + "…(" + itoa(len(s)) + "B)"
	}
	return quote(s)
}

func quote(s string) string {
	var sb strings.Builder
	sb.WriteByte('"')
	for i := 0; i < len(s); i++ {
		c := s[i]
		switch {
		case c == '"' || c == '\\':
			sb.WriteByte('\\')
			sb.WriteByte(c)
		case c >= 0x20 && c < 0x7f:
			sb.WriteByte(c)
		default:
			const hexd = "0123456789abcdef"
			sb.WriteString("\\x")
			sb.WriteByte(hexd[c>>4])
			sb.WriteByte(hexd[c&15])
		}
	}
	sb.WriteByte('"')
	return sb.String()
}

func itoa(n int) string {
	if n == 0 {
		return "0"
	}
	neg := n < 0
	if neg {
		n = -n
	}
	var b [20]byte
	i := len(b)
	for n > 0 {
		i--
		b[i] = byte('0' + n%10)
		n /= 10
	}
	if neg {
		i--
		b[i] = '-'
	}
	return string(b[i:])
}
