package vf

import (
	"strings"
	"unicode/utf8"
)

// ValidRunes splits s into its valid runes (as substrings) and counts the invalid bytes.
// A literal U+FFFD (ef bf bd) is a valid rune.
func ValidRunes(s string) (runes []string, invalid int) {
	for i := 0; i < len(s); {
		r, size := utf8.DecodeRuneInString(s[i:])
		if r == utf8.RuneError && size == 1 {
			invalid++
			i++
			continue
		}
		runes = append(runes, s[i:i+size])
		i += size
	}
	return
}

// TruncOK is the independent truncation predicate: with limit<0 or len(orig)<=limit the value must
// be unchanged; otherwise it must be exactly the first min(N,limit) valid runes of orig with invalid
// bytes discarded (or orig itself when nothing needs cutting: valid runes + invalid bytes <= limit).
func TruncOK(limit int, orig, got string) (bool, string) {
	if limit < 0 || len(orig) <= limit {
		if got == orig {
			return true, ""
		}
		return false, "value within the limit was altered"
	}
	vr, inv := ValidRunes(orig)
	n := len(vr)
	if n > limit {
		n = limit
	}
	if got == strings.Join(vr[:n], "") {
		return true, ""
	}
	if got == orig && len(vr)+inv <= limit {
		return true, ""
	}
	gr, ginv := ValidRunes(got)
	switch {
	case len(gr)+ginv > limit:
		return false, "more characters than the limit"
	case ginv > 0:
		return false, "invalid bytes survive in a cut string"
	case len(gr) < n:
		return false, "cut shorter than the limit allows / valid characters lost"
	}
	return false, "not a prefix of the valid characters"
}
