// Package vf is the shared runtime-monitoring kit: seeded case lists, worker pool, child-process
// isolation, violation/known-finding bookkeeping, race-log scanning, evidence writing.
package vf

import (
	"bufio"
	"bytes"
	"crypto/sha256"
	"encoding/hex"
	"encoding/json"
	"fmt"
	"os"
	"os/exec"
	"path/filepath"
	"regexp"
	"runtime"
	"runtime/debug"
	"sort"
	"strconv"
	"strings"
	"sync"
	"sync/atomic"
	"syscall"
	"time"
)

// ---------------------------------------------------------------------------------------------
// PRNG: splitmix64. Every case gets its own stream derived from (seed, family, index), so the
// case list is a pure function of (seed, tier) and independent of scheduling.

type RNG struct{ s uint64 }

func NewRNG(seed uint64) *RNG { return &RNG{s: seed} }

func (r *RNG) U64() uint64 {
	r.s += 0x9e3779b97f4a7c15
	z := r.s
	z = (z ^ (z >> 30)) * 0xbf58476d1ce4e5b9
	z = (z ^ (z >> 27)) * 0x94d049bb133111eb
	return z ^ (z >> 31)
}

func (r *RNG) Intn(n int) int {
	if n <= 0 {
		return 0
	}
	return int(r.U64() % uint64(n))
}

// Range returns a value in [lo, hi].
func (r *RNG) Range(lo, hi int) int {
	if hi <= lo {
		return lo
	}
	return lo + r.Intn(hi-lo+1)
}
func (r *RNG) Bool() bool { return r.U64()&1 == 1 }

// Shuffle is a Fisher-Yates shuffle driven by the seeded stream.
func (r *RNG) Shuffle(n int, swap func(i, j int)) {
	for i := n - 1; i > 0; i-- {
		swap(i, r.Intn(i+1))
	}
}
func (r *RNG) Float64() float64 { return float64(r.U64()>>11) / (1 << 53) }

// Chance returns true with probability num/den.
func (r *RNG) Chance(num, den int) bool { return r.Intn(den) < num }

func (r *RNG) Bytes(n int) []byte {
	b := make([]byte, n)
	for i := range b {
		b[i] = byte(r.U64())
	}
	return b
}

func Pick[T any](r *RNG, xs []T) T { return xs[r.Intn(len(xs))] }

func Shuffle[T any](r *RNG, xs []T) {
	for i := len(xs) - 1; i > 0; i-- {
		j := r.Intn(i + 1)
		xs[i], xs[j] = xs[j], xs[i]
	}
}

func hashStr(s string) uint64 {
	h := uint64(1469598103934665603)
	for i := 0; i < len(s); i++ {
		h ^= uint64(s[i])
		h *= 1099511628211
	}
	return h
}

func caseSeed(seed int64, family string, idx int) uint64 {
	r := NewRNG(uint64(seed)*0x9e3779b97f4a7c15 ^ hashStr(family))
	r.U64()
	r.s ^= uint64(idx) * 0xd1342543de82ef95
	return r.U64()
}

// ---------------------------------------------------------------------------------------------
// Ticket clock (logical real-time order: a returned before b was called <=> a.ret < b.call).

var clock atomic.Uint64

func Tick() uint64 { return clock.Add(1) }

// ---------------------------------------------------------------------------------------------

type Violation struct {
	Property string `json:"property"`
	Class    string `json:"class"`
	Key      string `json:"key"`
	Family   string `json:"family"`
	Index    int    `json:"index"`
	Seed     int64  `json:"seed"`
	Tier     string `json:"tier"`
	Detail   string `json:"detail"`
	Witness  any    `json:"witness,omitempty"`
	Known    string `json:"known_finding,omitempty"`
	Replay   string `json:"-"`
}

type knownEntry struct {
	Property string `json:"property"`
	ID       string `json:"id"`
	Status   string `json:"status"` // "known" | "fixed"
	Class    string `json:"class"`
	KeyRegex string `json:"key_regex"`
	What     string `json:"what"`
	Commit   string `json:"commit,omitempty"`
	re       *regexp.Regexp
}

type Ctx struct {
	Prop     string
	Tier     string
	Seed     int64
	Level    string
	Rule     string
	Assume   []string
	VerifDir string

	mu         sync.Mutex
	counters   map[string]int64
	sigs       map[string]struct{}
	samples    []any
	maxSamples int
	viol       []Violation
	violSeen   map[string]int
	floors     []floor
	inconcl    []string
	evals      int64
	extra      map[string]any
	exhaustive bool
	start      time.Time
	known      []knownEntry

	// child mode
	childFamily string
	childLo     int
	childHi     int
	childOut    *os.File
	isChild     bool

	// replay mode
	replay     *Violation
	replayReps int
}

type floor struct {
	name string
	min  int64
}

// Case is what a case function receives.
type Case struct {
	C      *Ctx
	Family string
	Index  int
	R      *RNG
}

func envInt(name string, def int64) int64 {
	if v := os.Getenv(name); v != "" {
		if n, err := strconv.ParseInt(v, 10, 64); err == nil {
			return n
		}
	}
	return def
}

// outDir is where evidence and replay files go: the verification directory, or VERIF_OUT_DIR when
// the check is pointed at a scratch copy of the repository (so that committed evidence only ever
// describes runs against /repo itself).
func outDir(c *Ctx) string {
	if d := os.Getenv("VERIF_OUT_DIR"); d != "" {
		return d
	}
	return c.VerifDir
}

func verifDir() string {
	if d := os.Getenv("VERIF_DIR"); d != "" {
		return d
	}
	return "/verif"
}

// Main runs body as parent, child or replay according to args/env and exits with 0/1/2.
func Main(prop string, level string, body func(c *Ctx)) {
	c := &Ctx{
		Prop: prop, Level: level, Seed: envInt("VERIF_SEED", 1), Tier: os.Getenv("VERIF_TIER"),
		counters: map[string]int64{}, sigs: map[string]struct{}{}, violSeen: map[string]int{},
		extra: map[string]any{}, maxSamples: 6, start: time.Now(), VerifDir: verifDir(),
		Assume: []string{},
	}
	if c.Tier != "thorough" {
		c.Tier = "quick"
	}
	args := os.Args[1:]
	for i := 0; i < len(args); i++ {
		switch args[i] {
		case "quick", "thorough":
			c.Tier = args[i]
		case "--replay":
			if i+1 < len(args) {
				b, err := os.ReadFile(args[i+1])
				if err != nil {
					fmt.Println("cannot read replay file:", err)
					os.Exit(2)
				}
				var v Violation
				if err := json.Unmarshal(b, &v); err != nil {
					fmt.Println("bad replay file:", err)
					os.Exit(2)
				}
				c.replay = &v
				c.Seed, c.Tier = v.Seed, v.Tier
				c.replayReps = int(envInt("VERIF_REPLAY_REPS", 200))
				i++
			}
		}
	}
	if ch := os.Getenv("VF_CHILD"); ch != "" {
		// family|lo|hi|outfile
		p := strings.Split(ch, "|")
		c.isChild = true
		c.childFamily = p[0]
		c.childLo, _ = strconv.Atoi(p[1])
		c.childHi, _ = strconv.Atoi(p[2])
		f, err := os.OpenFile(p[3], os.O_CREATE|os.O_WRONLY|os.O_APPEND, 0o644)
		if err != nil {
			fmt.Fprintln(os.Stderr, "child: cannot open out file:", err)
			os.Exit(3)
		}
		c.childOut = f
		os.Unsetenv("VF_CHILD")
	}
	c.loadKnown()
	body(c)
	if c.isChild {
		c.childFlush()
		os.Exit(0)
	}
	c.finish()
}

func (c *Ctx) IsChild() bool  { return c.isChild }
func (c *Ctx) Thorough() bool { return c.Tier == "thorough" }

// N picks the case count for the tier.
func (c *Ctx) N(quick, thorough int) int {
	if c.Tier == "thorough" {
		return thorough
	}
	return quick
}

func (c *Ctx) Count(name string, n int64) {
	c.mu.Lock()
	c.counters[name] += n
	c.mu.Unlock()
}

func (c *Ctx) Max(name string, n int64) {
	c.mu.Lock()
	if n > c.counters[name] {
		c.counters[name] = n
	}
	c.mu.Unlock()
}

func (c *Ctx) Counter(name string) int64 {
	c.mu.Lock()
	defer c.mu.Unlock()
	return c.counters[name]
}

// Sig records an observation signature of a non-trivial case (distinct_nontrivial = #distinct).
func (c *Ctx) Sig(s string) {
	c.mu.Lock()
	if len(c.sigs) < 2_000_000 {
		c.sigs[s] = struct{}{}
	}
	c.mu.Unlock()
}

func (c *Ctx) Sample(s any) {
	c.mu.Lock()
	if len(c.samples) < c.maxSamples {
		c.samples = append(c.samples, s)
	}
	c.mu.Unlock()
}

func (c *Ctx) NeedSample() bool {
	c.mu.Lock()
	defer c.mu.Unlock()
	return len(c.samples) < c.maxSamples
}

func (c *Ctx) Extra(k string, v any) {
	c.mu.Lock()
	c.extra[k] = v
	c.mu.Unlock()
}

func (c *Ctx) Exhaustive(b bool) { c.exhaustive = b }

// Floor: at the end counter `name` must be >= min, otherwise the run is INCONCLUSIVE (exit 2).
func (c *Ctx) Floor(name string, min int64) {
	c.mu.Lock()
	c.floors = append(c.floors, floor{name, min})
	c.mu.Unlock()
}

func (c *Ctx) Inconclusive(reason string) {
	c.mu.Lock()
	c.inconcl = append(c.inconcl, reason)
	c.mu.Unlock()
}

// Violate records a violation. class is a short stable category; key identifies the failing
// input / call site / history shape (used for de-duplication and known-finding matching).
func (k *Case) Violate(class, key, detail string, witness any) {
	k.C.violate(Violation{Class: class, Key: key, Family: k.Family, Index: k.Index, Detail: detail, Witness: witness})
}

func (c *Ctx) ViolateGlobal(class, key, detail string, witness any) {
	c.violate(Violation{Class: class, Key: key, Family: "", Index: -1, Detail: detail, Witness: witness})
}

const maxPerBucket = 8

func (c *Ctx) violate(v Violation) {
	v.Property, v.Seed, v.Tier = c.Prop, c.Seed, c.Tier
	if len(v.Detail) > 4000 {
		v.Detail = v.Detail[:4000] + "…"
	}
	if len(v.Key) > 300 {
		v.Key = v.Key[:300]
	}
	id := c.matchKnown(v)
	bucket := v.Class + "|" + id
	c.mu.Lock()
	defer c.mu.Unlock()
	c.counters["violations_raw"]++
	c.violSeen[bucket]++
	if c.violSeen[bucket] > maxPerBucket {
		if id != "" {
			c.counters["known_extra:"+id]++
		} else {
			c.counters["suppressed_duplicates:"+v.Class]++
		}
		return
	}
	if c.isChild {
		b, _ := json.Marshal(map[string]any{"t": "viol", "v": v})
		c.childOut.Write(append(b, '\n'))
		return
	}
	c.viol = append(c.viol, v)
}

func (c *Ctx) matchKnown(v Violation) string {
	for _, k := range c.known {
		if k.Status != "known" || k.Property != c.Prop || !classIn(k.Class, v.Class) {
			continue
		}
		if k.re == nil || k.re.MatchString(v.Key) {
			return k.ID
		}
	}
	return ""
}

// classIn: the entry's class field may list several classes separated by '|'.
func classIn(list, class string) bool {
	for _, c := range strings.Split(list, "|") {
		if c == class {
			return true
		}
	}
	return false
}

func (c *Ctx) loadKnown() {
	b, err := os.ReadFile(filepath.Join(c.VerifDir, "known_findings.json"))
	if err != nil {
		return
	}
	var doc struct {
		Findings []knownEntry `json:"findings"`
	}
	if err := json.Unmarshal(b, &doc); err != nil {
		fmt.Fprintln(os.Stderr, "known_findings.json unreadable:", err)
		return
	}
	for _, k := range doc.Findings {
		if k.KeyRegex != "" {
			re, err := regexp.Compile(k.KeyRegex)
			if err != nil {
				fmt.Fprintln(os.Stderr, "known_findings.json: bad regex in", k.ID, err)
				continue
			}
			k.re = re
		}
		c.known = append(c.known, k)
	}
}

// ---------------------------------------------------------------------------------------------
// Case execution

func (c *Ctx) wantFamily(family string) bool {
	if c.replay != nil {
		return c.replay.Family == family
	}
	if c.isChild {
		return c.childFamily == family
	}
	return true
}

// Cases runs fn for indices [0,n) on `par` workers (0 = GOMAXPROCS). Panics inside fn on the worker
// goroutine are recorded as violations of class "panic".
func (c *Ctx) Cases(family string, n int, par int, fn func(k *Case)) {
	if !c.wantFamily(family) {
		return
	}
	lo, hi := 0, n
	if c.isChild {
		lo, hi = c.childLo, c.childHi
	}
	reps := 1
	if c.replay != nil {
		lo, hi = c.replay.Index, c.replay.Index+1
		reps = c.replayReps
		if c.replay.Index < 0 {
			lo, hi = 0, n
			reps = 1
		}
	}
	if par <= 0 {
		par = runtime.GOMAXPROCS(0)
	}
	if par > hi-lo {
		par = hi - lo
	}
	if par < 1 {
		par = 1
	}
	for rep := 0; rep < reps; rep++ {
		var next atomic.Int64
		next.Store(int64(lo))
		var wg sync.WaitGroup
		for w := 0; w < par; w++ {
			wg.Add(1)
			go func() {
				defer wg.Done()
				for {
					i := int(next.Add(1) - 1)
					if i >= hi {
						return
					}
					c.runCase(family, i, fn)
				}
			}()
		}
		wg.Wait()
		if c.replay != nil {
			c.mu.Lock()
			nv := len(c.viol)
			c.mu.Unlock()
			if nv > 0 {
				c.Extra("replay_reproduced_after_reps", rep+1)
				break
			}
		}
	}
}

func (c *Ctx) runCase(family string, i int, fn func(k *Case)) {
	k := &Case{C: c, Family: family, Index: i, R: NewRNG(caseSeed(c.Seed, family, i))}
	if c.isChild {
		fmt.Fprintf(c.childOut, "{\"t\":\"start\",\"i\":%d}\n", i)
	}
	defer func() {
		atomic.AddInt64(&c.evals, 1)
		if c.isChild {
			fmt.Fprintf(c.childOut, "{\"t\":\"done\",\"i\":%d}\n", i)
		}
	}()
	// The case runs in a goroutine of its own under a generous watchdog, so that code under test that
	// blocks forever (a lock never released, a lost wake-up) ends in a verdict instead of hanging the
	// check: two identical stack samples of goroutines parked in otel frames => violation "hang",
	// anything else => inconclusive. The goroutine is abandoned either way and the pool moves on.
	done := make(chan struct{})
	go func() {
		defer close(done)
		defer func() {
			if r := recover(); r != nil {
				st := string(debug.Stack())
				k.Violate("panic", panicKey(r, st), fmt.Sprintf("panic: %v\n%s", r, trimStack(st)), nil)
			}
		}()
		fn(k)
	}()
	t := time.NewTimer(caseWatchdog)
	defer t.Stop()
	select {
	case <-done:
		return
	case <-t.C:
	}
	a := BlockedOtel(AllStacks())
	select {
	case <-done:
		return
	case <-time.After(3 * time.Second):
	}
	full := AllStacks()
	b := BlockedOtel(full)
	select {
	case <-done:
		return
	default:
	}
	if len(a) > 0 && strings.Join(a, "\n") == strings.Join(b, "\n") {
		key := hexAddr.ReplaceAllString(a[0], "")
		if len(key) > 160 {
			key = key[:160]
		}
		k.Violate("hang", family+": "+key, fmt.Sprintf("case %s/%d did not finish within %v; goroutines parked in the library (identical in two samples 3 s apart):\n%s\n\n%s", family, i, caseWatchdog, strings.Join(b, "\n"), trimStackN(full, 12000)), nil)
	} else {
		c.Inconclusive(fmt.Sprintf("case %s/%d did not finish within %v and no stable set of goroutines parked in the library was found", family, i, caseWatchdog))
	}
}

// caseWatchdog bounds a single case (VERIF_CASE_WATCHDOG_S overrides the default of 300 s).
var caseWatchdog = time.Duration(envInt("VERIF_CASE_WATCHDOG_S", 300)) * time.Second

var hexAddr = regexp.MustCompile(`0x[0-9a-f]+,? ?`)

var otelFrame = regexp.MustCompile(`go\.opentelemetry\.io/otel[^\s(]*\.[A-Za-z0-9_.()*]+`)

func panicKey(r any, stack string) string {
	m := otelFrame.FindString(stack)
	msg := fmt.Sprint(r)
	if len(msg) > 80 {
		msg = msg[:80]
	}
	return m + ": " + msg
}

func trimStack(s string) string {
	if len(s) > 3000 {
		return s[:3000]
	}
	return s
}

// Guard runs f and converts a panic into a violation (for op-level recovery inside a case).
func (k *Case) Guard(class, key string, f func()) (ok bool) {
	defer func() {
		if r := recover(); r != nil {
			st := string(debug.Stack())
			k.Violate(class, key+" @ "+panicKey(r, st), fmt.Sprintf("panic: %v\n%s", r, trimStack(st)), nil)
			ok = false
		}
	}()
	f()
	return true
}

// ---------------------------------------------------------------------------------------------
// Isolated cases: each batch of cases runs in a child process (re-exec). Child death, timeouts and
// the child's own records are merged by the parent.

type IsoOpts struct {
	Batch   int                   // cases per child
	Par     int                   // children in parallel
	Timeout time.Duration         // per child watchdog (generous; expiry => SIGQUIT, dump kept)
	Env     func(lo int) []string // extra environment for the child handling [lo,hi)
	// OnDeath decides what a child death means. Default: violation class "process-death".
	// Return ("", "") to ignore.
	OnDeath func(lastStarted int, exit string, stderrTail string) (class, key string)
	// OnTimeout: default inconclusive. Return class=="" for inconclusive.
	OnTimeout func(lastStarted int, dump string) (class, key string)
}

func (c *Ctx) Isolated(family string, n int, o IsoOpts, fn func(k *Case)) {
	if !c.wantFamily(family) {
		return
	}
	if c.isChild || (c.replay != nil && os.Getenv("VF_REPLAY_ISOLATE") == "") {
		// in the child (or in replay mode): run in-process
		c.Cases(family, n, 1, fn)
		return
	}
	if o.Batch <= 0 {
		o.Batch = 1
	}
	if o.Par <= 0 {
		o.Par = runtime.NumCPU()
	}
	if o.Timeout <= 0 {
		o.Timeout = 120 * time.Second
	}
	workDir := filepath.Join(c.VerifDir, "work", c.Prop+"-"+strconv.Itoa(os.Getpid()))
	os.MkdirAll(workDir, 0o755)
	type batch struct{ lo, hi int }
	var batches []batch
	for lo := 0; lo < n; lo += o.Batch {
		hi := lo + o.Batch
		if hi > n {
			hi = n
		}
		batches = append(batches, batch{lo, hi})
	}
	var next atomic.Int64
	var wg sync.WaitGroup
	self, _ := os.Executable()
	for w := 0; w < o.Par && w < len(batches); w++ {
		wg.Add(1)
		go func() {
			defer wg.Done()
			for {
				bi := int(next.Add(1) - 1)
				if bi >= len(batches) {
					return
				}
				b := batches[bi]
				c.runChild(self, workDir, family, b.lo, b.hi, o)
			}
		}()
	}
	wg.Wait()
	if os.Getenv("VF_KEEP_WORK") == "" {
		os.RemoveAll(workDir)
	}
}

func (c *Ctx) runChild(self, workDir, family string, lo, hi int, o IsoOpts) {
	base := filepath.Join(workDir, fmt.Sprintf("%s-%d", sanitize(family), lo))
	outPath, errPath := base+".jsonl", base+".stderr"
	os.Remove(outPath)
	errF, _ := os.Create(errPath)
	cmd := exec.Command(self, c.Tier)
	cmd.Env = append(os.Environ(),
		fmt.Sprintf("VF_CHILD=%s|%d|%d|%s", family, lo, hi, outPath),
		fmt.Sprintf("VERIF_SEED=%d", c.Seed), "VERIF_TIER="+c.Tier)
	if gr := os.Getenv("GORACE"); gr != "" {
		// per-child race log
		// (atexit_sleep_ms: the detector otherwise sleeps a full second at every exit; a child exits after its cases
		// have joined all their goroutines, so nothing is left to report by then)
		cmd.Env = append(cmd.Env, "GORACE=halt_on_error=0 exitcode=0 atexit_sleep_ms=20 log_path="+base+".race")
	}
	if os.Getenv("VERIF_CASE_WATCHDOG_S") == "" {
		// the child's per-case watchdog (two stack samples, 3 s apart, decide between "hang" and inconclusive)
		// must fire well before this parent gives up on the whole child, or a case that blocks forever inside
		// the library ends as a killed child without a verdict
		w := (o.Timeout - 30*time.Second) / 2
		if w < 30*time.Second {
			w = 30 * time.Second
		}
		if w > 300*time.Second {
			w = 300 * time.Second
		}
		cmd.Env = append(cmd.Env, fmt.Sprintf("VERIF_CASE_WATCHDOG_S=%d", int(w/time.Second)))
	}
	if o.Env != nil {
		cmd.Env = append(cmd.Env, o.Env(lo)...)
	}
	cmd.Stdout = errF
	cmd.Stderr = errF
	cmd.SysProcAttr = &syscall.SysProcAttr{Setpgid: true}
	c.Count("children_spawned", 1)
	if err := cmd.Start(); err != nil {
		c.Inconclusive("cannot start child: " + err.Error())
		return
	}
	done := make(chan error, 1)
	go func() { done <- cmd.Wait() }()
	timedOut := false
	var werr error
	select {
	case werr = <-done:
	case <-time.After(o.Timeout):
		timedOut = true
		cmd.Process.Signal(syscall.SIGQUIT)
		select {
		case werr = <-done:
		case <-time.After(10 * time.Second):
			syscall.Kill(-cmd.Process.Pid, syscall.SIGKILL)
			werr = <-done
		}
	}
	errF.Close()
	last := c.mergeChild(outPath)
	stderrB, _ := os.ReadFile(errPath)
	tail := string(stderrB)
	if len(tail) > 6000 {
		tail = tail[:3000] + "\n…\n" + tail[len(tail)-3000:]
	}
	// race reports of this child
	c.scanRaceLogs(base+".race", family, lo)
	if timedOut {
		c.Count("children_timed_out", 1)
		class, key := "", ""
		if o.OnTimeout != nil {
			class, key = o.OnTimeout(last, string(stderrB))
		}
		if class == "" {
			c.Inconclusive(fmt.Sprintf("child %s[%d,%d) watchdog expired at case %d", family, lo, hi, last))
		} else {
			c.violate(Violation{Class: class, Key: key, Family: family, Index: last, Detail: tail})
		}
		return
	}
	if werr != nil {
		c.Count("children_died", 1)
		class, key := "process-death", deathKey(tail)
		if o.OnDeath != nil {
			class, key = o.OnDeath(last, werr.Error(), string(stderrB))
		}
		if class != "" {
			c.violate(Violation{Class: class, Key: key, Family: family, Index: last,
				Detail: "child exit: " + werr.Error() + "\n" + tail})
		}
		// continue the rest of the batch after the dead case
		if last >= lo && last+1 < hi {
			c.runChild(self, workDir, family, last+1, hi, o)
		}
	}
}

func deathKey(stderr string) string {
	first := ""
	for _, l := range strings.Split(stderr, "\n") {
		if strings.HasPrefix(l, "panic:") || strings.HasPrefix(l, "fatal error:") {
			first = l
			break
		}
	}
	if len(first) > 100 {
		first = first[:100]
	}
	fr := otelFrame.FindString(stderr)
	if i := strings.Index(fr, "(0x"); i >= 0 {
		fr = fr[:i]
	}
	return fr + ": " + first
}

func sanitize(s string) string {
	return strings.Map(func(r rune) rune {
		if r >= 'a' && r <= 'z' || r >= 'A' && r <= 'Z' || r >= '0' && r <= '9' || r == '-' || r == '_' {
			return r
		}
		return '_'
	}, s)
}

type childRec struct {
	T string          `json:"t"`
	I int             `json:"i"`
	V *Violation      `json:"v"`
	K string          `json:"k"`
	N int64           `json:"n"`
	S json.RawMessage `json:"s"`
}

func (c *Ctx) childFlush() {
	c.mu.Lock()
	defer c.mu.Unlock()
	w := bufio.NewWriter(c.childOut)
	for k, n := range c.counters {
		b, _ := json.Marshal(map[string]any{"t": "count", "k": k, "n": n})
		w.Write(append(b, '\n'))
	}
	for s := range c.sigs {
		b, _ := json.Marshal(map[string]any{"t": "sig", "k": s})
		w.Write(append(b, '\n'))
	}
	for _, s := range c.samples {
		b, _ := json.Marshal(map[string]any{"t": "sample", "s": s})
		w.Write(append(b, '\n'))
	}
	for _, s := range c.inconcl {
		b, _ := json.Marshal(map[string]any{"t": "inconcl", "k": s})
		w.Write(append(b, '\n'))
	}
	b, _ := json.Marshal(map[string]any{"t": "evals", "n": atomic.LoadInt64(&c.evals)})
	w.Write(append(b, '\n'))
	w.Flush()
	c.childOut.Close()
}

// ChildEmit lets a child stream a record early (before a risky operation).
func (c *Ctx) mergeChild(path string) (lastStarted int) {
	lastStarted = -1
	f, err := os.Open(path)
	if err != nil {
		return
	}
	defer f.Close()
	sc := bufio.NewScanner(f)
	sc.Buffer(make([]byte, 1<<20), 64<<20)
	gotEvals := false
	started := 0
	for sc.Scan() {
		var r childRec
		if json.Unmarshal(sc.Bytes(), &r) != nil {
			continue
		}
		switch r.T {
		case "start":
			lastStarted = r.I
			started++
		case "viol":
			if r.V != nil {
				c.violate(*r.V)
			}
		case "count":
			if strings.HasPrefix(r.K, "max:") {
				c.Max(r.K, r.N)
			} else {
				c.Count(r.K, r.N)
			}
		case "sig":
			c.Sig(r.K)
		case "sample":
			var v any
			json.Unmarshal(r.S, &v)
			c.Sample(v)
		case "inconcl":
			c.Inconclusive(r.K)
		case "evals":
			atomic.AddInt64(&c.evals, r.N)
			gotEvals = true
		}
	}
	if !gotEvals {
		atomic.AddInt64(&c.evals, int64(started))
	}
	return
}

// ---------------------------------------------------------------------------------------------
// Race logs

var raceLogDir string

func (c *Ctx) scanRaceLogs(prefix, family string, idx int) {
	matches, _ := filepath.Glob(prefix + ".*")
	for _, m := range matches {
		b, err := os.ReadFile(m)
		if err != nil {
			continue
		}
		blocks := strings.Split(string(b), "==================")
		for _, blk := range blocks {
			if !strings.Contains(blk, "WARNING: DATA RACE") {
				continue
			}
			c.Count("race_blocks", 1)
			key := raceKey(blk)
			if key == "? | ?" {
				// neither access stack contains an otel frame: a race inside the harness itself (seen only
				// in trials abandoned after a confirmed deadlock); never attributed to the library
				c.Count("race_blocks_without_otel_frames", 1)
				continue
			}
			c.violate(Violation{Class: "data-race", Key: key, Family: family, Index: idx, Detail: trimStack(blk)})
		}
		os.Remove(m)
	}
}

// raceKey: the first otel frame of each of the two access stacks, sorted.
func raceKey(blk string) string {
	parts := regexp.MustCompile(`(?m)^(Previous |)(Read|Write|read|write|Atomic|atomic)[^\n]* by [^\n]*:$`).Split(blk, -1)
	var fr []string
	for i, p := range parts {
		if i == 0 {
			continue
		}
		// cut at "Goroutine " section
		if j := strings.Index(p, "\nGoroutine "); j >= 0 {
			p = p[:j]
		}
		m := otelFrame.FindString(p)
		if m == "" {
			m = "?"
		}
		fr = append(fr, m)
		if len(fr) == 2 {
			break
		}
	}
	sort.Strings(fr)
	return strings.Join(fr, " | ")
}

// ---------------------------------------------------------------------------------------------
// Finish

func (c *Ctx) finish() {
	// own race log (parent process cases run in-process)
	if gr := os.Getenv("GORACE"); gr != "" {
		for _, f := range strings.Fields(gr) {
			if strings.HasPrefix(f, "log_path=") {
				c.scanRaceLogs(strings.TrimPrefix(f, "log_path="), "", -1)
			}
		}
	}
	wall := time.Since(c.start).Seconds()
	c.mu.Lock()
	defer c.mu.Unlock()

	// classify violations
	unknown := 0
	knownHits := map[string]int{}
	for k, n := range c.counters {
		if strings.HasPrefix(k, "known_extra:") {
			knownHits[strings.TrimPrefix(k, "known_extra:")] += int(n)
		}
	}
	os.MkdirAll(filepath.Join(outDir(c), "replays"), 0o755)
	var lines []string
	for i := range c.viol {
		v := &c.viol[i]
		if id := c.matchKnown(*v); id != "" {
			v.Known = id
			knownHits[id]++
			continue
		}
		unknown++
		h := sha256.Sum256([]byte(v.Class + "|" + v.Key + "|" + v.Family + "|" + strconv.Itoa(v.Index)))
		path := filepath.Join(outDir(c), "replays", c.Prop+"-"+hex.EncodeToString(h[:6])+".json")
		b, _ := json.MarshalIndent(v, "", " ")
		os.WriteFile(path, b, 0o644)
		v.Replay = path
		lines = append(lines, fmt.Sprintf("VIOLATION property=%s replay=%s class=%s key=%q", c.Prop, path, v.Class, v.Key))
		fmt.Printf("--- %s [%s] %s\n%s\n", c.Prop, v.Class, v.Key, v.Detail)
	}
	for _, k := range c.known {
		if k.Property == c.Prop && k.Status == "known" && knownHits[k.ID] > 0 {
			fmt.Printf("KNOWN-FINDING: property=%s id=%s hits=%d %s\n", c.Prop, k.ID, knownHits[k.ID], k.What)
		}
	}
	for _, l := range lines {
		fmt.Println(l)
	}

	// floors
	if c.replay == nil {
		for _, f := range c.floors {
			if c.counters[f.name] < f.min {
				c.inconcl = append(c.inconcl, fmt.Sprintf("floor %s: observed %d < %d", f.name, c.counters[f.name], f.min))
			}
		}
	}

	// evidence
	if c.replay == nil {
		cov := map[string]any{
			"evaluations":         atomic.LoadInt64(&c.evals),
			"distinct_nontrivial": len(c.sigs),
			"rule":                c.Rule,
			"samples":             c.samples,
		}
		if c.exhaustive {
			cov["exhaustive"] = true
		}
		obs := map[string]int64{}
		for k, n := range c.counters {
			obs[k] = n
		}
		cov["observed"] = obs
		fl := map[string]any{}
		for _, f := range c.floors {
			fl[f.name] = map[string]int64{"min": f.min, "observed": c.counters[f.name]}
		}
		cov["floors"] = fl
		for k, v := range c.extra {
			cov[k] = v
		}
		kf := map[string]int{}
		for k, n := range knownHits {
			kf[k] = n
		}
		cov["known_finding_hits"] = kf
		if len(c.inconcl) > 0 {
			cov["inconclusive"] = c.inconcl
		}
		if len(c.samples) == 0 {
			cov["samples"] = []any{"(no sample recorded)"}
		}
		ev := map[string]any{
			"property_id": c.Prop, "tier": c.Tier, "seed": c.Seed, "level": c.Level,
			"coverage": cov, "assumptions": c.Assume, "wall_s": wall, "violations": unknown,
		}
		b, _ := json.MarshalIndent(ev, "", " ")
		os.MkdirAll(filepath.Join(outDir(c), "evidence"), 0o755)
		os.WriteFile(filepath.Join(outDir(c), "evidence", c.Prop+".json"), b, 0o644)
	}

	var keys []string
	for k := range c.counters {
		keys = append(keys, k)
	}
	sort.Strings(keys)
	var sb bytes.Buffer
	for _, k := range keys {
		fmt.Fprintf(&sb, " %s=%d", k, c.counters[k])
	}
	fmt.Printf("%s %s seed=%d evaluations=%d distinct=%d wall=%.1fs%s\n", c.Prop, c.Tier, c.Seed,
		atomic.LoadInt64(&c.evals), len(c.sigs), wall, sb.String())
	if unknown > 0 {
		os.Exit(1)
	}
	if len(c.inconcl) > 0 {
		for _, r := range c.inconcl {
			fmt.Printf("INCONCLUSIVE property=%s reason=%s\n", c.Prop, r)
		}
		os.Exit(2)
	}
	fmt.Printf("HELD property=%s (on what was observed)\n", c.Prop)
	os.Exit(0)
}

// ---------------------------------------------------------------------------------------------
// Watchdog for bounded progress with deadlock confirmation.

var blockedRe = regexp.MustCompile(`(?s)goroutine \d+ \[(sync\.Mutex\.Lock|sync\.RWMutex\.R?Lock|semacquire|chan receive|chan send|select|sync\.Cond\.Wait|sync\.WaitGroup\.Wait)[^\]]*\]:\n(.*?)(\n\n|$)`)

// BlockedOtel returns a canonical description of goroutines parked inside otel frames.
func BlockedOtel(dump string) []string {
	var out []string
	for _, m := range blockedRe.FindAllStringSubmatch(dump, -1) {
		body := m[2]
		fr := otelFrame.FindAllString(body, 3)
		if len(fr) == 0 {
			continue
		}
		out = append(out, m[1]+" @ "+strings.Join(fr, " < "))
	}
	sort.Strings(out)
	return out
}

func AllStacks() string {
	buf := make([]byte, 1<<20)
	for {
		n := runtime.Stack(buf, true)
		if n < len(buf) {
			return string(buf[:n])
		}
		buf = make([]byte, 2*len(buf))
	}
}

// Watch runs f; if it does not finish within d, two stack samples `gap` apart are compared. It
// returns (finished, confirmedStuck, description).
func Watch(d, gap time.Duration, f func()) (finished bool, stuck bool, desc string) {
	done := make(chan struct{})
	var panicked any
	var panicStack string
	go func() {
		defer close(done)
		defer func() {
			if r := recover(); r != nil {
				panicked, panicStack = r, string(debug.Stack())
			}
		}()
		f()
	}()
	// a panic inside f is re-raised in the caller's goroutine, where the case-level recovery turns it into
	// a violation (an unrecovered panic in this helper goroutine would take the whole process down)
	defer func() {
		if finished && panicked != nil {
			panic(fmt.Sprintf("%v\n%s", panicked, trimStack(panicStack)))
		}
	}()
	select {
	case <-done:
		return true, false, ""
	case <-time.After(d):
	}
	a := BlockedOtel(AllStacks())
	select {
	case <-done:
		return true, false, ""
	case <-time.After(gap):
	}
	full := AllStacks()
	b := BlockedOtel(full)
	select {
	case <-done:
		return true, false, ""
	default:
	}
	if len(a) > 0 && strings.Join(a, "\n") == strings.Join(b, "\n") {
		return false, true, strings.Join(b, "\n") + "\n\n" + trimStackN(full, 12000)
	}
	return false, false, trimStackN(full, 12000)
}

func trimStackN(s string, n int) string {
	if len(s) > n {
		return s[:n]
	}
	return s
}

// JSON helper for witnesses
func J(v any) string {
	b, _ := json.Marshal(v)
	return string(b)
}
