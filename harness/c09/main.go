// C09 — sampling decisions are consistent and traces stay connected.
package main

import (
	"context"
	"encoding/binary"
	"errors"
	"fmt"
	"io"
	"math"
	"os"
	rtrace "runtime/trace"
	"strings"
	"sync"
	"time"

	"go.opentelemetry.io/otel/attribute"
	sdktrace "go.opentelemetry.io/otel/sdk/trace"
	"go.opentelemetry.io/otel/trace"

	"verifharness/spanlist"
	"verifharness/vf"
)

// ---------------------------------------------------------------------------------------------
// recording sampler / scripted sampler / recording exporter+processor

type samplerCall struct {
	p   sdktrace.SamplingParameters
	res sdktrace.SamplingResult
	tag string
}

type recordingSampler struct {
	inner sdktrace.Sampler
	mu    sync.Mutex
	calls []samplerCall
}

func (s *recordingSampler) ShouldSample(p sdktrace.SamplingParameters) sdktrace.SamplingResult {
	res := s.inner.ShouldSample(p)
	s.mu.Lock()
	s.calls = append(s.calls, samplerCall{p: p, res: res})
	s.mu.Unlock()
	return res
}
func (s *recordingSampler) Description() string { return "rec(" + s.inner.Description() + ")" }

// scripted sampler: decision is a function of (seed, trace id low byte, name) so it is deterministic
// but covers every decision; optionally replaces the tracestate.
type scripted struct {
	tag   string
	seed  uint64
	tsMod int // 0 keep parent's, 1 replace, 2 empty
	log   *[]string
	fixed int // -1 or a fixed decision
}

func (s scripted) ShouldSample(p sdktrace.SamplingParameters) sdktrace.SamplingResult {
	if s.log != nil {
		*s.log = append(*s.log, s.tag)
	}
	h := s.seed
	for _, c := range []byte(p.Name) {
		h = h*31 + uint64(c)
	}
	d := sdktrace.SamplingDecision(h % 3)
	if s.fixed >= 0 {
		d = sdktrace.SamplingDecision(s.fixed)
	}
	res := sdktrace.SamplingResult{Decision: d, Attributes: []attribute.KeyValue{attribute.String("sampler.tag", s.tag)}}
	switch s.tsMod {
	case 0:
		res.Tracestate = trace.SpanContextFromContext(p.ParentContext).TraceState()
	case 1:
		res.Tracestate, _ = trace.ParseTraceState("sampler=" + s.tag)
	}
	return res
}
func (s scripted) Description() string { return "scripted(" + s.tag + ")" }

type recExporter struct {
	mu    sync.Mutex
	spans map[trace.SpanID]int
	unsam int
}

func (e *recExporter) ExportSpans(_ context.Context, ss []sdktrace.ReadOnlySpan) error {
	e.mu.Lock()
	for _, s := range ss {
		e.spans[s.SpanContext().SpanID()]++
		if !s.SpanContext().IsSampled() {
			e.unsam++
		}
	}
	e.mu.Unlock()
	return nil
}
func (e *recExporter) Shutdown(context.Context) error { return nil }

// gatedFailingExporter records what it is handed, holds its first call until the gate opens and fails every call.
type gatedFailingExporter struct {
	recExporter
	gate chan struct{}
}

func (e *gatedFailingExporter) ExportSpans(ctx context.Context, ss []sdktrace.ReadOnlySpan) error {
	<-e.gate
	e.recExporter.ExportSpans(ctx, ss)
	return errors.New("collector unavailable")
}

type recProcessor struct {
	mu      sync.Mutex
	ended   map[trace.SpanID]int
	parents map[trace.SpanID]trace.SpanContext
}

func (p *recProcessor) OnStart(context.Context, sdktrace.ReadWriteSpan) {}
func (p *recProcessor) OnEnd(s sdktrace.ReadOnlySpan) {
	p.mu.Lock()
	p.ended[s.SpanContext().SpanID()]++
	if p.parents != nil {
		p.parents[s.SpanContext().SpanID()] = s.Parent()
	}
	p.mu.Unlock()
}
func (p *recProcessor) Shutdown(context.Context) error   { return nil }
func (p *recProcessor) ForceFlush(context.Context) error { return nil }

// process-wide id registries (uniqueness within the process, across providers)
var (
	idMu     sync.Mutex
	spanIDs  = map[trace.SpanID]struct{}{}
	rootTIDs = map[trace.TraceID]struct{}{}
)

func registerSpanID(id trace.SpanID) bool {
	idMu.Lock()
	defer idMu.Unlock()
	if _, dup := spanIDs[id]; dup {
		return false
	}
	spanIDs[id] = struct{}{}
	return true
}

func registerRoot(id trace.TraceID) bool {
	idMu.Lock()
	defer idMu.Unlock()
	if _, dup := rootTIDs[id]; dup {
		return false
	}
	rootTIDs[id] = struct{}{}
	return true
}

// ---------------------------------------------------------------------------------------------

func genTraceID(r *vf.RNG) trace.TraceID {
	var t trace.TraceID
	copy(t[:], r.Bytes(16))
	switch r.Intn(8) {
	case 0:
		copy(t[8:], []byte{0, 0, 0, 0, 0, 0, 0, 0})
	case 1:
		copy(t[8:], []byte{0x7f, 0xff, 0xff, 0xff, 0xff, 0xff, 0xff, 0xff})
	case 2:
		copy(t[8:], []byte{0x80, 0, 0, 0, 0, 0, 0, 0})
	case 3:
		copy(t[8:], []byte{0xff, 0xff, 0xff, 0xff, 0xff, 0xff, 0xff, 0xff})
	case 4:
		copy(t[8:], []byte{0, 0, 0, 0, 0, 0, 0, byte(r.Intn(4))})
	}
	if !t.IsValid() {
		t[0] = 1
	}
	return t
}

var ratios = []float64{-1, 0, math.Ldexp(1, -63), math.Ldexp(1, -62), 1e-9, 1e-3, 0.25, 0.5, 0.75, 1 - math.Ldexp(1, -53), 1, 2, math.Inf(1), math.Inf(-1)}

func genRatio(r *vf.RNG) float64 {
	if r.Bool() {
		return vf.Pick(r, ratios)
	}
	return r.Float64()
}

func parentCtx(r *vf.RNG, kind int) (context.Context, trace.SpanContext) {
	// kind: 0 none, 1 remote, 2 local(non-recording span context)
	if kind == 0 {
		return context.Background(), trace.SpanContext{}
	}
	var tid trace.TraceID
	var sid trace.SpanID
	copy(tid[:], r.Bytes(16))
	copy(sid[:], r.Bytes(8))
	tid[0] |= 1
	sid[0] |= 1
	cfg := trace.SpanContextConfig{TraceID: tid, SpanID: sid, TraceFlags: trace.TraceFlags(vf.Pick(r, []int{0, 1, 0, 1, 2, 3, 0x81, 0xfe, 0xff})), Remote: kind == 1}
	if r.Bool() {
		cfg.TraceState, _ = trace.ParseTraceState("p=" + r.ASCIIFrom("abc", 3) + ",q=1")
	}
	sc := trace.NewSpanContext(cfg)
	if kind == 1 {
		return trace.ContextWithRemoteSpanContext(context.Background(), sc), sc
	}
	return trace.ContextWithSpanContext(context.Background(), sc), sc
}

type node struct {
	span     trace.Span
	ctx      context.Context
	decision sdktrace.SamplingDecision
	depth    int
	sc       trace.SpanContext // as it was when the span was started
}

func main() {
	vf.Main("C09", "exploration", func(c *vf.Ctx) {
		c.Rule = "direct ratio-sampler calls on generated (trace id, r, r') with ids whose low 8 bytes are 0x00.., 0x7f.., 0x80.., 0xff.. and r in {-1,0,2^-63,1e-9,..,1-2^-53,1,2,Inf} or uniform; binomial share test on uniform ids; span trees (depth<=6, fan-out<=5) under sampler compositions (always/never/ratio/ParentBased with default or tagged scripted delegates/scripted sampler returning every decision with attributes and replaced tracestate) x parent classes {absent, remote, local} x flags {0,1,2,3,0x81,0xfe,0xff} x tracestate, WithNewRoot, with recording processor + simple + batch (blocking and not) processors in front of recording exporters; concurrent id generation across two providers; custom IDGenerator; the same trees under five OTEL_TRACES_SAMPLER values; snapshot Parent() vs start context; an eighth of the trees with a held, always-failing third batch exporter drained at Shutdown; list-edit family (processor list edited while End is parked in a gate processor); batch processor in front of a slow exporter that re-reads its batch, under concurrent ForceFlush. distinct = distinct (family, sampler composition, parent class, flags, decision, tree shape class) signatures"
		c.Assume = []string{"'the sampled share tracks r' is a 6-sigma binomial band on uniformly random trace ids", "NaN ratios are exercised for no-panic only"}

		// ---------------- ratio sampler, direct ----------------
		c.Cases("ratio", c.N(1_000_000, 8_000_000), 0, func(k *vf.Case) {
			r := k.R
			tid := genTraceID(r)
			r1, r2 := genRatio(r), genRatio(r)
			if r1 > r2 {
				r1, r2 = r2, r1
			}
			kindP := r.Intn(3)
			pctx, psc := parentCtx(r, kindP)
			s1, s2 := sdktrace.TraceIDRatioBased(r1), sdktrace.TraceIDRatioBased(r2)
			p := sdktrace.SamplingParameters{ParentContext: pctx, TraceID: tid, Name: "a", Kind: trace.SpanKindServer}
			d1 := s1.ShouldSample(p)
			d2 := s2.ShouldSample(p)
			// deterministic in the trace id only
			p2 := sdktrace.SamplingParameters{ParentContext: context.Background(), TraceID: tid, Name: "other", Kind: trace.SpanKindClient,
				Attributes: []attribute.KeyValue{attribute.Int("x", 1)}}
			if d := s1.ShouldSample(p2); d.Decision != d1.Decision {
				k.Violate("ratio-not-deterministic-in-trace-id", "", fmt.Sprintf("tid=%s r=%g: %v vs %v", tid, r1, d1.Decision, d.Decision), nil)
			}
			if d := sdktrace.TraceIDRatioBased(r1).ShouldSample(p); d.Decision != d1.Decision {
				k.Violate("ratio-not-deterministic-in-trace-id", "fresh sampler", "", nil)
			}
			for _, d := range []sdktrace.SamplingResult{d1, d2} {
				if d.Decision != sdktrace.Drop && d.Decision != sdktrace.RecordAndSample {
					k.Violate("ratio-decision-kind", "", fmt.Sprint(d.Decision), nil)
				}
				if d.Tracestate.String() != psc.TraceState().String() {
					k.Violate("ratio-tracestate", "", "", nil)
				}
			}
			if d1.Decision == sdktrace.RecordAndSample && d2.Decision != sdktrace.RecordAndSample {
				k.Violate("ratio-not-monotone", "", fmt.Sprintf("tid=%s sampled at %g but not at %g", tid, r1, r2), []any{tid.String(), r1, r2})
			}
			if r1 <= 0 && d1.Decision != sdktrace.Drop {
				k.Violate("ratio-zero-samples", "", fmt.Sprintf("tid=%s r=%g", tid, r1), nil)
			}
			if r2 >= 1 && d2.Decision != sdktrace.RecordAndSample {
				k.Violate("ratio-one-drops", "", fmt.Sprintf("tid=%s r=%g", tid, r2), nil)
			}
			k.C.Count("ratio_pairs", 1)
			if d1.Decision != d2.Decision {
				k.C.Count("ratio_pairs_straddling", 1)
			}
			k.C.Sig(fmt.Sprintf("ratio|%v|%v|%d|%x", d1.Decision, d2.Decision, kindP, tid[8]>>6))
			if k.Index < 2 {
				k.C.Sample(map[string]any{"family": "ratio", "trace_id": tid.String(), "r": r1, "r2": r2, "d": fmt.Sprint(d1.Decision), "d2": fmt.Sprint(d2.Decision)})
			}
			// NaN: no panic
			k.Guard("panic-ratio", "NaN", func() { sdktrace.TraceIDRatioBased(math.NaN()).ShouldSample(p) })
		})

		// ---------------- share tracks r ----------------
		shareRatios := []float64{1e-3, 0.01, 0.1, 0.25, 0.5, 0.9, 0.999}
		c.Cases("share", len(shareRatios)*c.N(2, 8), 0, func(k *vf.Case) {
			r := k.R
			ratio := shareRatios[k.Index%len(shareRatios)]
			n := 150_000
			s := sdktrace.TraceIDRatioBased(ratio)
			cnt := 0
			for i := 0; i < n; i++ {
				var tid trace.TraceID
				binary.BigEndian.PutUint64(tid[:8], r.U64())
				binary.BigEndian.PutUint64(tid[8:], r.U64())
				if s.ShouldSample(sdktrace.SamplingParameters{ParentContext: context.Background(), TraceID: tid}).Decision == sdktrace.RecordAndSample {
					cnt++
				}
			}
			sigma := math.Sqrt(float64(n) * ratio * (1 - ratio))
			if math.Abs(float64(cnt)-float64(n)*ratio) > 6*sigma+1 {
				k.Violate("ratio-share-off", fmt.Sprint(ratio), fmt.Sprintf("r=%g sampled %d of %d (expected %.0f +- %.0f)", ratio, cnt, n, float64(n)*ratio, 6*sigma), nil)
			}
			k.C.Count("share_ids", int64(n))
			k.C.Sig(fmt.Sprintf("share|%g", ratio))
		})

		// ---------------- span trees ----------------
		runTree := func(k *vf.Case) {
			r := k.R
			var delegLog []string
			comp := r.Intn(8)
			var inner sdktrace.Sampler
			compName := ""
			tagged := false
			switch comp {
			case 0:
				inner, compName = sdktrace.AlwaysSample(), "always"
			case 1:
				inner, compName = sdktrace.NeverSample(), "never"
			case 2:
				inner, compName = sdktrace.TraceIDRatioBased(0.5), "ratio"
			case 3:
				inner, compName = sdktrace.ParentBased(sdktrace.AlwaysSample()), "pb-default(always)"
			case 4:
				inner, compName = sdktrace.ParentBased(sdktrace.TraceIDRatioBased(0.5)), "pb-default(ratio)"
			case 5:
				inner, compName = sdktrace.ParentBased(sdktrace.NeverSample()), "pb-default(never)"
			case 6:
				tagged = true
				mk := func(tag string) sdktrace.Sampler {
					return scripted{tag: tag, seed: r.U64(), tsMod: r.Intn(3), log: &delegLog, fixed: -1}
				}
				inner = sdktrace.ParentBased(mk("root"), sdktrace.WithRemoteParentSampled(mk("rs")), sdktrace.WithRemoteParentNotSampled(mk("rn")),
					sdktrace.WithLocalParentSampled(mk("ls")), sdktrace.WithLocalParentNotSampled(mk("ln")))
				compName = "pb-tagged"
			default:
				inner, compName = scripted{tag: "top", seed: r.U64(), tsMod: r.Intn(3), fixed: -1}, "scripted"
			}
			if comp >= 3 && comp <= 5 && r.Chance(1, 3) {
				// the same sampler nested: the root of a default ParentBased is itself a ParentBased with unusual
				// delegates. The outer one has no options, so children still get their parent's decision; the
				// inner delegates only ever see roots (for which they defer to the same root sampler)
				root := []sdktrace.Sampler{sdktrace.AlwaysSample(), sdktrace.TraceIDRatioBased(0.5), sdktrace.NeverSample()}[comp-3]
				inner = sdktrace.ParentBased(sdktrace.ParentBased(root, sdktrace.WithLocalParentNotSampled(sdktrace.AlwaysSample()), sdktrace.WithRemoteParentNotSampled(sdktrace.AlwaysSample()),
					sdktrace.WithLocalParentSampled(sdktrace.NeverSample()), sdktrace.WithRemoteParentSampled(sdktrace.NeverSample())))
				compName += " nested"
			}
			rs := &recordingSampler{inner: inner}
			proc := &recProcessor{ended: map[trace.SpanID]int{}, parents: map[trace.SpanID]trace.SpanContext{}}
			e1 := &recExporter{spans: map[trace.SpanID]int{}}
			e2 := &recExporter{spans: map[trace.SpanID]int{}}
			bopts := []sdktrace.BatchSpanProcessorOption{sdktrace.WithMaxQueueSize(4096), sdktrace.WithMaxExportBatchSize(64)}
			blocking := r.Bool()
			if blocking {
				bopts = append(bopts, sdktrace.WithBlocking())
			}
			tpOpts := []sdktrace.TracerProviderOption{sdktrace.WithSampler(rs), sdktrace.WithSpanProcessor(proc),
				sdktrace.WithSyncer(e1), sdktrace.WithBatcher(e2, bopts...)}
			// sometimes a third exporter that is unavailable: its first call is held until the provider is being shut
			// down and every call fails, so most of its spans are still queued when Shutdown drains the processor.
			// A span handed to ExportSpans has reached the exporter whatever the call returns.
			var e3 *gatedFailingExporter
			if r.Chance(1, 8) {
				e3 = &gatedFailingExporter{recExporter: recExporter{spans: map[trace.SpanID]int{}}, gate: make(chan struct{})}
				tpOpts = append(tpOpts, sdktrace.WithBatcher(e3, sdktrace.WithMaxQueueSize(4096), sdktrace.WithMaxExportBatchSize(1+r.Intn(4)), sdktrace.WithBatchTimeout(time.Hour)))
			}
			tp := sdktrace.NewTracerProvider(tpOpts...)
			tr := tp.Tracer("c09")
			expParent := map[trace.SpanID]trace.SpanContext{}

			var nodes []*node
			// Uniqueness is asserted per provider here. (Across providers it is asserted in the
			// "concurrent-ids" family with a handful of providers: the default generator seeds
			// math/rand, whose seed space is 2^31, so among the tens of thousands of providers this
			// family creates two would share a seed — and an id sequence — with probability ~0.3;
			// that is an artefact of creating 40 000 providers in one process, not a defect.)
			caseSpanIDs := map[trace.SpanID]bool{}
			caseRoots := map[trace.TraceID]bool{}
			sampled := map[trace.SpanID]bool{}
			recording := map[trace.SpanID]bool{}
			total := 0
			var build func(parent *node, pctx context.Context, psc trace.SpanContext, depth int)
			build = func(parent *node, pctx context.Context, psc trace.SpanContext, depth int) {
				if total > 60 {
					return
				}
				total++
				name := r.ASCIIFrom("abcdefgh", 2)
				var opts []trace.SpanStartOption
				newRoot := depth > 0 && r.Chance(1, 12)
				if newRoot {
					opts = append(opts, trace.WithNewRoot())
				}
				kind := trace.SpanKind(r.Intn(6))
				opts = append(opts, trace.WithSpanKind(kind))
				nBefore := len(rs.calls)
				dBefore := len(delegLog)
				ctx, span := tr.Start(pctx, name, opts...)
				if len(rs.calls) != nBefore+1 {
					k.Violate("sampler-call-count", "", fmt.Sprintf("%d sampler calls for one Start", len(rs.calls)-nBefore), nil)
					return
				}
				call := rs.calls[nBefore]
				sc := span.SpanContext()
				effParent := psc
				if newRoot {
					effParent = trace.SpanContext{}
				}
				detail := func() string {
					return fmt.Sprintf("sampler=%s parent={valid=%v remote=%v flags=%02x ts=%q newRoot=%v} decision=%v span={%s %s flags=%02x ts=%q recording=%v}",
						compName, effParent.IsValid(), effParent.IsRemote(), byte(effParent.TraceFlags()), effParent.TraceState().String(), newRoot,
						call.res.Decision, sc.TraceID(), sc.SpanID(), byte(sc.TraceFlags()), sc.TraceState().String(), span.IsRecording())
				}
				if !sc.SpanID().IsValid() || !sc.TraceID().IsValid() {
					k.Violate("invalid-ids", "", detail(), nil)
				}
				if caseSpanIDs[sc.SpanID()] {
					k.Violate("span-id-not-unique", "", detail(), nil)
				}
				caseSpanIDs[sc.SpanID()] = true
				if effParent.IsValid() {
					if sc.TraceID() != effParent.TraceID() {
						k.Violate("child-trace-id-differs", "", detail(), nil)
					}
				} else {
					if caseRoots[sc.TraceID()] {
						k.Violate("root-trace-id-not-fresh", "", detail(), nil)
					}
					caseRoots[sc.TraceID()] = true
				}
				if call.p.TraceID != sc.TraceID() || call.p.Name != name || call.p.Kind != kind {
					k.Violate("sampler-params-mismatch", "", detail(), nil)
				}
				if got := trace.SpanContextFromContext(call.p.ParentContext); !got.Equal(effParent) {
					k.Violate("sampler-parent-mismatch", "", detail(), nil)
				}
				d := call.res.Decision
				if sc.IsSampled() != (d == sdktrace.RecordAndSample) {
					k.Violate("sampled-flag-vs-decision", "", detail(), nil)
				}
				if span.IsRecording() != (d != sdktrace.Drop) {
					k.Violate("recording-vs-decision", "", detail(), nil)
				}
				if sc.TraceState().String() != call.res.Tracestate.String() {
					k.Violate("tracestate-vs-sampler", "", detail(), nil)
				}
				if sc.IsRemote() {
					k.Violate("new-span-remote", "", detail(), nil)
				}
				// stock samplers keep the parent's tracestate
				if comp <= 5 && sc.TraceState().String() != effParent.TraceState().String() {
					k.Violate("parent-tracestate-lost", compName, detail(), nil)
				}
				// parent-based routing
				pclass := "none"
				if effParent.IsValid() {
					pclass = map[bool]string{true: "remote", false: "local"}[effParent.IsRemote()] + map[bool]string{true: "-sampled", false: "-unsampled"}[effParent.IsSampled()]
				}
				if comp >= 3 && comp <= 5 && effParent.IsValid() {
					want := sdktrace.Drop
					if effParent.IsSampled() {
						want = sdktrace.RecordAndSample
					}
					if d != want {
						k.Violate("parent-based-default-decision", pclass, detail(), nil)
					}
				}
				if tagged {
					wantTag := map[string]string{"none": "root", "remote-sampled": "rs", "remote-unsampled": "rn", "local-sampled": "ls", "local-unsampled": "ln"}[pclass]
					if len(delegLog) != dBefore+1 || delegLog[dBefore] != wantTag {
						k.Violate("parent-based-routing", pclass, fmt.Sprintf("delegates invoked %v, want [%s]; %s", delegLog[dBefore:], wantTag, detail()), nil)
					}
				}
				switch comp {
				case 0:
					if d != sdktrace.RecordAndSample {
						k.Violate("always-sampler-decision", "", detail(), nil)
					}
				case 1:
					if d != sdktrace.Drop {
						k.Violate("never-sampler-decision", "", detail(), nil)
					}
				}
				if d == sdktrace.RecordAndSample {
					sampled[sc.SpanID()] = true
				}
				if d != sdktrace.Drop {
					recording[sc.SpanID()] = true
				}
				n := &node{span: span, ctx: ctx, decision: d, depth: depth, sc: sc}
				expParent[sc.SpanID()] = effParent
				nodes = append(nodes, n)
				k.C.Count("spans", 1)
				k.C.Count(fmt.Sprintf("decision_%d", d), 1)
				k.C.Count("parent_"+pclass, 1)
				k.C.Sig(fmt.Sprintf("tree|%s|%s|%02x|%d|%v", compName, pclass, byte(effParent.TraceFlags()), d, newRoot))
				if depth < 6 {
					for i := r.Intn(4); i > 0; i-- {
						if r.Chance(2, 3) {
							build(n, ctx, sc, depth+1)
						}
					}
				}
			}
			for roots := 1 + r.Intn(3); roots > 0; roots-- {
				pk := r.Intn(3)
				pctx, psc := parentCtx(r, pk)
				build(nil, pctx, psc, 0)
			}
			// end in random order
			vf.Shuffle(r, nodes)
			for _, n := range nodes {
				n.span.End()
			}
			// late children: spans started from the context of a parent that has already ended, after other
			// spans were started in between. They still belong to that parent's trace, and an ended span
			// keeps the identity it had.
			if first := len(nodes); first > 0 && r.Chance(1, 2) {
				for i := 0; i < 3; i++ {
					n := nodes[r.Intn(first)]
					build(nil, context.Background(), trace.SpanContext{}, 7) // an unrelated root in between
					if !n.span.SpanContext().Equal(n.sc) {
						k.Violate("ended-span-context-changed", "", fmt.Sprintf("was {%s %s}, now {%s %s}", n.sc.TraceID(), n.sc.SpanID(), n.span.SpanContext().TraceID(), n.span.SpanContext().SpanID()), nil)
						break
					}
					build(n, n.ctx, n.sc, 7)
					k.C.Count("late_children_of_ended_parents", 1)
				}
				for _, n := range nodes[first:] {
					n.span.End()
				}
			}
			if e3 == nil {
				tp.ForceFlush(context.Background())
				tp.Shutdown(context.Background())
			} else {
				done := make(chan struct{})
				go func() { tp.Shutdown(context.Background()); close(done) }()
				time.Sleep(time.Duration(r.Intn(3)) * time.Millisecond) // shapes the schedule only: Shutdown usually gets to stop the worker first
				close(e3.gate)
				<-done
				k.C.Count("trees_with_failing_batch_exporter", 1)
			}
			// the snapshot names the parent the span was started under (none for a root, also one made with WithNewRoot)
			for id, want := range expParent {
				if got, ok := proc.parents[id]; ok && !got.Equal(want) {
					k.Violate("snapshot-parent-wrong", "", fmt.Sprintf("span %s: Parent()={valid=%v %s %s remote=%v}, started under {valid=%v %s %s remote=%v}", id, got.IsValid(), got.TraceID(), got.SpanID(), got.IsRemote(), want.IsValid(), want.TraceID(), want.SpanID(), want.IsRemote()), nil)
					break
				}
			}
			check := func(name string, got map[trace.SpanID]int, want map[trace.SpanID]bool) {
				for id, n := range got {
					if !want[id] {
						k.Violate("span-reached-"+name+"-unexpectedly", compName+map[bool]string{true: " blocking", false: ""}[blocking && name == "batch-exporter"], fmt.Sprintf("span %s", id), nil)
					}
					if n != 1 {
						k.Violate("span-reached-"+name+"-twice", "", fmt.Sprintf("span %s x%d", id, n), nil)
					}
				}
				for id := range want {
					if got[id] == 0 {
						k.Violate("span-missing-at-"+name, compName, fmt.Sprintf("span %s", id), nil)
					}
				}
			}
			check("processor", proc.ended, recording)
			check("simple-exporter", e1.spans, sampled)
			check("batch-exporter", e2.spans, sampled)
			if e3 != nil {
				check("failing-batch-exporter", e3.spans, sampled)
			}
			if k.Index < 2 {
				k.C.Sample(map[string]any{"family": "trees", "sampler": compName, "spans": len(nodes), "sampled": len(sampled), "recording": len(recording)})
			}
		}
		c.Cases("trees", c.N(40_000, 400_000), 0, runTree)
		// the same trees while the Go execution tracer runs: every recording span then owns a runtime/trace
		// task and End takes its other path (it releases the span lock to end the task)
		if err := rtrace.Start(io.Discard); err == nil {
			c.Cases("trees-traced", c.N(10_000, 100_000), 0, func(k *vf.Case) { runTree(k); k.C.Count("trees_under_runtime_trace", 1) })
			rtrace.Stop()
		} else {
			c.Inconclusive("runtime/trace could not be started: " + err.Error())
		}
		c.Floor("trees_under_runtime_trace", 1000)
		// the same trees while the environment names a sampler: the sampler passed as an option is the one consulted
		for _, ev := range [][2]string{{"always_off", ""}, {"always_on", ""}, {"traceidratio", "0.3"}, {"parentbased_always_off", ""}, {"parentbased_traceidratio", "0.7"}} {
			os.Setenv("OTEL_TRACES_SAMPLER", ev[0])
			os.Setenv("OTEL_TRACES_SAMPLER_ARG", ev[1])
			c.Cases("trees-env-"+ev[0], c.N(1_500, 15_000), 0, func(k *vf.Case) { runTree(k); k.C.Count("trees_with_sampler_named_in_environment", 1) })
			os.Unsetenv("OTEL_TRACES_SAMPLER")
			os.Unsetenv("OTEL_TRACES_SAMPLER_ARG")
		}
		c.Floor("trees_with_sampler_named_in_environment", 5000)
		c.Floor("trees_with_failing_batch_exporter", 1000)

		// ---------------- processor list edited while End walks it ----------------
		c.Cases("list-edit", c.N(300, 4000), 0, func(k *vf.Case) {
			desc, vs := spanlist.Run(k.R)
			for _, v := range vs {
				k.Violate("sampled-span-not-exported-exactly-once", "processor list edited during End", v, nil)
			}
			k.C.Count("list_edit_cases", 1)
			k.C.Sig("list-edit|" + desc)
		})

		// ---------------- custom id generator ----------------
		c.Cases("idgen", c.N(3_000, 30_000), 0, func(k *vf.Case) {
			r := k.R
			g := &scriptGen{r: vf.NewRNG(r.U64())}
			tp := sdktrace.NewTracerProvider(sdktrace.WithIDGenerator(g), sdktrace.WithSampler(sdktrace.AlwaysSample()))
			tr := tp.Tracer("g")
			ctx, root := tr.Start(context.Background(), "root")
			if root.SpanContext().TraceID() != g.lastT || root.SpanContext().SpanID() != g.lastS {
				k.Violate("custom-ids-not-used", "root", "", nil)
			}
			_, child := tr.Start(ctx, "child")
			if child.SpanContext().TraceID() != root.SpanContext().TraceID() || child.SpanContext().SpanID() != g.lastS || g.lastForTrace != root.SpanContext().TraceID() {
				k.Violate("custom-ids-not-used", "child", "", nil)
			}
			k.C.Sig("idgen")
		})

		// ---------------- concurrent id generation across providers ----------------
		c.Cases("concurrent-ids", c.N(40, 100), 4, func(k *vf.Case) {
			// every span is sampled (the default sampler on roots) and goes through a simple (synchronous)
			// span processor in front of a counting exporter: it reaches the exporter exactly once although
			// many goroutines end spans at the same time
			exps := []*countingExp{{ids: map[trace.SpanID]int{}}, {ids: map[trace.SpanID]int{}}}
			tps := []*sdktrace.TracerProvider{sdktrace.NewTracerProvider(sdktrace.WithSyncer(exps[0])), sdktrace.NewTracerProvider(sdktrace.WithSyncer(exps[1]))}
			nPer := k.C.N(400, 2000)
			var wg sync.WaitGroup
			var dups, bad int64
			var mu sync.Mutex
			for g := 0; g < 16; g++ {
				wg.Add(1)
				go func(g int) {
					defer wg.Done()
					tr := tps[g%2].Tracer("x")
					for i := 0; i < nPer; i++ {
						ctx, s := tr.Start(context.Background(), "r")
						_, ch := tr.Start(ctx, "c")
						for _, sp := range []trace.Span{s, ch} {
							if !registerSpanID(sp.SpanContext().SpanID()) {
								mu.Lock()
								dups++
								mu.Unlock()
							}
						}
						if !registerRoot(s.SpanContext().TraceID()) || ch.SpanContext().TraceID() != s.SpanContext().TraceID() {
							mu.Lock()
							bad++
							mu.Unlock()
						}
						ch.End()
						s.End()
					}
				}(g)
			}
			wg.Wait()
			exported, twice := 0, 0
			for _, e := range exps {
				e.mu.Lock()
				for _, n := range e.ids {
					exported++
					if n > 1 {
						twice++
					}
				}
				e.mu.Unlock()
			}
			if exported != 16*nPer*2 || twice > 0 {
				k.Violate("span-missing-at-simple-exporter", "concurrent ends", fmt.Sprintf("%d of %d sampled spans reached the exporter behind the simple span processor (%d of them more than once)", exported, 16*nPer*2, twice), nil)
			}
			// the same through a batch span processor whose exporter is slow and reads its batch again before
			// it returns (as a marshalling exporter does), while spans keep ending and ForceFlush is called
			bexp := &slowReadingExp{ids: map[trace.SpanID]int{}}
			btp := sdktrace.NewTracerProvider(sdktrace.WithBatcher(bexp, sdktrace.WithMaxExportBatchSize(16), sdktrace.WithBatchTimeout(time.Millisecond), sdktrace.WithBlocking()))
			var bwg sync.WaitGroup
			stopFlush := make(chan struct{})
			var flushed sync.WaitGroup
			flushed.Add(1)
			go func() {
				defer flushed.Done()
				for {
					select {
					case <-stopFlush:
						return
					default:
						_ = btp.ForceFlush(context.Background())
					}
				}
			}()
			nB := nPer / 4
			for g := 0; g < 8; g++ {
				bwg.Add(1)
				go func() {
					defer bwg.Done()
					tr := btp.Tracer("b")
					for i := 0; i < nB; i++ {
						_, s := tr.Start(context.Background(), "b")
						s.End()
					}
				}()
			}
			bwg.Wait()
			close(stopFlush)
			flushed.Wait()
			_ = btp.Shutdown(context.Background())
			bexp.mu.Lock()
			bTwice, bChanged := 0, bexp.changed
			for _, n := range bexp.ids {
				if n > 1 {
					bTwice++
				}
			}
			bGot := len(bexp.ids)
			bexp.mu.Unlock()
			if bGot != 8*nB || bTwice > 0 || bChanged > 0 {
				k.Violate("span-missing-at-batch-exporter", "concurrent ends and flushes", fmt.Sprintf("%d of %d sampled spans reached the exporter behind the batch span processor (%d more than once; %d batches changed while the exporter was reading them)", bGot, 8*nB, bTwice, bChanged), nil)
			}
			k.C.Count("concurrent_batch_spans", int64(8*nB))
			if dups > 0 {
				k.Violate("span-id-not-unique", "concurrent / across providers", fmt.Sprintf("%d duplicate span ids", dups), nil)
			}
			if bad > 0 {
				k.Violate("root-trace-id-not-fresh", "concurrent / across providers", fmt.Sprintf("%d", bad), nil)
			}
			k.C.Count("concurrent_spans", int64(16*nPer*2))
			k.C.Sig("concurrent")
		})

		c.Extra("distinct_span_ids_seen", len(spanIDs))
		c.Floor("ratio_pairs_straddling", 1000)
		c.Floor("spans", 50_000)
		for _, p := range []string{"none", "remote-sampled", "remote-unsampled", "local-sampled", "local-unsampled"} {
			c.Floor("parent_"+p, 500)
		}
		c.Floor("decision_0", 1000)
		c.Floor("decision_1", 1000)
		c.Floor("decision_2", 1000)
	})
}

type countingExp struct {
	mu  sync.Mutex
	ids map[trace.SpanID]int
}

func (e *countingExp) ExportSpans(_ context.Context, ss []sdktrace.ReadOnlySpan) error {
	e.mu.Lock()
	for _, s := range ss {
		e.ids[s.SpanContext().SpanID()]++
	}
	e.mu.Unlock()
	return nil
}
func (e *countingExp) Shutdown(context.Context) error { return nil }

// slowReadingExp counts what it is handed, dawdles, and reads the batch a second time before returning.
type slowReadingExp struct {
	mu      sync.Mutex
	ids     map[trace.SpanID]int
	changed int
}

func (e *slowReadingExp) ExportSpans(_ context.Context, ss []sdktrace.ReadOnlySpan) error {
	first := make([]trace.SpanID, len(ss))
	for i, s := range ss {
		first[i] = s.SpanContext().SpanID()
	}
	time.Sleep(300 * time.Microsecond)
	diff := false
	for i, s := range ss {
		if s == nil || s.SpanContext().SpanID() != first[i] {
			diff = true
		}
	}
	e.mu.Lock()
	for _, id := range first {
		e.ids[id]++
	}
	if diff {
		e.changed++
	}
	e.mu.Unlock()
	return nil
}
func (e *slowReadingExp) Shutdown(context.Context) error { return nil }

type scriptGen struct {
	mu           sync.Mutex
	r            *vf.RNG
	lastT        trace.TraceID
	lastS        trace.SpanID
	lastForTrace trace.TraceID
}

func (g *scriptGen) NewIDs(context.Context) (trace.TraceID, trace.SpanID) {
	g.mu.Lock()
	defer g.mu.Unlock()
	copy(g.lastT[:], g.r.Bytes(16))
	copy(g.lastS[:], g.r.Bytes(8))
	g.lastT[0] |= 1
	g.lastS[0] |= 1
	return g.lastT, g.lastS
}

func (g *scriptGen) NewSpanID(_ context.Context, t trace.TraceID) trace.SpanID {
	g.mu.Lock()
	defer g.mu.Unlock()
	copy(g.lastS[:], g.r.Bytes(8))
	g.lastS[0] |= 1
	g.lastForTrace = t
	return g.lastS
}

var _ = strings.Join
