// C08 — delta and cumulative views of the same measurements agree across collections.
package main

import (
	"context"
	"errors"
	"fmt"
	"runtime"
	"sort"
	"strings"
	"sync"
	"sync/atomic"
	"time"

	"github.com/go-logr/logr"
	"go.opentelemetry.io/otel"
	"go.opentelemetry.io/otel/attribute"
	"go.opentelemetry.io/otel/metric"
	"go.opentelemetry.io/otel/sdk/instrumentation"
	sdkmetric "go.opentelemetry.io/otel/sdk/metric"
	"go.opentelemetry.io/otel/sdk/metric/metricdata"

	"verifharness/vf"
)

// normalised data point
type pt struct {
	kind    string // "sum" "gauge" "hist" "expo"
	val     float64
	count   uint64
	sum     float64
	buckets []uint64
	scale   int32
	zero    uint64
	pos     map[int64]uint64
	neg     map[int64]uint64
	start   time.Time
	t       time.Time
}

func setKey(s attribute.Set) int {
	v, ok := s.Value("sid")
	if !ok {
		return -1
	}
	return int(v.AsInt64())
}

func expoMap(b metricdata.ExponentialBucket) map[int64]uint64 {
	m := map[int64]uint64{}
	for i, c := range b.Counts {
		if c != 0 {
			m[int64(b.Offset)+int64(i)] = c
		}
	}
	return m
}

// read normalises one collection: instrument name -> set id -> point. dup reports duplicates.
func read(rm *metricdata.ResourceMetrics) (map[string]map[int]pt, []string) {
	out := map[string]map[int]pt{}
	var probs []string
	put := func(name string, set attribute.Set, p pt) {
		if out[name] == nil {
			out[name] = map[int]pt{}
		}
		id := setKey(set)
		if _, dup := out[name][id]; dup {
			probs = append(probs, fmt.Sprintf("%s: attribute set %d reported twice", name, id))
		}
		out[name][id] = p
	}
	for _, sm := range rm.ScopeMetrics {
		for _, m := range sm.Metrics {
			switch d := m.Data.(type) {
			case metricdata.Sum[int64]:
				for _, p := range d.DataPoints {
					put(m.Name, p.Attributes, pt{kind: "sum", val: float64(p.Value), start: p.StartTime, t: p.Time})
				}
			case metricdata.Sum[float64]:
				for _, p := range d.DataPoints {
					put(m.Name, p.Attributes, pt{kind: "sum", val: p.Value, start: p.StartTime, t: p.Time})
				}
			case metricdata.Gauge[int64]:
				for _, p := range d.DataPoints {
					put(m.Name, p.Attributes, pt{kind: "gauge", val: float64(p.Value), start: p.StartTime, t: p.Time})
				}
			case metricdata.Gauge[float64]:
				for _, p := range d.DataPoints {
					put(m.Name, p.Attributes, pt{kind: "gauge", val: p.Value, start: p.StartTime, t: p.Time})
				}
			case metricdata.Histogram[int64]:
				for _, p := range d.DataPoints {
					put(m.Name, p.Attributes, pt{kind: "hist", count: p.Count, sum: float64(p.Sum), buckets: append([]uint64(nil), p.BucketCounts...), start: p.StartTime, t: p.Time})
				}
			case metricdata.Histogram[float64]:
				for _, p := range d.DataPoints {
					put(m.Name, p.Attributes, pt{kind: "hist", count: p.Count, sum: p.Sum, buckets: append([]uint64(nil), p.BucketCounts...), start: p.StartTime, t: p.Time})
				}
			case metricdata.ExponentialHistogram[int64]:
				for _, p := range d.DataPoints {
					put(m.Name, p.Attributes, pt{kind: "expo", count: p.Count, sum: float64(p.Sum), scale: p.Scale, zero: p.ZeroCount, pos: expoMap(p.PositiveBucket), neg: expoMap(p.NegativeBucket), start: p.StartTime, t: p.Time})
				}
			case metricdata.ExponentialHistogram[float64]:
				for _, p := range d.DataPoints {
					put(m.Name, p.Attributes, pt{kind: "expo", count: p.Count, sum: p.Sum, scale: p.Scale, zero: p.ZeroCount, pos: expoMap(p.PositiveBucket), neg: expoMap(p.NegativeBucket), start: p.StartTime, t: p.Time})
				}
			default:
				probs = append(probs, fmt.Sprintf("%s: unexpected data %T", m.Name, m.Data))
			}
		}
	}
	return out, probs
}

type syncInst struct {
	name string
	kind string // counter updown hist expo gauge
	rec  func(v int64, o metric.MeasurementOption)
}

type asyncInst struct {
	name  string
	kind  string // ocounter oupdown ogauge
	float bool
	oi    metric.Int64Observable
	of    metric.Float64Observable
}

type obs struct {
	inst int
	sid  int
	v    int64
}

func rescale(m map[int64]uint64, delta int32) map[int64]uint64 {
	out := map[int64]uint64{}
	for i, c := range m {
		out[i>>uint(delta)] += c
	}
	return out
}

func eqMap(a, b map[int64]uint64) bool {
	if len(a) != len(b) {
		return false
	}
	for k, v := range a {
		if b[k] != v {
			return false
		}
	}
	return true
}

var bounds = []float64{0, 5, 10, 25, 50, 75, 100, 250, 500, 750, 1000, 2500, 5000, 7500, 10000}

func runHistory(k *vf.Case) {
	r := k.R
	ctx := context.Background()
	dr := sdkmetric.NewManualReader(sdkmetric.WithTemporalitySelector(func(sdkmetric.InstrumentKind) metricdata.Temporality { return metricdata.DeltaTemporality }))
	cr := sdkmetric.NewManualReader()
	expoView := sdkmetric.NewView(sdkmetric.Instrument{Name: "*expo*"}, sdkmetric.Stream{Aggregation: sdkmetric.AggregationBase2ExponentialHistogram{MaxSize: vf.Pick(r, []int32{4, 20, 160}), MaxScale: vf.Pick(r, []int32{0, 5, 20})}})
	viewBounds := vf.Pick(r, [][]float64{bounds, {10, 100, 1000}, {50}, {}})
	boundsOf := func(inst string) []float64 {
		if strings.HasPrefix(inst, "c_as_hist") {
			return viewBounds
		}
		return bounds
	}
	cntHistView := sdkmetric.NewView(sdkmetric.Instrument{Name: "c_as_hist*"}, sdkmetric.Stream{Aggregation: sdkmetric.AggregationExplicitBucketHistogram{Boundaries: viewBounds}}) // bucket layouts of different lengths next to the default one: the readers' ResourceMetrics are reused and output slots shift as instruments get their first measurement
	mp := sdkmetric.NewMeterProvider(sdkmetric.WithReader(dr), sdkmetric.WithReader(cr), sdkmetric.WithView(expoView, cntHistView))
	m := mp.Meter("c08")

	var syncs []syncInst
	{
		// the re-aggregated counter is created before or after the plain histograms: with reused
		// ResourceMetrics its data point slot then follows or precedes theirs
		var ch metric.Int64Counter
		chEarly := r.Bool()
		if chEarly {
			ch, _ = m.Int64Counter("c_as_hist_i")
		}
		ci, _ := m.Int64Counter("ci")
		cf, _ := m.Float64Counter("cf")
		ui, _ := m.Int64UpDownCounter("ui")
		uf, _ := m.Float64UpDownCounter("uf")
		hi, _ := m.Int64Histogram("hi")
		hf, _ := m.Float64Histogram("hf")
		ei, _ := m.Int64Histogram("hi_expo")
		ef, _ := m.Float64Histogram("hf_expo")
		gi, _ := m.Int64Gauge("gi")
		gf, _ := m.Float64Gauge("gf")
		if !chEarly {
			ch, _ = m.Int64Counter("c_as_hist_i")
		}
		syncs = []syncInst{
			{"ci", "counter", func(v int64, o metric.MeasurementOption) { ci.Add(ctx, v, o.(metric.AddOption)) }},
			{"cf", "counter", func(v int64, o metric.MeasurementOption) { cf.Add(ctx, float64(v), o.(metric.AddOption)) }},
			{"ui", "updown", func(v int64, o metric.MeasurementOption) { ui.Add(ctx, v, o.(metric.AddOption)) }},
			{"uf", "updown", func(v int64, o metric.MeasurementOption) { uf.Add(ctx, float64(v), o.(metric.AddOption)) }},
			{"hi", "hist", func(v int64, o metric.MeasurementOption) { hi.Record(ctx, v, o.(metric.RecordOption)) }},
			{"hf", "hist", func(v int64, o metric.MeasurementOption) { hf.Record(ctx, float64(v), o.(metric.RecordOption)) }},
			{"hi_expo", "expo", func(v int64, o metric.MeasurementOption) { ei.Record(ctx, v, o.(metric.RecordOption)) }},
			{"hf_expo", "expo", func(v int64, o metric.MeasurementOption) { ef.Record(ctx, float64(v), o.(metric.RecordOption)) }},
			{"gi", "gauge", func(v int64, o metric.MeasurementOption) { gi.Record(ctx, v, o.(metric.RecordOption)) }},
			{"gf", "gauge", func(v int64, o metric.MeasurementOption) { gf.Record(ctx, float64(v), o.(metric.RecordOption)) }},
			{"c_as_hist_i", "hist", func(v int64, o metric.MeasurementOption) { ch.Add(ctx, v, o.(metric.AddOption)) }},
		}
	}
	// async instruments; script[cb] = observations of the current cycle for callback cb
	script := map[int][]obs{}
	var asyncs []asyncInst
	invocations := map[int]int{}
	var stranger asyncInst
	replay := func(cb int, o metric.Observer, io metric.Int64Observer, fo metric.Float64Observer) {
		invocations[cb]++
		for _, ob := range script[cb] {
			a := stranger
			if ob.inst >= 0 {
				a = asyncs[ob.inst]
			}
			at := metric.WithAttributeSet(attribute.NewSet(attribute.Int("sid", ob.sid)))
			switch {
			case o != nil && a.float:
				o.ObserveFloat64(a.of, float64(ob.v), at)
			case o != nil:
				o.ObserveInt64(a.oi, ob.v, at)
			case io != nil:
				io.Observe(ob.v, at)
			case fo != nil:
				fo.Observe(float64(ob.v), at)
			}
		}
	}
	// instrument-level callbacks have ids 100+index
	mkI := func(name, kind string) {
		idx := len(asyncs)
		cb := metric.WithInt64Callback(func(_ context.Context, o metric.Int64Observer) error { replay(100+idx, nil, o, nil); return nil })
		var oi metric.Int64Observable
		switch kind {
		case "ocounter":
			oi, _ = m.Int64ObservableCounter(name, cb)
		case "oupdown":
			oi, _ = m.Int64ObservableUpDownCounter(name, cb)
		default:
			oi, _ = m.Int64ObservableGauge(name, cb)
		}
		asyncs = append(asyncs, asyncInst{name: name, kind: kind, oi: oi})
	}
	mkF := func(name, kind string) {
		idx := len(asyncs)
		cb := metric.WithFloat64Callback(func(_ context.Context, o metric.Float64Observer) error { replay(100+idx, nil, nil, o); return nil })
		var of metric.Float64Observable
		switch kind {
		case "ocounter":
			of, _ = m.Float64ObservableCounter(name, cb)
		case "oupdown":
			of, _ = m.Float64ObservableUpDownCounter(name, cb)
		default:
			of, _ = m.Float64ObservableGauge(name, cb)
		}
		asyncs = append(asyncs, asyncInst{name: name, kind: kind, float: true, of: of})
	}
	mkI("oci", "ocounter")
	mkF("ocf", "ocounter")
	mkI("oui", "oupdown")
	mkF("ouf", "oupdown")
	mkI("ogi", "ogauge")
	mkF("ogf", "ogauge")
	{
		si, _ := m.Int64ObservableCounter("stranger")
		stranger = asyncInst{name: "stranger", kind: "ocounter", oi: si}
	}
	// multi-instrument callbacks: id -> (registration, instruments)
	type multi struct {
		reg   metric.Registration
		insts map[int]bool
	}
	multis := map[int]*multi{}
	nextMulti := 0
	registerMulti := func() {
		id := nextMulti
		nextMulti++
		insts := map[int]bool{}
		var list []metric.Observable
		for i, a := range asyncs {
			if r.Chance(1, 2) {
				insts[i] = true
				if a.float {
					list = append(list, a.of)
				} else {
					list = append(list, a.oi)
				}
			}
		}
		if len(list) == 0 {
			insts[0] = true
			list = append(list, asyncs[0].oi)
		}
		reg, err := m.RegisterCallback(func(_ context.Context, o metric.Observer) error { replay(id, o, nil, nil); return nil }, list...)
		if err != nil {
			k.Violate("register-callback-error", "", err.Error(), nil)
			return
		}
		multis[id] = &multi{reg, insts}
	}
	for i := r.Intn(3); i > 0; i-- {
		registerMulti()
	}

	nSets := 2 + r.Intn(8)
	valueProfile := r.Intn(4)
	cycles := 5 + r.Intn(56)
	if k.C.Tier == "quick" && cycles > 30 {
		cycles = 5 + r.Intn(26)
	}
	// model state
	type agg struct {
		sum     float64
		count   uint64
		buckets []uint64
		last    float64
		touched bool
	}
	cum := map[string]map[int]*agg{} // running totals of recorded values (sync)
	deltaRunning := map[string]map[int]*pt{}
	prevAsync := map[string]map[int]float64{} // async sums: value observed in the preceding cycle
	cumStart := map[string]time.Time{}
	lastDeltaTime := map[string]time.Time{}
	lastDeltaCycle := map[string]int{}
	fail := func(class, key, detail string) { k.Violate(class, key, detail, nil) }
	var drm, crm metricdata.ResourceMetrics
	vanished, reappeared := 0, 0
	dormantUntil := map[string]int{}
	for _, si := range syncs {
		if r.Chance(1, 4) {
			dormantUntil[si.name] = 1 + r.Intn(3)
		}
	}
	for cyc := 0; cyc < cycles; cyc++ {
		// ---- (un)register multi callbacks
		if r.Chance(1, 5) && len(multis) > 0 {
			for id, mu := range multis {
				if err := mu.reg.Unregister(); err != nil {
					fail("unregister-error", "", err.Error())
				}
				delete(multis, id)
				k.C.Count("callbacks_unregistered", 1)
				break
			}
		}
		if r.Chance(1, 5) {
			registerMulti()
			k.C.Count("callbacks_registered", 1)
		}
		// ---- sync measurements of this cycle
		cycleSync := map[string]map[int]*agg{}
		active := map[int]bool{}
		for s := 0; s < nSets; s++ {
			if r.Chance(1, 2) {
				active[s] = true
			}
		}
		for _, si := range syncs {
			if cyc < dormantUntil[si.name] {
				continue // gets its first measurement in a later cycle: output slots shift when it appears
			}
			for s := range active {
				if r.Chance(1, 3) {
					continue
				}
				for n := 1 + r.Intn(4); n > 0; n-- {
					v := int64(1 + r.Intn(2000))
					switch valueProfile {
					case 1: // tiny values first (index -1 and its neighbours), far larger ones later: long rescales
						if cyc < 2 {
							v = int64(1 + r.Intn(3))
						} else {
							v = int64(1000 + r.Intn(1_000_000))
						}
					case 2:
						v = vf.Pick(r, []int64{1, 1, 2, 3, 5, 1000, 65536, 2000, 1 << 40})
					}
					if valueProfile == 3 && (si.kind == "hist" || si.kind == "expo") {
						// the sign of what a set receives changes from cycle to cycle (and zeros come up): one
						// side of an exponential histogram is empty in some collections and not in others
						switch (cyc + s) % 3 {
						case 0:
							v = -v
						case 1:
							if r.Chance(1, 4) {
								v = 0
							}
						}
					}
					if si.kind == "updown" && r.Bool() {
						v = -v
					}
					if si.kind == "gauge" && r.Bool() {
						v = -v
					}
					si.rec(v, metric.WithAttributeSet(attribute.NewSet(attribute.Int("sid", s))))
					for _, mm := range []map[string]map[int]*agg{cum, cycleSync} {
						if mm[si.name] == nil {
							mm[si.name] = map[int]*agg{}
						}
						a := mm[si.name][s]
						if a == nil {
							a = &agg{buckets: make([]uint64, len(boundsOf(si.name))+1)}
							mm[si.name][s] = a
						}
						a.sum += float64(v)
						a.count++
						a.last = float64(v)
						a.touched = true
						bi := sort.SearchFloat64s(boundsOf(si.name), float64(v))
						a.buckets[bi]++
					}
				}
			}
		}
		// ---- async script of this cycle
		for cb := range script {
			delete(script, cb)
		}
		cycleAsync := map[string]map[int][]int64{} // observations that must be honoured: name -> sid -> values in order per callback
		asyncCb := map[string]map[int]map[int]bool{}
		addObs := func(cb int, inst int, sid int, v int64, honoured bool) {
			script[cb] = append(script[cb], obs{inst, sid, v})
			if !honoured {
				return
			}
			name := asyncs[inst].name
			if cycleAsync[name] == nil {
				cycleAsync[name] = map[int][]int64{}
				asyncCb[name] = map[int]map[int]bool{}
			}
			cycleAsync[name][sid] = append(cycleAsync[name][sid], v)
			if asyncCb[name][sid] == nil {
				asyncCb[name][sid] = map[int]bool{}
			}
			asyncCb[name][sid][cb] = true
		}
		for i, a := range asyncs {
			// instrument-level callback
			for s := 0; s < nSets; s++ {
				if r.Chance(1, 3) {
					v := int64(r.Intn(1000))
					if a.kind != "ocounter" && r.Bool() {
						v = -v
					}
					addObs(100+i, i, s, v, true)
					if r.Chance(1, 8) { // duplicate observation of one set in one callback
						addObs(100+i, i, s, int64(r.Intn(1000)), true)
					}
				}
			}
		}
		for id, mu := range multis {
			for i := range asyncs {
				for s := 0; s < nSets; s++ {
					if !r.Chance(1, 6) {
						continue
					}
					v := int64(r.Intn(1000))
					addObs(id, i, s, v, mu.insts[i]) // unregistered instruments must be ignored
					if !mu.insts[i] {
						k.C.Count("observations_of_unregistered_instrument", 1)
					}
				}
			}
			if r.Chance(1, 4) {
				script[id] = append(script[id], obs{-1, 0, 7}) // an instrument of no callback at all
			}
		}
		// ---- collect both readers at the same point
		if err := dr.Collect(ctx, &drm); err != nil {
			fail("collect-error", "delta", err.Error())
			return
		}
		if err := cr.Collect(ctx, &crm); err != nil {
			fail("collect-error", "cumulative", err.Error())
			return
		}
		d, p1 := read(&drm)
		c, p2 := read(&crm)
		for _, p := range append(p1, p2...) {
			fail("malformed-collection", "", p)
		}
		where := func(name string, sid int) string {
			return fmt.Sprintf("cycle %d/%d instrument %s set %d", cyc, cycles, name, sid)
		}
		// ---- sync oracle
		for _, si := range syncs {
			dm, cm := d[si.name], c[si.name]
			// delta reader: exactly the sets recorded in this cycle
			for s, a := range cycleSync[si.name] {
				p, ok := dm[s]
				if !ok {
					fail("delta-point-missing", si.kind, where(si.name, s))
					continue
				}
				switch si.kind {
				case "counter", "updown":
					if p.val != a.sum {
						fail("delta-value", si.kind, fmt.Sprintf("%s: delta %v want %v", where(si.name, s), p.val, a.sum))
					}
				case "gauge":
					if p.val != a.last {
						fail("gauge-not-last-value", "delta", fmt.Sprintf("%s: %v want %v", where(si.name, s), p.val, a.last))
					}
				case "hist":
					if p.count != a.count || p.sum != a.sum || fmt.Sprint(p.buckets) != fmt.Sprint(a.buckets) {
						fail("delta-value", "hist", fmt.Sprintf("%s: count %d sum %v buckets %v want %d %v %v", where(si.name, s), p.count, p.sum, p.buckets, a.count, a.sum, a.buckets))
					}
				case "expo":
					if p.count != a.count || p.sum != a.sum {
						fail("delta-value", "expo", fmt.Sprintf("%s: count %d sum %v want %d %v", where(si.name, s), p.count, p.sum, a.count, a.sum))
					}
				}
			}
			for s := range dm {
				if cycleSync[si.name] == nil || cycleSync[si.name][s] == nil {
					fail("delta-point-for-unrecorded-set", si.kind, where(si.name, s))
				}
			}
			// running totals of the delta reader vs the cumulative reader vs the model
			if deltaRunning[si.name] == nil {
				deltaRunning[si.name] = map[int]*pt{}
			}
			for s, p := range dm {
				run := deltaRunning[si.name][s]
				if run == nil {
					run = &pt{buckets: make([]uint64, len(p.buckets)), pos: map[int64]uint64{}, neg: map[int64]uint64{}, scale: 99}
					deltaRunning[si.name][s] = run
				}
				run.val += p.val
				run.count += p.count
				run.sum += p.sum
				for i := range p.buckets {
					run.buckets[i] += p.buckets[i]
				}
				if si.kind == "expo" {
					if run.scale == 99 {
						run.scale = p.scale
					}
					if p.scale < run.scale {
						run.pos, run.neg = rescale(run.pos, run.scale-p.scale), rescale(run.neg, run.scale-p.scale)
						run.scale = p.scale
					}
					for i, cc := range rescale(p.pos, p.scale-run.scale) {
						run.pos[i] += cc
					}
					for i, cc := range rescale(p.neg, p.scale-run.scale) {
						run.neg[i] += cc
					}
					run.zero += p.zero
				}
			}
			for s, a := range cum[si.name] {
				p, ok := cm[s]
				if !ok {
					fail("cumulative-point-missing", si.kind, where(si.name, s))
					continue
				}
				run := deltaRunning[si.name][s]
				if run == nil {
					fail("delta-never-reported-set", si.kind, where(si.name, s))
					continue
				}
				switch si.kind {
				case "counter", "updown":
					if p.val != run.val || p.val != a.sum {
						fail("cumulative-vs-delta-total", si.kind, fmt.Sprintf("%s: cumulative %v, running delta total %v, recorded %v", where(si.name, s), p.val, run.val, a.sum))
					}
				case "gauge":
					if p.val != a.last {
						fail("gauge-not-last-value", "cumulative", fmt.Sprintf("%s: %v want %v", where(si.name, s), p.val, a.last))
					}
				case "hist":
					if p.count != run.count || p.sum != run.sum || fmt.Sprint(p.buckets) != fmt.Sprint(run.buckets) || p.count != a.count {
						fail("cumulative-vs-delta-total", "hist", fmt.Sprintf("%s: cumulative count %d sum %v buckets %v; running delta %d %v %v; recorded count %d", where(si.name, s), p.count, p.sum, p.buckets, run.count, run.sum, run.buckets, a.count))
					}
				case "expo":
					if p.count != run.count || p.sum != run.sum || p.zero != run.zero || p.count != a.count {
						fail("cumulative-vs-delta-total", "expo count/sum", fmt.Sprintf("%s: cumulative count %d sum %v zero %d; running delta %d %v %d", where(si.name, s), p.count, p.sum, p.zero, run.count, run.sum, run.zero))
					} else if p.scale <= run.scale {
						dp, dn := rescale(run.pos, run.scale-p.scale), rescale(run.neg, run.scale-p.scale)
						if !eqMap(dp, p.pos) || !eqMap(dn, p.neg) {
							fail("cumulative-vs-delta-total", "expo buckets", fmt.Sprintf("%s: cumulative scale %d pos %v; merged delta buckets (scale %d -> %d) %v", where(si.name, s), p.scale, p.pos, run.scale, p.scale, dp))
						}
					} else {
						fail("cumulative-vs-delta-total", "expo scale", fmt.Sprintf("%s: cumulative scale %d finer than merged delta scale %d", where(si.name, s), p.scale, run.scale))
					}
				}
				k.C.Count("points_compared", 1)
			}
			for s := range cm {
				if cum[si.name] == nil || cum[si.name][s] == nil {
					fail("cumulative-point-for-unrecorded-set", si.kind, where(si.name, s))
				}
			}
		}
		// ---- async oracle
		for _, a := range asyncs {
			dm, cm := d[a.name], c[a.name]
			want := map[int]float64{}
			accept := map[int]map[float64]bool{}
			for s, vs := range cycleAsync[a.name] {
				if a.kind == "ogauge" {
					// last value within a callback; across callbacks any callback's last value
					accept[s] = map[float64]bool{}
					byCb := map[int]float64{}
					for cb := range asyncCb[a.name][s] {
						for _, ob := range script[cb] {
							if ob.inst >= 0 && asyncs[ob.inst].name == a.name && ob.sid == s {
								byCb[cb] = float64(ob.v)
							}
						}
					}
					for _, v := range byCb {
						accept[s][v] = true
					}
					want[s] = float64(vs[len(vs)-1])
				} else {
					t := 0.0
					for _, v := range vs {
						t += float64(v)
					}
					want[s] = t
				}
			}
			for name, got := range map[string]map[int]pt{"delta": dm, "cumulative": cm} {
				for s := range want {
					if _, ok := got[s]; !ok {
						fail("async-observed-set-missing", a.kind+" "+name, where(a.name, s))
					}
				}
				for s := range got {
					if _, ok := want[s]; !ok {
						fail("async-set-not-observed-this-cycle", a.kind+" "+name, where(a.name, s))
					}
				}
			}
			if prevAsync[a.name] == nil {
				prevAsync[a.name] = map[int]float64{}
			}
			for s, w := range want {
				if a.kind == "ogauge" {
					for name, got := range map[string]map[int]pt{"delta": dm, "cumulative": cm} {
						if p, ok := got[s]; ok && !accept[s][p.val] {
							fail("gauge-not-last-value", "async "+name, fmt.Sprintf("%s: %v, acceptable %v", where(a.name, s), p.val, accept[s]))
						}
					}
					continue
				}
				if p, ok := cm[s]; ok && p.val != w {
					fail("async-cumulative-value", a.kind, fmt.Sprintf("%s: %v want %v", where(a.name, s), p.val, w))
				}
				prev, had := prevAsync[a.name][s]
				if !had {
					prev = 0
				}
				if p, ok := dm[s]; ok && p.val != w-prev {
					fail("async-delta-value", a.kind, fmt.Sprintf("%s: delta %v want %v - %v (observed in preceding cycle: %v)", where(a.name, s), p.val, w, prev, had))
				}
				k.C.Count("async_points_compared", 1)
			}
			// churn evidence
			for s := range prevAsync[a.name] {
				if _, ok := want[s]; !ok {
					vanished++
				}
			}
			np := map[int]float64{}
			for s, w := range want {
				if _, ok := prevAsync[a.name][s]; !ok && cyc > 0 {
					reappeared++
				}
				np[s] = w
			}
			prevAsync[a.name] = np
		}
		if dm, ok := d["stranger"]; ok && len(dm) > 0 {
			fail("unregistered-instrument-reported", "", "")
		}
		// every registered callback ran exactly once per collection (two collections per cycle)
		for id := range multis {
			if invocations[id] != 2 {
				fail("callback-invocations", "multi", fmt.Sprintf("cycle %d: callback %d invoked %d times for two collections", cyc, id, invocations[id]))
			}
		}
		for i := range asyncs {
			if invocations[100+i] != 2 {
				fail("callback-invocations", "instrument", fmt.Sprintf("cycle %d: instrument callback %d invoked %d times for two collections", cyc, i, invocations[100+i]))
			}
		}
		for id := range invocations {
			if _, ok := multis[id]; !ok && id < 100 && invocations[id] != 0 {
				fail("callback-invocations", "unregistered callback ran", fmt.Sprint(id))
			}
			invocations[id] = 0
		}
		// ---- timestamps
		for name, sets := range c {
			for s, p := range sets {
				if p.start.After(p.t) {
					fail("start-after-time", "cumulative", where(name, s))
				}
				if st, ok := cumStart[name]; ok && !st.Equal(p.start) {
					fail("cumulative-start-moved", "", fmt.Sprintf("%s: start %v, earlier %v", where(name, s), p.start, st))
				}
				cumStart[name] = p.start
			}
		}
		for name, sets := range d {
			var tNow time.Time
			for s, p := range sets {
				if p.start.After(p.t) {
					fail("start-after-time", "delta", where(name, s))
				}
				if lt, ok := lastDeltaTime[name]; ok {
					if lastDeltaCycle[name] == cyc-1 && !p.start.Equal(lt) {
						fail("delta-intervals-not-adjacent", "", fmt.Sprintf("%s: start %v, previous collection's time %v", where(name, s), p.start, lt))
					}
					if p.start.Before(lt) {
						fail("delta-intervals-overlap", "", fmt.Sprintf("%s: start %v before an earlier collection's time %v", where(name, s), p.start, lt))
					}
				}
				if !tNow.IsZero() && !tNow.Equal(p.t) {
					fail("delta-points-different-times", "", where(name, s))
				}
				tNow = p.t
			}
			if !tNow.IsZero() {
				lastDeltaTime[name], lastDeltaCycle[name] = tNow, cyc
			}
		}
		k.C.Count("cycles", 1)
	}
	k.C.Count("histories", 1)
	k.C.Count("async_sets_vanished", int64(vanished))
	k.C.Count("async_sets_appeared", int64(reappeared))
	k.C.Sig(fmt.Sprintf("%d|%d|%d|%v", cycles/10, nSets, len(multis), vanished > 0))
	if k.C.NeedSample() {
		var names []string
		for _, s := range syncs {
			names = append(names, s.name)
		}
		for _, a := range asyncs {
			names = append(names, a.name)
		}
		k.C.Sample(map[string]any{"cycles": cycles, "attribute_sets": nSets, "instruments": strings.Join(names, ","), "async_sets_vanished": vanished})
	}
}

// runWide: thousands of distinct attribute sets on two synchronous instruments, a few hundred per cycle and
// most of them new, so that the history as a whole passes any plausible default limit on the number of
// sets an aggregate keeps while each cycle stays far below it. The cumulative reader keeps every set, the
// delta reader forgets them at each collection: their totals must still agree set by set.
func runWide(k *vf.Case) {
	r := k.R
	ctx := context.Background()
	del := sdkmetric.NewManualReader(sdkmetric.WithTemporalitySelector(func(sdkmetric.InstrumentKind) metricdata.Temporality { return metricdata.DeltaTemporality }))
	cum := sdkmetric.NewManualReader()
	mp := sdkmetric.NewMeterProvider(sdkmetric.WithReader(del), sdkmetric.WithReader(cum))
	m := mp.Meter("wide")
	ctr, _ := m.Int64Counter("c")
	hist, _ := m.Float64Histogram("h")
	cycles := 4 + r.Intn(4)
	perCycle := 400 + r.Intn(500)
	next := 0
	ctrTotal := map[int]int64{}
	histCount := map[int]uint64{}
	deltaCtr := map[int]int64{}
	deltaHist := map[int]uint64{}
	for cy := 0; cy < cycles; cy++ {
		for i := 0; i < perCycle; i++ {
			id := next
			if next > 0 && r.Chance(1, 6) {
				id = r.Intn(next) // an old set again
			} else {
				next++
			}
			o := metric.WithAttributes(attribute.Int("id", id))
			v := int64(1 + r.Intn(9))
			ctr.Add(ctx, v, o)
			ctrTotal[id] += v
			hist.Record(ctx, float64(v), o)
			histCount[id]++
		}
		var rd, rc metricdata.ResourceMetrics
		if err := del.Collect(ctx, &rd); err != nil {
			k.Violate("collect-error", "wide delta", err.Error(), nil)
			return
		}
		if err := cum.Collect(ctx, &rc); err != nil {
			k.Violate("collect-error", "wide cumulative", err.Error(), nil)
			return
		}
		idOf := func(s attribute.Set) (int, bool) {
			v, ok := s.Value("id")
			if !ok || s.Len() != 1 {
				return 0, false
			}
			return int(v.AsInt64()), true
		}
		cumCtr := map[int]int64{}
		cumHist := map[int]uint64{}
		walk := func(rm *metricdata.ResourceMetrics, onCtr func(int, int64), onHist func(int, uint64), what string) bool {
			for _, sm := range rm.ScopeMetrics {
				for _, mt := range sm.Metrics {
					switch d := mt.Data.(type) {
					case metricdata.Sum[int64]:
						for _, p := range d.DataPoints {
							id, ok := idOf(p.Attributes)
							if !ok {
								k.Violate("wide-unexpected-attribute-set", what, fmt.Sprintf("cycle %d, %d distinct sets so far: point with attributes %v", cy, next, p.Attributes.ToSlice()), nil)
								return false
							}
							onCtr(id, p.Value)
						}
					case metricdata.Histogram[float64]:
						for _, p := range d.DataPoints {
							id, ok := idOf(p.Attributes)
							if !ok {
								k.Violate("wide-unexpected-attribute-set", what, fmt.Sprintf("cycle %d, %d distinct sets so far: point with attributes %v", cy, next, p.Attributes.ToSlice()), nil)
								return false
							}
							onHist(id, p.Count)
						}
					}
				}
			}
			return true
		}
		if !walk(&rd, func(id int, v int64) { deltaCtr[id] += v }, func(id int, n uint64) { deltaHist[id] += n }, "delta") {
			return
		}
		if !walk(&rc, func(id int, v int64) { cumCtr[id] = v }, func(id int, n uint64) { cumHist[id] = n }, "cumulative") {
			return
		}
		for id, want := range ctrTotal {
			if cumCtr[id] != want || deltaCtr[id] != want {
				k.Violate("cumulative-vs-delta-total", "wide counter", fmt.Sprintf("cycle %d, %d distinct sets so far, set id=%d: recorded %d, cumulative %d, running delta total %d", cy, next, id, want, cumCtr[id], deltaCtr[id]), nil)
				return
			}
		}
		for id, want := range histCount {
			if cumHist[id] != want || deltaHist[id] != want {
				k.Violate("cumulative-vs-delta-total", "wide histogram count", fmt.Sprintf("cycle %d, %d distinct sets so far, set id=%d: recorded %d, cumulative %d, running delta total %d", cy, next, id, want, cumHist[id], deltaHist[id]), nil)
				return
			}
		}
		k.C.Count("wide_points_compared", int64(len(ctrTotal)+len(histCount)))
	}
	k.C.Max("wide_max_distinct_sets", int64(next))
	k.C.Count("wide_histories", 1)
	k.C.Sig(fmt.Sprintf("wide|%d|%d", cycles, next/500))
	mp.Shutdown(ctx)
}

// runConcurrent: the same comparison after a history in which goroutines keep recording while both readers
// collect. Every measurement must end up in exactly one delta collection, so at the quiescent end the
// cumulative point (count, sum, per-bucket counts) still equals the running total of the deltas.
// runConcurrentCreate: several goroutines ask one meter for the same asynchronous instrument at the same
// moment, each passing the same callback. The instrument exists once, so every cycle reports what ONE run of
// that callback observed: value v on the delta side in the first cycle, v - previous afterwards, v cumulative.
// runTwinScopes: two meters that share a name and differ in version, schema URL or scope attributes each own
// an observable counter and an observable gauge of the same name, observed through Meter.RegisterCallback.
// The streams are separate: per scope, the cumulative value is what that scope's callback observed and the
// delta is that minus the same scope's previous observation.
func runTwinScopes(k *vf.Case) {
	r := k.R
	ctx := context.Background()
	del := sdkmetric.NewManualReader(sdkmetric.WithTemporalitySelector(func(sdkmetric.InstrumentKind) metricdata.Temporality { return metricdata.DeltaTemporality }))
	cum := sdkmetric.NewManualReader()
	mp := sdkmetric.NewMeterProvider(sdkmetric.WithReader(del), sdkmetric.WithReader(cum))
	defer mp.Shutdown(ctx)
	how := r.Intn(3)
	var optB metric.MeterOption
	switch how {
	case 0:
		optB = metric.WithInstrumentationVersion("v2")
	case 1:
		optB = metric.WithSchemaURL("https://example.com/schema/2")
	default:
		optB = metric.WithInstrumentationAttributes(attribute.String("tenant", "b"))
	}
	meters := []metric.Meter{mp.Meter("lib"), mp.Meter("lib", optB)}
	isB := func(sc instrumentation.Scope) bool {
		return sc.Version == "v2" || sc.SchemaURL != "" || sc.Attributes.Len() > 0
	}
	var cur [2]atomic.Int64
	for i, m := range meters {
		i := i
		oc, err1 := m.Int64ObservableCounter("same")
		og, err2 := m.Int64ObservableGauge("level")
		if err1 != nil || err2 != nil {
			k.Violate("instrument-creation-error", "twin scopes", fmt.Sprint(err1, err2), nil)
			return
		}
		if _, err := m.RegisterCallback(func(_ context.Context, o metric.Observer) error {
			o.ObserveInt64(oc, cur[i].Load(), metric.WithAttributes(attribute.String("k", "v")))
			o.ObserveInt64(og, -cur[i].Load(), metric.WithAttributes(attribute.String("k", "v")))
			return nil
		}, oc, og); err != nil {
			k.Violate("register-callback-error", "twin scopes", err.Error(), nil)
			return
		}
	}
	cur[0].Store(int64(10 + r.Intn(10)))
	cur[1].Store(int64(1000 + r.Intn(100)))
	var prev [2]int64
	for cyc := 0; cyc < 4; cyc++ {
		var rd, rc metricdata.ResourceMetrics
		if err := del.Collect(ctx, &rd); err != nil {
			k.Violate("collect-error", "twin scopes delta", err.Error(), nil)
			return
		}
		if err := cum.Collect(ctx, &rc); err != nil {
			k.Violate("collect-error", "twin scopes cumulative", err.Error(), nil)
			return
		}
		get := func(rm *metricdata.ResourceMetrics) (sum [2][]int64, gauge [2][]int64) {
			for _, sm := range rm.ScopeMetrics {
				w := 0
				if isB(sm.Scope) {
					w = 1
				}
				for _, mt := range sm.Metrics {
					switch d := mt.Data.(type) {
					case metricdata.Sum[int64]:
						for _, p := range d.DataPoints {
							sum[w] = append(sum[w], p.Value)
						}
					case metricdata.Gauge[int64]:
						for _, p := range d.DataPoints {
							gauge[w] = append(gauge[w], p.Value)
						}
					}
				}
			}
			return
		}
		ds, dg := get(&rd)
		cs, cg := get(&rc)
		for w := 0; w < 2; w++ {
			v := cur[w].Load()
			ok := len(ds[w]) == 1 && len(cs[w]) == 1 && len(dg[w]) == 1 && len(cg[w]) == 1 &&
				ds[w][0] == v-prev[w] && cs[w][0] == v && dg[w][0] == -v && cg[w][0] == -v
			if !ok {
				k.Violate("async-value", "same-named observables of two scopes", fmt.Sprintf("scopes differ by %s; cycle %d, scope %d observes %d (previous %d): delta sums %v (want [%d]), cumulative sums %v (want [%d]), delta gauges %v, cumulative gauges %v (want [%d])",
					[]string{"version", "schema URL", "attributes"}[how], cyc, w, v, prev[w], ds[w], v-prev[w], cs[w], v, dg[w], cg[w], -v), nil)
				return
			}
			prev[w] = v
		}
		cur[0].Add(int64(1 + r.Intn(5)))
		cur[1].Add(int64(r.Intn(3))) // sometimes unchanged: a zero delta is still reported
	}
	k.C.Count("twin_scope_cases", 1)
	k.C.Sig(fmt.Sprintf("twin-scopes|%d", how))
}

func runConcurrentCreate(k *vf.Case) {
	r := k.R
	ctx := context.Background()
	del := sdkmetric.NewManualReader(sdkmetric.WithTemporalitySelector(func(sdkmetric.InstrumentKind) metricdata.Temporality { return metricdata.DeltaTemporality }))
	cum := sdkmetric.NewManualReader()
	mp := sdkmetric.NewMeterProvider(sdkmetric.WithReader(del), sdkmetric.WithReader(cum))
	defer mp.Shutdown(ctx)
	m := mp.Meter("cc")
	G := vf.Pick(r, []int{2, 4, 8, 16})
	kind := r.Intn(3) // 0 counter, 1 up-down counter, 2 gauge
	var cur atomic.Int64
	cur.Store(int64(5 + r.Intn(50)))
	cb := func(_ context.Context, o metric.Int64Observer) error {
		o.Observe(cur.Load(), metric.WithAttributes(attribute.String("k", "v")))
		return nil
	}
	release := make(chan struct{})
	var wg sync.WaitGroup
	for g := 0; g < G; g++ {
		wg.Add(1)
		go func() {
			defer wg.Done()
			<-release
			switch kind {
			case 0:
				_, _ = m.Int64ObservableCounter("same", metric.WithInt64Callback(cb))
			case 1:
				_, _ = m.Int64ObservableUpDownCounter("same", metric.WithInt64Callback(cb))
			default:
				_, _ = m.Int64ObservableGauge("same", metric.WithInt64Callback(cb))
			}
		}()
	}
	close(release)
	wg.Wait()
	prev := int64(0)
	for cyc := 0; cyc < 3; cyc++ {
		v := cur.Load()
		var rd, rc metricdata.ResourceMetrics
		if err := del.Collect(ctx, &rd); err != nil {
			k.Violate("collect-error", "concurrent-create delta", err.Error(), nil)
			return
		}
		if err := cum.Collect(ctx, &rc); err != nil {
			k.Violate("collect-error", "concurrent-create cumulative", err.Error(), nil)
			return
		}
		one := func(rm *metricdata.ResourceMetrics) (int64, int) {
			var val int64
			n := 0
			for _, sm := range rm.ScopeMetrics {
				for _, mt := range sm.Metrics {
					switch d := mt.Data.(type) {
					case metricdata.Sum[int64]:
						for _, p := range d.DataPoints {
							val, n = p.Value, n+1
						}
					case metricdata.Gauge[int64]:
						for _, p := range d.DataPoints {
							val, n = p.Value, n+1
						}
					}
				}
			}
			return val, n
		}
		dv, dn := one(&rd)
		cv, cn := one(&rc)
		wantD := v - prev
		if kind == 2 {
			wantD = v
		}
		if dn != 1 || cn != 1 || dv != wantD || cv != v {
			k.Violate("async-value", "instrument created by several goroutines at once", fmt.Sprintf("kind %d, %d creators, cycle %d: the callback observes %d (previous cycle %d): delta reader reports %d (%d points, want %d), cumulative reader %d (%d points, want %d)", kind, G, cyc, v, prev, dv, dn, wantD, cv, cn, v), nil)
			return
		}
		prev = v
		cur.Add(int64(1 + r.Intn(9)))
	}
	k.C.Count("concurrent_create_cases", 1)
	k.C.Sig(fmt.Sprintf("concurrent-create|%d|%d", kind, G))
}

func runConcurrent(k *vf.Case) {
	r := k.R
	ctx := context.Background()
	del := sdkmetric.NewManualReader(sdkmetric.WithTemporalitySelector(func(sdkmetric.InstrumentKind) metricdata.Temporality { return metricdata.DeltaTemporality }))
	cum := sdkmetric.NewManualReader()
	mp := sdkmetric.NewMeterProvider(sdkmetric.WithReader(del), sdkmetric.WithReader(cum),
		sdkmetric.WithView(sdkmetric.NewView(sdkmetric.Instrument{Name: "e"}, sdkmetric.Stream{Aggregation: sdkmetric.AggregationBase2ExponentialHistogram{MaxSize: 160, MaxScale: 20}})))
	m := mp.Meter("conc")
	h, _ := m.Float64Histogram("h")
	e, _ := m.Int64Histogram("e")
	c, _ := m.Int64Counter("c")
	m.Int64ObservableCounter("oc", metric.WithInt64Callback(func(_ context.Context, o metric.Int64Observer) error {
		runtime.Gosched() // a callback that is not instantaneous
		o.Observe(7)
		return nil
	}))
	G := vf.Pick(r, []int{2, 4, 8})
	nSets := 1 + r.Intn(3)
	per := 300 + r.Intn(1500)
	var wg sync.WaitGroup
	release := make(chan struct{})
	for g := 0; g < G; g++ {
		seed := r.U64()
		wg.Add(1)
		go func() {
			defer wg.Done()
			defer func() {
				if rec := recover(); rec != nil {
					k.Violate("panic", "concurrent recording", fmt.Sprint(rec), nil)
				}
			}()
			gr := vf.NewRNG(seed)
			<-release
			for i := 0; i < per; i++ {
				o := metric.WithAttributeSet(attribute.NewSet(attribute.Int("sid", gr.Intn(nSets))))
				v := int64(1 + gr.Intn(20000))
				h.Record(ctx, float64(v), o)
				e.Record(ctx, v, o)
				c.Add(ctx, v, o)
			}
		}()
	}
	type tot struct {
		count   uint64
		sum     float64
		buckets []uint64
	}
	running := map[string]*tot{} // stream|set -> running delta total
	latest := map[string]*tot{}  // stream|set -> latest cumulative
	collect := func() bool {
		var rd, rc metricdata.ResourceMetrics
		if err := del.Collect(ctx, &rd); err != nil {
			k.Violate("collect-error", "concurrent delta", err.Error(), nil)
			return false
		}
		if err := cum.Collect(ctx, &rc); err != nil {
			k.Violate("collect-error", "concurrent cumulative", err.Error(), nil)
			return false
		}
		walk := func(rm *metricdata.ResourceMetrics, delta bool) {
			for _, sm := range rm.ScopeMetrics {
				for _, mt := range sm.Metrics {
					put := func(set attribute.Set, t tot) {
						key := mt.Name + "|" + setString(set)
						if !delta {
							latest[key] = &t
							return
						}
						a := running[key]
						if a == nil {
							a = &tot{buckets: make([]uint64, len(t.buckets))}
							running[key] = a
						}
						a.count += t.count
						a.sum += t.sum
						for i := range t.buckets {
							a.buckets[i] += t.buckets[i]
						}
					}
					switch d := mt.Data.(type) {
					case metricdata.Histogram[float64]:
						for _, p := range d.DataPoints {
							put(p.Attributes, tot{p.Count, p.Sum, append([]uint64(nil), p.BucketCounts...)})
						}
					case metricdata.ExponentialHistogram[int64]:
						for _, p := range d.DataPoints {
							put(p.Attributes, tot{count: p.Count, sum: float64(p.Sum)})
						}
					case metricdata.Sum[int64]:
						for _, p := range d.DataPoints {
							put(p.Attributes, tot{sum: float64(p.Value)})
						}
					}
				}
			}
		}
		walk(&rd, true)
		walk(&rc, false)
		return true
	}
	close(release)
	overlapping := 0
	for i := 0; i < 40; i++ {
		if !collect() {
			return
		}
		overlapping++
		runtime.Gosched()
	}
	wg.Wait()
	if !collect() { // quiescent: nothing is in flight any more
		return
	}
	want := float64(0)
	_ = want
	for key, l := range latest {
		a := running[key]
		if a == nil {
			k.Violate("cumulative-vs-delta-total", "concurrent: stream never reported by the delta reader", key, nil)
			continue
		}
		same := a.count == l.count && a.sum == l.sum && len(a.buckets) == len(l.buckets)
		for i := range l.buckets {
			if same && a.buckets[i] != l.buckets[i] {
				same = false
			}
		}
		if !same {
			k.Violate("cumulative-vs-delta-total", "concurrent "+strings.SplitN(key, "|", 2)[0], fmt.Sprintf("%s after %d goroutines x %d records: cumulative count %d sum %v buckets %v; running delta total count %d sum %v buckets %v", key, G, per, l.count, l.sum, l.buckets, a.count, a.sum, a.buckets), nil)
		}
		k.C.Count("concurrent_points_compared", 1)
	}
	// two collections of ONE reader overlapping in time: each runs the callbacks and aggregates as a unit, so
	// the observable counter (whose callback always observes 7) reads 7 in every cumulative collection
	{
		var owg sync.WaitGroup
		var omu sync.Mutex
		wrong := ""
		for g := 0; g < 2; g++ {
			owg.Add(1)
			go func() {
				defer owg.Done()
				for i := 0; i < 15; i++ {
					var rm metricdata.ResourceMetrics
					if err := cum.Collect(ctx, &rm); err != nil {
						continue
					}
					found := false
					for _, sm := range rm.ScopeMetrics {
						for _, mt := range sm.Metrics {
							if d, ok := mt.Data.(metricdata.Sum[int64]); ok && mt.Name == "oc" {
								for _, p := range d.DataPoints {
									found = true
									if p.Value != 7 {
										omu.Lock()
										wrong = fmt.Sprintf("observable counter reads %d, its callback observes 7", p.Value)
										omu.Unlock()
									}
								}
							}
						}
					}
					if !found {
						omu.Lock()
						wrong = "observable counter missing from a collection although its callback observed it"
						omu.Unlock()
					}
				}
			}()
		}
		owg.Wait()
		if wrong != "" {
			k.Violate("async-cumulative-value", "overlapping collections of one reader", wrong, nil)
		}
	}
	// and nothing was lost altogether
	for _, name := range []string{"h", "e"} {
		var n uint64
		for key, l := range latest {
			if strings.HasPrefix(key, name+"|") {
				n += l.count
			}
		}
		if n != uint64(G*per) {
			k.Violate("measurements-lost", "concurrent "+name, fmt.Sprintf("cumulative count %d after %d records", n, G*per), nil)
		}
	}
	k.C.Count("concurrent_histories", 1)
	k.C.Sig(fmt.Sprintf("conc|%d|%d", G, nSets))
	mp.Shutdown(ctx)
}

func setString(s attribute.Set) string {
	var parts []string
	for _, kv := range s.ToSlice() {
		parts = append(parts, string(kv.Key)+"="+kv.Value.Emit())
	}
	return strings.Join(parts, ",")
}

// runInterrupted: collections that are attempted on a context that is already done. With a callback in the
// pipeline such an attempt fails; it must not consume anything the synchronous instruments have recorded:
// the collections that follow still add up, set by set, to what the cumulative reader holds.
func runInterrupted(k *vf.Case) {
	r := k.R
	ctx := context.Background()
	del := sdkmetric.NewManualReader(sdkmetric.WithTemporalitySelector(func(sdkmetric.InstrumentKind) metricdata.Temporality { return metricdata.DeltaTemporality }))
	cum := sdkmetric.NewManualReader()
	mp := sdkmetric.NewMeterProvider(sdkmetric.WithReader(del), sdkmetric.WithReader(cum))
	m := mp.Meter("interrupted")
	ctr, _ := m.Int64Counter("c")
	hist, _ := m.Float64Histogram("h")
	m.Int64ObservableGauge("g", metric.WithInt64Callback(func(_ context.Context, o metric.Int64Observer) error { o.Observe(1); return nil }))
	// a callback that reports an error on demand (the context stays alive): such a cycle is a complete cycle, what
	// it returns next to the error counts
	var failNow atomic.Bool
	m.Int64ObservableUpDownCounter("flaky", metric.WithInt64Callback(func(_ context.Context, o metric.Int64Observer) error {
		if failNow.Load() {
			return errors.New("callback failed")
		}
		return nil
	}))
	dead, cancel := context.WithCancel(ctx)
	cancel()
	nSets := 1 + r.Intn(4)
	running := map[string]float64{} // instrument|set|what -> running delta total
	failed := 0
	cbFailed := 0
	for cyc := 0; cyc < 3+r.Intn(10); cyc++ {
		for i := r.Intn(12); i > 0; i-- {
			o := metric.WithAttributeSet(attribute.NewSet(attribute.Int("sid", r.Intn(nSets))))
			v := int64(1 + r.Intn(100))
			ctr.Add(ctx, v, o)
			hist.Record(ctx, float64(v), o)
		}
		var rd, rc metricdata.ResourceMetrics
		if r.Chance(1, 2) {
			var scratch metricdata.ResourceMetrics
			if err := vf.Pick(r, []*sdkmetric.ManualReader{del, cum}).Collect(dead, &scratch); err != nil {
				failed++
			} else {
				k.Violate("collect-on-done-context-succeeded", "", "a pipeline with a callback reported success for a collection on a cancelled context", nil)
				return
			}
		}
		failNow.Store(r.Chance(1, 3))
		if err := del.Collect(ctx, &rd); err != nil && !failNow.Load() {
			k.Violate("collect-error", "interrupted delta", err.Error(), nil)
			return
		} else if err != nil {
			cbFailed++
		}
		failNow.Store(r.Chance(1, 3))
		if err := cum.Collect(ctx, &rc); err != nil && !failNow.Load() {
			k.Violate("collect-error", "interrupted cumulative", err.Error(), nil)
			return
		} else if err != nil {
			cbFailed++
		}
		failNow.Store(false)
		latest := map[string]float64{}
		walk := func(rm *metricdata.ResourceMetrics, into map[string]float64, add bool) {
			for _, sm := range rm.ScopeMetrics {
				for _, mt := range sm.Metrics {
					put := func(set attribute.Set, what string, v float64) {
						key := mt.Name + "|" + setString(set) + "|" + what
						if add {
							into[key] += v
						} else {
							into[key] = v
						}
					}
					switch d := mt.Data.(type) {
					case metricdata.Sum[int64]:
						for _, p := range d.DataPoints {
							put(p.Attributes, "sum", float64(p.Value))
						}
					case metricdata.Histogram[float64]:
						for _, p := range d.DataPoints {
							put(p.Attributes, "count", float64(p.Count))
							put(p.Attributes, "sum", p.Sum)
						}
					}
				}
			}
		}
		walk(&rd, running, true)
		walk(&rc, latest, false)
		for key, want := range latest {
			if running[key] != want {
				k.Violate("cumulative-vs-delta-total", "after failed collection attempts (done context or failing callback)", fmt.Sprintf("cycle %d, %d failed attempts so far: %s cumulative %v, running delta total %v", cyc, failed, key, want, running[key]), nil)
				return
			}
		}
	}
	if failed > 0 {
		k.C.Count("interrupted_histories_with_failed_attempts", 1)
	}
	k.C.Count("interrupted_cycles_with_failing_callback", int64(cbFailed))
	k.C.Count("interrupted_histories", 1)
	k.C.Sig(fmt.Sprintf("interrupted|%d|%d", nSets, min(failed, 3)))
	mp.Shutdown(ctx)
}

func main() {
	vf.Main("C08", "exploration", func(c *vf.Ctx) {
		c.Rule = "seeded single-threaded histories of 5-60 cycles on one MeterProvider with a delta-for-everything and a cumulative ManualReader collecting at the same points: all seven instrument kinds x int64/float64 with default aggregations, histograms under a base-2 exponential view and a counter re-aggregated to an explicit histogram; in each cycle a random subset of 2-9 attribute sets is measured (sets appear, disappear, reappear); asynchronous observations are scripted per cycle and replayed by every callback invocation; instrument-level callbacks plus multi-instrument callbacks registered/unregistered between cycles, duplicate observations, observations of instruments not registered with the callback; plus wide histories: 1 600-7 000 distinct attribute sets on a counter and a histogram over 4-7 cycles, 400-900 per cycle, compared set by set; interrupted histories (collection attempts on done contexts, a callback failing on demand); explicit layouts of 16/4/2/1 buckets with shifting output slots and dormant instruments; concurrent-create family (2-16 goroutines creating one asynchronous instrument); twin-scopes family (same-named observables in meters differing by version/schema URL/attributes). distinct = distinct (cycles class, sets, live callbacks, churn seen) signatures"
		c.Assume = []string{"several observations of one (instrument, set) in one cycle add up for asynchronous sums; for gauges the last value within a callback, any callback's last value across callbacks", "a delta point's start is compared with the previous collection's time only when that collection reported the stream (otherwise only non-overlap is asserted)", "exponential buckets of the delta reader are merged by exact downscaling before comparison; values are integers (far from irrational bucket boundaries)"}
		otel.SetErrorHandler(otel.ErrorHandlerFunc(func(error) {}))
		otel.SetLogger(logr.Discard())
		c.Cases("histories", c.N(2500, 40_000), 0, runHistory)
		c.Cases("wide", c.N(48, 600), 0, runWide)
		c.Cases("concurrent", c.N(200, 3000), 4, runConcurrent)
		c.Cases("concurrent-create", c.N(3000, 40_000), 0, runConcurrentCreate)
		c.Cases("twin-scopes", c.N(1500, 20_000), 0, runTwinScopes)
		c.Floor("twin_scope_cases", 500)
		c.Floor("concurrent_create_cases", 1000)
		c.Cases("interrupted", c.N(600, 8000), 0, runInterrupted)
		c.Floor("interrupted_histories_with_failed_attempts", 200)
		c.Floor("concurrent_histories", 100)
		c.Floor("wide_histories", 20)
		c.Floor("points_compared", 100_000)
		c.Floor("async_points_compared", 50_000)
		c.Floor("async_sets_vanished", 5000)
		c.Floor("callbacks_unregistered", 200)
		c.Floor("observations_of_unregistered_instrument", 1000)
	})
}
