// C19 — resource merging is a right-biased union with well-defined schema handling.
package main

import (
	"context"
	"errors"
	"fmt"
	"os"
	"strings"

	"go.opentelemetry.io/otel"
	"go.opentelemetry.io/otel/attribute"
	"go.opentelemetry.io/otel/sdk/resource"

	"verifharness/vf"
)

var keyPool = []string{"", "a", "b", "c", "a.b", "service.name", "host.name", "k0", "k1", "k2", "k3", "k4", "k5", "k6", "k7", "k8", "k9", "k10", "k11", "zz", "é", "a=b", "a,b"}
var urls = []string{"", "https://opentelemetry.io/schemas/1.21.0", "https://opentelemetry.io/schemas/1.26.0"}

func hasNaNSlice(kvs []attribute.KeyValue) bool {
	for _, kv := range kvs {
		if vf.SliceHasNaN(kv.Value) {
			return true
		}
	}
	return false
}

type modelRes struct {
	m      vf.AttrModel // valid keys only
	schema string
	isNil  bool
}

func genAttrs(r *vf.RNG) []attribute.KeyValue {
	n := r.Intn(16)
	if r.Chance(1, 8) {
		n = 0
	}
	kvs := make([]attribute.KeyValue, n)
	for i := range kvs {
		kvs[i] = attribute.KeyValue{Key: attribute.Key(vf.Pick(r, keyPool)), Value: r.AttrValue()}
		if r.Chance(1, 25) {
			kvs[i].Value = attribute.Value{} // INVALID type: not a valid attribute
		}
	}
	return kvs
}

func validModel(kvs []attribute.KeyValue) vf.AttrModel {
	// last-wins first (constructors de-duplicate before filtering), then drop invalid
	m := vf.ModelOf(kvs)
	for k, v := range m {
		if k == "" || v.Type() == attribute.INVALID {
			delete(m, k)
		}
	}
	return m
}

func genRes(r *vf.RNG) (*resource.Resource, modelRes) {
	switch r.Intn(10) {
	case 0:
		return nil, modelRes{m: vf.AttrModel{}, isNil: true}
	case 1:
		return resource.Empty(), modelRes{m: vf.AttrModel{}}
	}
	kvs := genAttrs(r)
	m := validModel(kvs)
	u := vf.Pick(r, urls)
	cp := append([]attribute.KeyValue(nil), kvs...)
	// the caller's list is used for construction two or three times (a detector kept across resource.New
	// calls does that): the resource returned is the last build
	for again := r.Intn(3); again > 0; again-- {
		_ = resource.NewSchemaless(cp...)
	}
	if u == "" && r.Bool() {
		return resource.NewSchemaless(cp...), modelRes{m: m}
	}
	return resource.NewWithAttributes(u, cp...), modelRes{m: m, schema: u}
}

func checkRes(k *vf.Case, what string, got *resource.Resource, want vf.AttrModel) bool {
	g := vf.CanonKVs(got.Attributes())
	w := vf.CanonKVs(modelSlice(want))
	if g != w {
		k.Violate("attributes-mismatch", what, fmt.Sprintf("%s:\n got  %s\n want %s", what, g, w), nil)
		return false
	}
	if got.Len() != len(want) {
		k.Violate("len-mismatch", what, "", nil)
	}
	return true
}

func modelSlice(m vf.AttrModel) []attribute.KeyValue {
	var out []attribute.KeyValue
	for _, k := range m.Keys() {
		out = append(out, attribute.KeyValue{Key: attribute.Key(k), Value: m[k]})
	}
	return out
}

func union(a, b vf.AttrModel) vf.AttrModel {
	u := vf.AttrModel{}
	for k, v := range a {
		u[k] = v
	}
	for k, v := range b {
		u[k] = v
	}
	return u
}

func mergeSchema(a, b string) (string, bool) {
	switch {
	case a == "":
		return b, false
	case b == "":
		return a, false
	case a == b:
		return a, false
	}
	return "", true
}

// ---- scripted detectors

type scripted struct {
	res  *resource.Resource
	err  error
	kind string
}

func (s scripted) Detect(context.Context) (*resource.Resource, error) { return s.res, s.err }

// ---- env encoding

func encodeEnvValue(r *vf.RNG, v string) string {
	var sb strings.Builder
	for i := 0; i < len(v); i++ {
		c := v[i]
		mustEscape := c == ',' || c == '=' || c == '%' || c <= 0x20 || c >= 0x7f
		if mustEscape || r.Chance(1, 4) {
			if r.Bool() {
				fmt.Fprintf(&sb, "%%%02X", c)
			} else {
				fmt.Fprintf(&sb, "%%%02x", c)
			}
		} else {
			sb.WriteByte(c)
		}
	}
	return sb.String()
}

type errCollector struct{ errs []error }

func (e *errCollector) Handle(err error) { e.errs = append(e.errs, err) }

func main() {
	vf.Main("C19", "exploration", func(c *vf.Ctx) {
		c.Rule = "seeded pairs/triples of resources (0-15 attributes over a small key alphabet incl. invalid keys/values, schema URLs from {\"\",u1,u2}, nil and Empty), environment strings with randomly percent-encoded bytes/spaces/empty items/missing '=', attribute lists used for construction repeatedly, scripted detector lists (ok, partial, hard error, nil, nil resource) in random orders, whole or split over two sub-slice options with an attribute option in between; identity of merge operands incl. nil vs Empty(). distinct = distinct (family, schema case, nil/empty shape, overlap class, error class) signatures"
		ctx := context.Background()

		c.Cases("merge", c.N(100_000, 1_500_000), 0, func(k *vf.Case) {
			r := k.R
			a, ma := genRes(r)
			b, mb := genRes(r)
			pre := vf.CanonKVs(a.Attributes()) + "|" + a.SchemaURL() + "||" + vf.CanonKVs(b.Attributes()) + "|" + b.SchemaURL()
			var ab *resource.Resource
			var err error
			if !k.Guard("panic-merge", "", func() { ab, err = resource.Merge(a, b) }) {
				return
			}
			if ab == nil {
				k.Violate("merge-returned-nil", "", "", nil)
				return
			}
			want := union(ma.m, mb.m)
			checkRes(k, "Merge(a,b)", ab, want)
			ws, conflict := mergeSchema(ma.schema, mb.schema)
			schemaCase := "none"
			switch {
			case conflict:
				schemaCase = "conflict"
				if !errors.Is(err, resource.ErrSchemaURLConflict) {
					k.Violate("conflict-not-reported", "", fmt.Sprintf("schemas %q %q err=%v", ma.schema, mb.schema, err), nil)
				}
				if ab.SchemaURL() != "" {
					k.Violate("schema-mismatch", "conflict", fmt.Sprintf("got %q", ab.SchemaURL()), nil)
				}
			default:
				if ws != "" {
					schemaCase = "one-or-common"
				}
				if err != nil {
					k.Violate("unexpected-merge-error", "", err.Error(), nil)
				}
				if ab.SchemaURL() != ws {
					k.Violate("schema-mismatch", schemaCase, fmt.Sprintf("a=%q b=%q got %q want %q", ma.schema, mb.schema, ab.SchemaURL(), ws), nil)
				}
			}
			// inputs untouched
			if post := vf.CanonKVs(a.Attributes()) + "|" + a.SchemaURL() + "||" + vf.CanonKVs(b.Attributes()) + "|" + b.SchemaURL(); post != pre {
				k.Violate("merge-altered-operand", "", fmt.Sprintf("before %s\nafter %s", pre, post), nil)
			}
			// identity with nil / Empty (both sides)
			for i, e := range []*resource.Resource{nil, resource.Empty()} {
				for side := 0; side < 2; side++ {
					var m1 *resource.Resource
					var e1 error
					if side == 0 {
						m1, e1 = resource.Merge(a, e)
					} else {
						m1, e1 = resource.Merge(e, a)
					}
					if e1 != nil || m1 == nil {
						k.Violate("identity-merge-error", fmt.Sprint(i, side), fmt.Sprint(e1), nil)
						continue
					}
					checkRes(k, fmt.Sprintf("identity merge (empty kind %d side %d)", i, side), m1, ma.m)
					if m1.SchemaURL() != ma.schema {
						k.Violate("identity-schema-mismatch", fmt.Sprint(i, side), fmt.Sprintf("got %q want %q", m1.SchemaURL(), ma.schema), nil)
					}
				}
			}
			// idempotent
			if aa, e2 := resource.Merge(a, a); e2 != nil || aa == nil {
				k.Violate("idempotence-error", "", fmt.Sprint(e2), nil)
			} else {
				checkRes(k, "Merge(a,a)", aa, ma.m)
				if aa.SchemaURL() != ma.schema {
					k.Violate("idempotence-schema", "", "", nil)
				}
			}
			// associativity on attributes
			cr, mc := genRes(r)
			l1, _ := resource.Merge(a, b)
			l, _ := resource.Merge(l1, cr)
			r1, _ := resource.Merge(b, cr)
			rr, _ := resource.Merge(a, r1)
			w3 := union(union(ma.m, mb.m), mc.m)
			checkRes(k, "Merge(Merge(a,b),c)", l, w3)
			checkRes(k, "Merge(a,Merge(b,c))", rr, w3)
			// equality and map identity
			if !hasNaNSlice(modelSlice(want)) {
				// the operands themselves (nil included) have the identity of any resource holding the same attributes
				for oi, op := range []*resource.Resource{a, b} {
					om := []modelRes{ma, mb}[oi]
					if hasNaNSlice(modelSlice(om.m)) {
						continue
					}
					reb := resource.NewSchemaless(modelSlice(om.m)...)
					if !op.Equal(reb) || op.Equivalent() != reb.Equivalent() || (len(om.m) == 0 && op.Equivalent() != resource.Empty().Equivalent()) {
						k.Violate("equal-resources-differ", map[bool]string{true: "nil operand", false: "operand"}[op == nil], vf.CanonKVs(op.Attributes()), nil)
					}
				}
				ab2, _ := resource.Merge(a, b)
				if !ab.Equal(ab2) || ab.Equivalent() != ab2.Equivalent() {
					k.Violate("equal-resources-differ", "", vf.CanonKVs(ab.Attributes()), nil)
				}
				rebuilt := resource.NewSchemaless(modelSlice(want)...)
				if !ab.Equal(rebuilt) || ab.Equivalent() != rebuilt.Equivalent() {
					k.Violate("equal-resources-differ", "rebuilt", vf.CanonKVs(ab.Attributes()), nil)
				}
				if l.Equal(rr) != (l.Equivalent() == rr.Equivalent()) {
					k.Violate("equal-vs-equivalent", "", "", nil)
				}
				if !hasNaNSlice(modelSlice(w3)) && !l.Equal(rr) {
					k.Violate("associativity-identity", "", "", nil)
				}
			}
			overlap := 0
			for kk := range ma.m {
				if _, ok := mb.m[kk]; ok {
					overlap++
				}
			}
			oc := "none"
			if overlap > 0 {
				oc = "some"
				k.C.Count("merges_with_shared_keys", 1)
			}
			k.C.Count("schema_case_"+schemaCase, 1)
			k.C.Sig(fmt.Sprintf("merge|%s|%v|%v|%s|%d", schemaCase, ma.isNil, mb.isNil, oc, len(want)/4))
			if k.Index < 2 {
				k.C.Sample(map[string]any{"family": "merge", "a": vf.CanonKVs(a.Attributes()), "a_schema": ma.schema, "b": vf.CanonKVs(b.Attributes()), "b_schema": mb.schema, "merged": vf.CanonKVs(ab.Attributes()), "merged_schema": ab.SchemaURL()})
			}
		})

		// constructors keep only valid keys, last wins
		c.Cases("construct", c.N(40_000, 400_000), 0, func(k *vf.Case) {
			r := k.R
			kvs := genAttrs(r)
			m := validModel(kvs)
			u := vf.Pick(r, urls)
			res := resource.NewWithAttributes(u, append([]attribute.KeyValue(nil), kvs...)...)
			checkRes(k, "NewWithAttributes", res, m)
			if res.SchemaURL() != u {
				k.Violate("schema-mismatch", "constructor", "", nil)
			}
			res2, err := resource.New(ctx, resource.WithAttributes(append([]attribute.KeyValue(nil), kvs...)...), resource.WithSchemaURL(u))
			if err != nil {
				k.Violate("new-error", "", err.Error(), nil)
			} else {
				checkRes(k, "New(WithAttributes)", res2, m)
				if res2.SchemaURL() != u {
					k.Violate("schema-mismatch", "New", fmt.Sprintf("got %q want %q", res2.SchemaURL(), u), nil)
				}
			}
			if len(m) != len(vf.ModelOf(kvs)) {
				k.C.Count("constructs_with_invalid_keys", 1)
			}
			k.C.Sig(fmt.Sprintf("construct|%d|%v", len(m)/4, len(m) != len(vf.ModelOf(kvs))))
		})

		// environment (process-global: serial)
		c.Cases("env", c.N(30_000, 400_000), 1, func(k *vf.Case) {
			r := k.R
			type item struct{ key, val string }
			n := r.Intn(7)
			var items []item
			var parts []string
			missing := 0
			for i := 0; i < n; i++ {
				switch r.Intn(10) {
				case 0: // missing '='
					parts = append(parts, vf.Pick(r, []string{"novalue", "", " ", "abc def"}))
					missing++
					continue
				}
				key := vf.Pick(r, []string{"a", "b", "service.name", "k.e.y", "x-y", "key1", "é", "a b"})
				if r.Chance(1, 15) {
					key = ""
				}
				var val string
				switch r.Intn(6) {
				case 0:
					val = ""
				case 1:
					val = string(r.Bytes(r.Intn(6)))
				case 2:
					val = r.UTF8String(r.Intn(6))
				case 3:
					val = vf.Pick(r, []string{"a=b", "a,b", "100%", "%41", "a b", " lead", "trail ", "+", "a+b", "%", "%%", "=", ","})
				default:
					val = r.ASCIIFrom("abcxyz0189-_.:/", 1+r.Intn(8))
				}
				enc := encodeEnvValue(r, val)
				ks, vs := key, enc
				if r.Chance(1, 4) {
					ks = " " + ks + "  "
				}
				if r.Chance(1, 4) {
					vs = "  " + vs + " "
				}
				parts = append(parts, ks+"="+vs)
				items = append(items, item{key, val})
			}
			envAttrs := strings.Join(parts, ",")
			svc := ""
			if r.Chance(1, 3) {
				svc = vf.Pick(r, []string{"svc", "my service", "  padded  ", "a=b,c", "ünï"})
			}
			want := vf.AttrModel{}
			for _, it := range items {
				if it.key != "" {
					want[it.key] = attribute.StringValue(it.val)
				}
			}
			if strings.TrimSpace(svc) != "" {
				want["service.name"] = attribute.StringValue(strings.TrimSpace(svc))
			}
			os.Setenv("OTEL_RESOURCE_ATTRIBUTES", envAttrs)
			os.Setenv("OTEL_SERVICE_NAME", svc)
			defer os.Unsetenv("OTEL_RESOURCE_ATTRIBUTES")
			defer os.Unsetenv("OTEL_SERVICE_NAME")
			ec := &errCollector{}
			otel.SetErrorHandler(ec)
			var res *resource.Resource
			var err error
			if !k.Guard("panic-env", "", func() { res, err = resource.New(ctx, resource.WithFromEnv()) }) {
				return
			}
			// a string that is entirely whitespace/empty counts as "nothing configured"
			if strings.TrimSpace(envAttrs) == "" {
				missing = 0
			}
			if !checkRes(k, "env "+vf.Quote(envAttrs)+" svc="+vf.Quote(svc), res, want) {
				return
			}
			if missing > 0 {
				if !errors.Is(err, resource.ErrPartialResource) {
					k.Violate("partial-env-error-not-surfaced", "", fmt.Sprintf("%s err=%v", vf.Quote(envAttrs), err), nil)
				}
				k.C.Count("env_partial", 1)
			} else if err != nil {
				k.Violate("unexpected-env-error", "", fmt.Sprintf("%s err=%v", vf.Quote(envAttrs), err), nil)
			}
			if len(ec.errs) > 0 {
				k.Violate("valid-escape-reported-as-error", "", fmt.Sprintf("%s: %v", vf.Quote(envAttrs), ec.errs), nil)
			}
			// Environment() agrees
			if e2 := resource.Environment(); vf.CanonKVs(e2.Attributes()) != vf.CanonKVs(res.Attributes()) {
				k.Violate("environment-differs", "", "", nil)
			}
			// later detector overrides env; env overrides earlier
			over := attribute.String("service.name", "from-detector")
			res3, _ := resource.New(ctx, resource.WithAttributes(attribute.String("a", "early"), attribute.String("only.early", "1")), resource.WithFromEnv(), resource.WithAttributes(over))
			w3 := union(vf.AttrModel{"a": attribute.StringValue("early"), "only.early": attribute.StringValue("1")}, want)
			w3["service.name"] = over.Value
			checkRes(k, "early+env+late", res3, w3)
			k.C.Count("env_items", int64(len(items)))
			if svc != "" {
				k.C.Count("env_with_service_name", 1)
			}
			k.C.Sig(fmt.Sprintf("env|%d|%d|%v", len(items), missing, svc != ""))
			if k.Index < 2 {
				k.C.Sample(map[string]any{"family": "env", "OTEL_RESOURCE_ATTRIBUTES": vf.Quote(envAttrs), "OTEL_SERVICE_NAME": svc, "resource": vf.CanonKVs(res.Attributes())})
			}
		})

		// malformed escapes in env: never panic, other attributes kept
		c.Cases("envbad", c.N(10_000, 100_000), 1, func(k *vf.Case) {
			r := k.R
			bad := vf.Pick(r, []string{"%", "%zz", "%4", "abc%", "%G1", "%%41", "\xff%"})
			envAttrs := "good=1,bad=" + bad + ",also=%41"
			if r.Bool() {
				envAttrs = string(r.Bytes(r.Intn(30)))
			}
			os.Setenv("OTEL_RESOURCE_ATTRIBUTES", envAttrs)
			os.Unsetenv("OTEL_SERVICE_NAME")
			defer os.Unsetenv("OTEL_RESOURCE_ATTRIBUTES")
			otel.SetErrorHandler(&errCollector{})
			var res *resource.Resource
			if !k.Guard("panic-env", "bad escape", func() { res, _ = resource.New(ctx, resource.WithFromEnv()) }) {
				return
			}
			if strings.HasPrefix(envAttrs, "good=1,bad=") {
				s := res.Set()
				if v, ok := s.Value("good"); !ok || v.AsString() != "1" {
					k.Violate("bad-escape-dropped-others", "", vf.Quote(envAttrs), nil)
				}
				if v, ok := s.Value("also"); !ok || v.AsString() != "A" {
					k.Violate("bad-escape-dropped-others", "", vf.Quote(envAttrs), nil)
				}
				if _, ok := s.Value("bad"); !ok {
					k.Violate("bad-escape-value-lost", "", vf.Quote(envAttrs), nil)
				}
			}
			k.C.Sig("envbad|" + bad)
		})

		// detector lists
		errHard := errors.New("hard failure")
		c.Cases("detectors", c.N(30_000, 300_000), 0, func(k *vf.Case) {
			r := k.R
			n := 1 + r.Intn(5)
			var ds []resource.Detector
			want := vf.AttrModel{}
			var wantErrs []error
			urlsSeen := map[string]bool{}
			cfgURL := ""
			useNew := r.Bool()
			if useNew && r.Bool() {
				cfgURL = vf.Pick(r, urls)
				if cfgURL != "" {
					urlsSeen[cfgURL] = true
				}
			}
			var shape []string
			var parts []vf.AttrModel // what each detector contributes, in order
			for i := 0; i < n; i++ {
				res, mr := genRes(r)
				parts = append(parts, nil)
				switch r.Intn(8) {
				case 0:
					ds = append(ds, nil)
					shape = append(shape, "nil")
				case 1: // hard error: result discarded
					e := fmt.Errorf("d%d: %w", i, errHard)
					ds = append(ds, scripted{res, e, "hard"})
					wantErrs = append(wantErrs, e)
					shape = append(shape, "hard")
				case 2: // partial: result kept, error surfaced
					e := fmt.Errorf("d%d: %w", i, resource.ErrPartialResource)
					ds = append(ds, scripted{res, e, "partial"})
					wantErrs = append(wantErrs, e)
					parts[i] = mr.m
					if mr.schema != "" {
						urlsSeen[mr.schema] = true
					}
					shape = append(shape, "partial")
				default:
					ds = append(ds, scripted{res, nil, "ok"})
					parts[i] = mr.m
					if mr.schema != "" {
						urlsSeen[mr.schema] = true
					}
					shape = append(shape, "ok")
				}
			}
			// with New the list is sometimes given as two options that are sub-slices of the caller's one list, with
			// an attribute option in between: precedence follows option order and the caller's list is left alone
			split := -1
			var extra attribute.KeyValue
			if useNew && r.Bool() {
				split = r.Intn(n + 1)
				extra = attribute.String("split.extra", "from-option")
				for _, p := range parts {
					if len(p) > 0 && r.Chance(1, 3) {
						extra = attribute.String(p.Keys()[r.Intn(len(p))], "from-option")
					}
				}
			}
			for i, p := range parts {
				if i == split {
					want = union(want, vf.AttrModel{string(extra.Key): extra.Value})
				}
				want = union(want, p)
			}
			if split == n {
				want = union(want, vf.AttrModel{string(extra.Key): extra.Value})
			}
			before := append([]resource.Detector(nil), ds...)
			var got *resource.Resource
			var err error
			ok := k.Guard("panic-detect", strings.Join(shape, ","), func() {
				if split >= 0 {
					got, err = resource.New(ctx, resource.WithDetectors(ds[:split]...), resource.WithAttributes(extra), resource.WithDetectors(ds[split:]...), resource.WithSchemaURL(cfgURL))
					k.C.Count("detector_lists_split_over_options", 1)
				} else if useNew {
					got, err = resource.New(ctx, resource.WithDetectors(ds...), resource.WithSchemaURL(cfgURL))
				} else {
					got, err = resource.Detect(ctx, ds...)
				}
			})
			if !ok {
				return
			}
			if got == nil {
				k.Violate("detect-returned-nil", "", "", nil)
				return
			}
			for i := range before {
				if ds[i] != before[i] {
					k.Violate("callers-detector-list-changed", "", fmt.Sprintf("element %d of the list passed to WithDetectors is now %T", i, ds[i]), nil)
					break
				}
			}
			checkRes(k, "detectors "+strings.Join(shape, ","), got, want)
			for _, e := range wantErrs {
				if !errors.Is(err, e) {
					k.Violate("detector-error-not-surfaced", "", fmt.Sprintf("shape %v: err=%v misses %v", shape, err, e), nil)
				}
			}
			conflict := len(urlsSeen) >= 2
			if conflict {
				if !errors.Is(err, resource.ErrSchemaURLConflict) {
					k.Violate("conflict-not-reported", "detectors", fmt.Sprintf("shape %v urls %v err=%v", shape, urlsSeen, err), nil)
				}
				if got.SchemaURL() != "" {
					k.Violate("schema-mismatch", "detectors conflict", got.SchemaURL(), nil)
				}
			} else {
				if errors.Is(err, resource.ErrSchemaURLConflict) {
					k.Violate("spurious-conflict", "", fmt.Sprintf("shape %v urls %v", shape, urlsSeen), nil)
				}
				wantURL := ""
				for u := range urlsSeen {
					wantURL = u
				}
				if got.SchemaURL() != wantURL {
					k.Violate("schema-mismatch", "detectors", fmt.Sprintf("shape %v got %q want %q", shape, got.SchemaURL(), wantURL), nil)
				}
			}
			if len(wantErrs) == 0 && !conflict && err != nil {
				k.Violate("unexpected-detect-error", "", err.Error(), nil)
			}
			if len(wantErrs) > 0 {
				k.C.Count("detector_lists_with_failures", 1)
			}
			k.C.Sig(fmt.Sprintf("det|%s|%v|%v", strings.Join(shape, ","), conflict, useNew))
			if k.Index < 2 {
				k.C.Sample(map[string]any{"family": "detectors", "shape": shape, "result": vf.CanonKVs(got.Attributes()), "err": fmt.Sprint(err)})
			}
		})

		c.Floor("schema_case_conflict", 1000)
		c.Floor("merges_with_shared_keys", 1000)
		c.Floor("env_items", 1000)
		c.Floor("env_partial", 100)
		c.Floor("detector_lists_with_failures", 500)
	})
}
