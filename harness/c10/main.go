// C10 — a span ends exactly once; tracing API safe under concurrent use (with and without runtime/trace).
package main

import (
	"context"
	"errors"
	"fmt"
	"io"
	"runtime"
	rtrace "runtime/trace"
	"sort"
	"strings"
	"sync"
	"sync/atomic"
	"time"

	"github.com/go-logr/logr"
	"go.opentelemetry.io/otel"
	"go.opentelemetry.io/otel/attribute"
	"go.opentelemetry.io/otel/codes"
	sdktrace "go.opentelemetry.io/otel/sdk/trace"
	"go.opentelemetry.io/otel/trace"

	"verifharness/vf"
)

type delivered struct {
	span   sdktrace.ReadOnlySpan
	repr   string
	ticket uint64
}

type recProc struct {
	name string
	mu   sync.Mutex
	got  map[trace.SpanID][]delivered
}

func (p *recProc) OnStart(context.Context, sdktrace.ReadWriteSpan) {}
func (p *recProc) OnEnd(s sdktrace.ReadOnlySpan) {
	d := delivered{span: s, repr: snapshotString(s), ticket: vf.Tick()}
	p.mu.Lock()
	p.got[s.SpanContext().SpanID()] = append(p.got[s.SpanContext().SpanID()], d)
	p.mu.Unlock()
}
func (p *recProc) Shutdown(context.Context) error   { return nil }
func (p *recProc) ForceFlush(context.Context) error { return nil }

// liveReader is a processor of the kind that copies things from the live parent to its children: under
// its own mutex OnStart reads the parent span found in the context, and OnEnd takes the same mutex.
type liveReader struct {
	mu    sync.Mutex
	reads int
}

func (p *liveReader) OnStart(parent context.Context, s sdktrace.ReadWriteSpan) {
	p.mu.Lock()
	defer p.mu.Unlock()
	if ps, ok := trace.SpanFromContext(parent).(sdktrace.ReadOnlySpan); ok {
		_ = ps.Attributes()
		_ = ps.Name()
		_ = ps.Events()
		p.reads++
	}
	_ = s.Attributes()
}
func (p *liveReader) OnEnd(s sdktrace.ReadOnlySpan) {
	p.mu.Lock()
	defer p.mu.Unlock()
	_ = s.Name()
}
func (p *liveReader) Shutdown(context.Context) error   { return nil }
func (p *liveReader) ForceFlush(context.Context) error { return nil }

// dropByName drops spans whose name starts with "dropchild-" and samples everything else.
type dropByName struct{}

func (dropByName) ShouldSample(p sdktrace.SamplingParameters) sdktrace.SamplingResult {
	if strings.HasPrefix(p.Name, "dropchild-") {
		return sdktrace.SamplingResult{Decision: sdktrace.Drop}
	}
	if strings.HasPrefix(p.Name, "recordonly-") {
		// recording but not sampled: processors still get OnStart/OnEnd for it, exactly once
		return sdktrace.SamplingResult{Decision: sdktrace.RecordOnly}
	}
	return sdktrace.SamplingResult{Decision: sdktrace.RecordAndSample}
}
func (dropByName) Description() string { return "dropByName" }

// panicErr is an error whose Error method panics (a typed nil pointer error is the everyday form of it). The
// caller recovers; the span must stay usable.
type panicErr struct{}

func (*panicErr) Error() string { panic("Error() called on a broken error value") }

var deadlocksSeen atomic.Int32

// goroutineHeader returns the first line of the calling goroutine's own stack dump ("goroutine N [running]:").
func goroutineHeader() string {
	buf := make([]byte, 64)
	n := runtime.Stack(buf, false)
	line, _, _ := strings.Cut(string(buf[:n]), "\n")
	return line
}

func snapshotString(s sdktrace.ReadOnlySpan) string {
	var sb strings.Builder
	fmt.Fprintf(&sb, "name=%q end=%d status=%v/%q dropped=%d/%d/%d child=%d\n", s.Name(), s.EndTime().UnixNano(), s.Status().Code, s.Status().Description,
		s.DroppedAttributes(), s.DroppedEvents(), s.DroppedLinks(), s.ChildSpanCount())
	at := append([]attribute.KeyValue(nil), s.Attributes()...)
	sort.SliceStable(at, func(i, j int) bool { return at[i].Key < at[j].Key })
	for _, kv := range at {
		fmt.Fprintf(&sb, "%s=%s;", kv.Key, kv.Value.Emit())
	}
	sb.WriteByte('\n')
	for _, e := range s.Events() {
		fmt.Fprintf(&sb, "event %q", e.Name)
		for _, kv := range e.Attributes {
			fmt.Fprintf(&sb, " %s=%s", kv.Key, kv.Value.Emit())
		}
		sb.WriteByte('\n')
	}
	for _, l := range s.Links() {
		fmt.Fprintf(&sb, "link %s", l.SpanContext.SpanID())
		for _, kv := range l.Attributes {
			fmt.Fprintf(&sb, " %s=%s", kv.Key, kv.Value.Emit())
		}
		sb.WriteByte('\n')
	}
	return sb.String()
}

type opRec struct {
	g         int
	kind      string
	tag       string
	call, ret uint64
}

type shared struct {
	span trace.Span
	ctx  context.Context
	id   trace.SpanID
}

func runCase(k *vf.Case, traced bool) {
	r := k.R
	procs := vf.Pick(r, []int{2, 4, 16})
	prev := runtime.GOMAXPROCS(procs)
	defer runtime.GOMAXPROCS(prev)
	if deadlocksSeen.Load() >= 3 {
		k.C.Count("cases_skipped_after_three_deadlocks", 1)
		return
	}
	lim := sdktrace.SpanLimits{AttributeValueLengthLimit: -1, AttributeCountLimit: -1, EventCountLimit: -1, LinkCountLimit: -1, AttributePerEventCountLimit: -1, AttributePerLinkCountLimit: -1}
	if r.Chance(1, 2) {
		// tiny event / link queues: every further event evicts the oldest one in place
		lim.EventCountLimit, lim.LinkCountLimit = vf.Pick(r, []int{1, 2, 4}), vf.Pick(r, []int{1, 2, 4})
	}
	// a quarter of the cases: shared spans that are exactly at their attribute count limit from the start (new
	// keys are dropped as a whole, so tagged groups stay all-or-nothing; writes to held keys take the
	// over-capacity path - also the ones attempted after End)
	attrLimited := r.Chance(1, 4)
	if attrLimited {
		lim.AttributeCountLimit = 3
		k.C.Count("cases_with_spans_at_their_attribute_limit", 1)
	}
	p1 := &recProc{name: "p1", got: map[trace.SpanID][]delivered{}}
	p2 := &recProc{name: "p2", got: map[trace.SpanID][]delivered{}}
	var churnMu sync.Mutex
	var churners []*recProc
	p4 := &liveReader{}
	tp := sdktrace.NewTracerProvider(sdktrace.WithRawSpanLimits(lim), sdktrace.WithSampler(dropByName{}), sdktrace.WithSpanProcessor(p1), sdktrace.WithSpanProcessor(p2), sdktrace.WithSpanProcessor(p4))
	tr := tp.Tracer("c10")
	nShared := 1 + r.Intn(2)
	var spans []shared
	for i := 0; i < nShared; i++ {
		name := fmt.Sprintf("shared%d", i)
		if r.Chance(1, 4) {
			name = "recordonly-" + name
			k.C.Count("record_only_shared_spans", 1)
		}
		var sopts []trace.SpanStartOption
		if attrLimited {
			sopts = append(sopts, trace.WithAttributes(attribute.String("pre0", "v"), attribute.String("pre1", "v"), attribute.String("pre2", "v")))
		}
		ctx, sp := tr.Start(context.Background(), name, sopts...)
		spans = append(spans, shared{sp, ctx, sp.SpanContext().SpanID()})
	}
	G := vf.Pick(r, []int{2, 4, 8, 16})
	endHeavy := r.Chance(1, 2)
	var mu sync.Mutex
	var ops []opRec
	var children []trace.SpanID
	var wg sync.WaitGroup
	release := make(chan struct{})
	var panics []string
	goids := map[int]string{} // worker -> "goroutine N [running]:" as the runtime prints it for that worker
	for g := 0; g < G; g++ {
		seed := r.U64()
		wg.Add(1)
		go func(g int) {
			defer wg.Done()
			gr := vf.NewRNG(seed)
			var local []opRec
			var localChildren []trace.SpanID
			attrBuf := make([]attribute.KeyValue, 3)
			mu.Lock()
			goids[g] = goroutineHeader()
			mu.Unlock()
			defer func() {
				if rec := recover(); rec != nil {
					buf := make([]byte, 4096)
					n := runtime.Stack(buf, false)
					mu.Lock()
					panics = append(panics, fmt.Sprintf("%v\n%s", rec, buf[:n]))
					mu.Unlock()
				}
				mu.Lock()
				ops = append(ops, local...)
				children = append(children, localChildren...)
				mu.Unlock()
			}()
			nops := 1 + gr.Intn(10)
			type plan struct {
				kind string
				si   int
			}
			var plans []plan
			for i := 0; i < nops; i++ {
				kind := vf.Pick(gr, []string{"End", "SetAttributes", "AddEvent", "AddLink", "SetStatus", "SetName", "RecordError", "IsRecording", "Child", "Tracer", "Churn", "ReadLive"})
				if endHeavy && gr.Chance(1, 2) {
					kind = "End"
				}
				plans = append(plans, plan{kind, gr.Intn(nShared)})
			}
			if endHeavy {
				plans[0].kind = "End" // all goroutines race End first
			}
			ended := map[int]bool{}
			<-release
			for i, pl := range plans {
				s := spans[pl.si]
				tag := fmt.Sprintf("g%d-%d", g, i)
				op := opRec{g: g, kind: pl.kind, tag: fmt.Sprintf("%d|%s", pl.si, tag)}
				op.call = vf.Tick()
				switch pl.kind {
				case "End":
					if gr.Bool() {
						s.span.End(trace.WithTimestamp(time.Unix(1_800_000_000+int64(g), int64(i))))
					} else {
						s.span.End()
					}
					ended[pl.si] = true
				case "SetAttributes":
					if gr.Bool() {
						// the caller's own buffer (len == cap), refilled for every call: the span must not keep it
						attrBuf[0], attrBuf[1], attrBuf[2] = attribute.String(tag+"-a", tag), attribute.String(tag+"-b", tag), attribute.String(tag+"-c", tag)
						s.span.SetAttributes(attrBuf...)
						attrBuf[0], attrBuf[1], attrBuf[2] = attribute.String("scribble-1", "x"), attribute.String("scribble-2", "x"), attribute.String("scribble-3", "x")
					} else {
						s.span.SetAttributes(attribute.String(tag+"-a", tag), attribute.String(tag+"-b", tag), attribute.String(tag+"-c", tag))
					}
				case "AddEvent":
					s.span.AddEvent(tag, trace.WithAttributes(attribute.String("a", tag), attribute.String("b", tag), attribute.String("c", tag)))
				case "AddLink":
					s.span.AddLink(trace.Link{SpanContext: trace.NewSpanContext(trace.SpanContextConfig{TraceID: trace.TraceID{1}, SpanID: trace.SpanID{byte(g + 1), byte(i + 1)}}),
						Attributes: []attribute.KeyValue{attribute.String("a", tag), attribute.String("b", tag)}})
				case "SetStatus":
					s.span.SetStatus(codes.Error, tag)
				case "SetName":
					s.span.SetName(tag)
				case "RecordError":
					if gr.Chance(1, 6) {
						func() {
							defer func() { _ = recover() }()
							s.span.RecordError(&panicErr{})
						}()
					} else if gr.Bool() {
						// with a stack trace: other goroutines do the same on other spans at the same time
						s.span.RecordError(errors.New(tag), trace.WithStackTrace(true))
					} else {
						s.span.RecordError(errors.New(tag))
					}
				case "ReadLive":
					// the read side of the live span, as a processor or an exporter helper would use it
					if ro, ok := s.span.(sdktrace.ReadOnlySpan); ok {
						et := ro.EndTime()
						if !et.IsZero() && (et.Year() < 2000 || et.Year() > 2100) {
							op.kind = "ReadLive-implausible-end-time:" + et.String()
						}
						_, _, _, _ = ro.StartTime(), ro.Parent(), ro.SpanKind(), ro.Name()
						_, _, _, _ = ro.Attributes(), ro.Events(), ro.Links(), ro.Status()
						_, _, _, _ = ro.DroppedAttributes(), ro.DroppedEvents(), ro.DroppedLinks(), ro.ChildSpanCount()
					}
				case "IsRecording":
					rec := s.span.IsRecording()
					if ended[pl.si] && rec {
						op.kind = "IsRecording-true-after-own-End"
					}
				case "Child":
					if gr.Chance(1, 3) {
						// a child the sampler drops is a child all the same (it is counted, not delivered)
						_, ch := tr.Start(s.ctx, "dropchild-"+tag)
						op.ret = vf.Tick()
						ch.End()
						break
					}
					_, ch := tr.Start(s.ctx, "child-"+tag)
					op.ret = vf.Tick()
					ch.End()
					localChildren = append(localChildren, ch.SpanContext().SpanID())
				case "Tracer":
					tp.Tracer(fmt.Sprintf("t%d", gr.Intn(3)))
				case "Churn":
					// a processor of this goroutine's own: registered at most once at any time
					p3 := &recProc{name: "churn-" + tag, got: map[trace.SpanID][]delivered{}}
					churnMu.Lock()
					churners = append(churners, p3)
					churnMu.Unlock()
					tp.RegisterSpanProcessor(p3)
					// Register has returned: a span started and ended now reaches this processor exactly once
					_, in := tr.Start(context.Background(), "in-window-"+tag)
					in.End()
					p3.mu.Lock()
					nIn := len(p3.got[in.SpanContext().SpanID()])
					p3.mu.Unlock()
					tp.UnregisterSpanProcessor(p3)
					// Unregister has returned: nothing more reaches it
					_, after := tr.Start(context.Background(), "after-window-"+tag)
					after.End()
					p3.mu.Lock()
					nAfter := len(p3.got[after.SpanContext().SpanID()])
					p3.mu.Unlock()
					if nIn != 1 {
						op.kind = fmt.Sprintf("Churn-missed:%d", nIn)
					} else if nAfter != 0 {
						op.kind = fmt.Sprintf("Churn-late:%d", nAfter)
					}
					localChildren = append(localChildren, in.SpanContext().SpanID(), after.SpanContext().SpanID())
				}
				if op.ret == 0 {
					op.ret = vf.Tick()
				}
				local = append(local, op)
			}
		}(g)
	}
	finished, stuck, desc := vf.Watch(15*time.Second, 2*time.Second, func() {
		close(release)
		wg.Wait()
	})
	mode := map[bool]string{true: "traced", false: "untraced"}[traced]
	if !finished {
		if stuck {
			deadlocksSeen.Add(1)
			k.Violate("deadlock", mode, desc, nil)
		} else {
			k.C.Inconclusive("case did not finish within the watchdog")
		}
		return
	}
	for _, p := range panics {
		k.Violate("panic", mode+" "+firstLine(p), p, nil)
	}
	// make sure every shared span is ended, then poke it again (post-End calls change nothing)
	anyEnd := map[int]bool{}
	for _, op := range ops {
		if op.kind == "End" {
			var si int
			fmt.Sscanf(op.tag, "%d|", &si)
			anyEnd[si] = true
		}
	}
	for i, s := range spans {
		if !anyEnd[i] {
			op := opRec{g: -1, kind: "End", tag: fmt.Sprintf("%d|final", i)}
			op.call = vf.Tick()
			s.span.End()
			op.ret = vf.Tick()
			ops = append(ops, op)
		}
		s.span.SetAttributes(attribute.String("post", "end"))
		s.span.SetAttributes(attribute.String("pre0", "changed-after-end"), attribute.String("post2", "end"))
		s.span.AddEvent("post-end")
		s.span.SetName("post-end")
		s.span.End()
		if s.span.IsRecording() {
			k.Violate("recording-after-end", mode, "", nil)
		}
	}
	fail := func(class, key, detail string) {
		k.Violate(class, mode+" "+key, fmt.Sprintf("mode=%s G=%d procs=%d endHeavy=%v\n%s", mode, G, procs, endHeavy, detail), nil)
	}
	for _, op := range ops {
		if strings.HasPrefix(op.kind, "Churn-missed") {
			fail("registered-processor-missed-span", "", "a span started and ended between RegisterSpanProcessor and UnregisterSpanProcessor of this goroutine's own processor was delivered to it "+strings.TrimPrefix(op.kind, "Churn-missed:")+" times")
		}
		if strings.HasPrefix(op.kind, "Churn-late") {
			fail("unregistered-processor-got-span", "", "a span started after UnregisterSpanProcessor had returned was delivered to the unregistered processor")
		}
		if strings.HasPrefix(op.kind, "ReadLive-implausible-end-time") {
			fail("two-end-times", "live read", "EndTime() of the live span returned "+strings.TrimPrefix(op.kind, "ReadLive-implausible-end-time:"))
		}
		if op.kind == "IsRecording-true-after-own-End" {
			fail("recording-after-end", "", "IsRecording() returned true after this goroutine's End had returned")
		}
	}
	overlappingEnds := false
	for si, s := range spans {
		var ends []opRec
		var minEndCall, minEndRet uint64 = ^uint64(0), ^uint64(0)
		for _, op := range ops {
			var osi int
			fmt.Sscanf(op.tag, "%d|", &osi)
			if osi != si || op.kind != "End" {
				continue
			}
			ends = append(ends, op)
			if op.call < minEndCall {
				minEndCall = op.call
			}
			if op.ret < minEndRet {
				minEndRet = op.ret
			}
		}
		for i := range ends {
			for j := i + 1; j < len(ends); j++ {
				if ends[i].call < ends[j].ret && ends[j].call < ends[i].ret {
					overlappingEnds = true
				}
			}
		}
		var snaps []delivered
		for _, p := range []*recProc{p1, p2} {
			p.mu.Lock()
			ds := p.got[s.id]
			p.mu.Unlock()
			if len(ds) != 1 {
				fail("onend-count", "", fmt.Sprintf("processor %s saw %d OnEnd calls for the shared span (%d End calls issued)", p.name, len(ds), len(ends)))
			}
			snaps = append(snaps, ds...)
		}
		for _, p3 := range churners {
			p3.mu.Lock()
			if n := len(p3.got[s.id]); n > 1 {
				fail("onend-count", "churned processor", fmt.Sprintf("%d", n))
			}
			p3.mu.Unlock()
		}
		if len(snaps) == 0 {
			continue
		}
		for _, d := range snaps[1:] {
			if !d.span.EndTime().Equal(snaps[0].span.EndTime()) {
				fail("two-end-times", "", fmt.Sprintf("%v vs %v", d.span.EndTime(), snaps[0].span.EndTime()))
			}
		}
		for _, d := range snaps {
			if now := snapshotString(d.span); now != d.repr {
				fail("snapshot-changed-after-delivery", "", fmt.Sprintf("at delivery:\n%s\nnow:\n%s", d.repr, now))
			}
		}
		snap := snaps[0].span
		// torn mutations: groups all-or-nothing
		groups := map[string]int{}
		for _, kv := range snap.Attributes() {
			key := string(kv.Key)
			if i := strings.LastIndexByte(key, '-'); i > 0 && strings.HasPrefix(key, "g") {
				groups[key[:i]]++
				if kv.Value.AsString() != key[:i] {
					fail("torn-mutation", "attribute value", key)
				}
			}
			if key == "post" || key == "post2" || (key == "pre0" && kv.Value.AsString() != "v") {
				fail("post-end-mutation-visible", "", key+"="+kv.Value.AsString())
			}
			if strings.HasPrefix(key, "scribble") {
				fail("span-kept-the-callers-slice", "", "the snapshot holds "+key+", which the caller wrote into its own buffer after SetAttributes had returned")
			}
		}
		for gname, n := range groups {
			if n != 3 {
				fail("torn-mutation", "attribute group", fmt.Sprintf("group %s has %d of 3 attributes", gname, n))
			}
		}
		for _, e := range snap.Events() {
			if e.Name == "exception" {
				// a recorded stack trace is the recording goroutine's own, whole
				var msg, st string
				for _, kv := range e.Attributes {
					switch kv.Key {
					case "exception.message":
						msg = kv.Value.AsString()
					case "exception.stacktrace":
						st = kv.Value.AsString()
					}
				}
				var wg2, wi int
				if n, _ := fmt.Sscanf(msg, "g%d-%d", &wg2, &wi); n == 2 && st != "" {
					k.C.Count("stack_traces_checked", 1)
					if !strings.HasPrefix(st, goids[wg2]+"\n") || !strings.Contains(st, "RecordError") {
						fail("torn-mutation", "stack trace of another goroutine", fmt.Sprintf("error %s was recorded by %q, its event carries:\n%s", msg, goids[wg2], st))
					}
				}
			}
			if e.Name == "post-end" {
				fail("post-end-mutation-visible", "event", "")
			}
			if strings.HasPrefix(e.Name, "g") && len(e.Attributes) != 3 {
				fail("torn-mutation", "event", fmt.Sprintf("event %s has %d of 3 attributes", e.Name, len(e.Attributes)))
			}
		}
		for _, l := range snap.Links() {
			if len(l.Attributes) != 2 {
				fail("torn-mutation", "link", "")
			}
		}
		if snap.Name() == "post-end" {
			fail("post-end-mutation-visible", "name", "")
		}
		// child count bounds
		lower, upper := 0, 0
		for _, op := range ops {
			var osi int
			fmt.Sscanf(op.tag, "%d|", &osi)
			if osi != si || op.kind != "Child" {
				continue
			}
			if op.ret < minEndCall {
				lower++
			}
			if op.call < minEndRet {
				upper++
			}
		}
		if c := snap.ChildSpanCount(); c < lower || c > upper {
			fail("child-count", "", fmt.Sprintf("ChildSpanCount %d outside [%d,%d]", c, lower, upper))
		}
		if lower > 0 {
			k.C.Count(mode+"_cases_with_children_before_end", 1)
		}
		k.C.Count(mode+"_end_calls", int64(len(ends)))
	}
	// every child delivered exactly once to p1 and p2
	for _, id := range children {
		for _, p := range []*recProc{p1, p2} {
			p.mu.Lock()
			n := len(p.got[id])
			p.mu.Unlock()
			if n != 1 {
				fail("onend-count", "child span", fmt.Sprintf("processor %s saw %d OnEnd calls for a child span", p.name, n))
			}
		}
	}
	// a span that is still open when its provider is shut down: End still ends it
	{
		tp2 := sdktrace.NewTracerProvider(sdktrace.WithSpanProcessor(&recProc{name: "late", got: map[trace.SpanID][]delivered{}}))
		_, open := tp2.Tracer("late").Start(context.Background(), "open-at-shutdown")
		tp2.Shutdown(context.Background())
		open.End()
		if open.IsRecording() {
			fail("recording-after-end", "span ended after its provider was shut down", "")
		}
		if ro, ok := open.(sdktrace.ReadOnlySpan); ok && ro.EndTime().IsZero() {
			fail("recording-after-end", "span ended after its provider was shut down: no end time", "")
		}
	}
	k.C.Count(mode+"_cases", 1)
	k.C.Count(mode+"_ops", int64(len(ops)))
	if overlappingEnds {
		k.C.Count(mode+"_cases_with_overlapping_ends", 1)
	}
	k.C.Sig(fmt.Sprintf("%s|G%d|p%d|%v|%v|%d", mode, G, procs, endHeavy, overlappingEnds, nShared))
	if k.C.NeedSample() {
		var kinds []string
		for _, op := range ops {
			kinds = append(kinds, fmt.Sprintf("g%d:%s[%d,%d]", op.g, op.kind, op.call, op.ret))
		}
		k.C.Sample(map[string]any{"mode": mode, "goroutines": G, "ops": kinds})
	}
}

func firstLine(s string) string {
	if i := strings.IndexByte(s, '\n'); i >= 0 {
		s = s[:i]
	}
	if len(s) > 80 {
		s = s[:80]
	}
	return s
}

// tracingSink is logging code that is itself instrumented with tracing: when the SDK logs from the goroutine
// of the current case it asks the same provider for a tracer (and starts a span with it). Library code that
// logs while holding one of its own locks deadlocks here; the SDK documents that it must not.
type tracingSink struct {
	tp      atomic.Pointer[sdktrace.TracerProvider]
	gid     atomic.Pointer[string]
	depth   atomic.Int32
	entered atomic.Int64
}

func (s *tracingSink) Init(logr.RuntimeInfo) {}
func (s *tracingSink) Enabled(int) bool      { return true }
func (s *tracingSink) Info(_ int, msg string, _ ...any) {
	tp, gid := s.tp.Load(), s.gid.Load()
	if tp == nil || gid == nil || *gid != goroutineHeader() || s.depth.Load() > 0 {
		return
	}
	s.depth.Add(1)
	defer s.depth.Add(-1)
	s.entered.Add(1)
	_, sp := tp.Tracer("logging-library").Start(context.Background(), "log:"+msg)
	sp.End()
}
func (s *tracingSink) Error(error, string, ...any)    {}
func (s *tracingSink) WithValues(...any) logr.LogSink { return s }
func (s *tracingSink) WithName(string) logr.LogSink   { return s }

var theSink = &tracingSink{}

func runInstrumentedLogger(k *vf.Case) {
	r := k.R
	finished, stuck, desc := vf.Watch(15*time.Second, 2*time.Second, func() {
		p := &recProc{name: "p", got: map[trace.SpanID][]delivered{}}
		tp := sdktrace.NewTracerProvider(sdktrace.WithSpanProcessor(p))
		gid := goroutineHeader()
		theSink.tp.Store(tp)
		theSink.gid.Store(&gid)
		defer theSink.tp.Store(nil)
		for i := 0; i < 2+r.Intn(4); i++ {
			opts := []trace.TracerOption{}
			if r.Bool() {
				opts = append(opts, trace.WithInstrumentationVersion(fmt.Sprintf("v%d", r.Intn(3))))
			}
			tr := tp.Tracer(fmt.Sprintf("scope-%d", r.Intn(4)), opts...)
			_, sp := tr.Start(context.Background(), "s")
			sp.SetAttributes(attribute.Int("i", i))
			sp.End()
			if r.Chance(1, 3) {
				tp.RegisterSpanProcessor(&recProc{name: "late", got: map[trace.SpanID][]delivered{}})
			}
		}
		_ = tp.ForceFlush(context.Background())
		_ = tp.Shutdown(context.Background())
		tp.Tracer("after-shutdown")
	})
	if !finished {
		if stuck {
			k.Violate("deadlock", "logging code that uses the tracing API", desc, nil)
		} else {
			k.C.Inconclusive("instrumented-logger case did not finish")
		}
		return
	}
	k.C.Count("instrumented_logger_cases", 1)
	k.C.Sig("instrumented-logger")
}

func main() {
	vf.Main("C10", "exploration", func(c *vf.Ctx) {
		c.Rule = "seeded cases of 2-16 goroutines released by a barrier on 1-2 shared spans, each running a random list of End(+-timestamp)/SetAttributes(tagged group of 3)/AddEvent(3 tagged attributes)/AddLink/SetStatus/SetName/RecordError/IsRecording/child Start+End/Tracer lookup/Register+Unregister of a third processor; every case list is run without and with runtime/trace started; two recording processors; ReadLive (all ReadOnlySpan accessors on the live span) and RecordError with stack traces in the concurrent menu; -race; GOMAXPROCS{2,4,16}; a quarter of the shared spans record-only; RecordError with errors whose Error() panics; instrumented-logger family (the SDK's log calls re-enter the provider). distinct = distinct (mode, goroutines, procs, end-heavy, overlapping Ends observed, shared spans) signatures"
		c.Assume = []string{"overlap of End calls is measured with a ticket clock; the traced and untraced floors require >= 1000 cases each in which two End calls truly overlapped"}
		n := c.N(12_000, 300_000)
		c.Cases("untraced", n, 1, func(k *vf.Case) { runCase(k, false) })
		if err := rtrace.Start(io.Discard); err != nil {
			c.Inconclusive("runtime/trace could not be started: " + err.Error())
		} else {
			c.Cases("traced", n, 1, func(k *vf.Case) { runCase(k, true) })
			rtrace.Stop()
		}
		// last family: the global logger becomes logging code that itself uses the tracing API
		otel.SetLogger(logr.New(theSink))
		c.Cases("instrumented-logger", c.N(400, 4000), 1, runInstrumentedLogger)
		c.Extra("sdk_log_calls_that_re_entered_the_provider", int(theSink.entered.Load()))
		c.Floor("instrumented_logger_cases", 200)
		c.Floor("stack_traces_checked", 250)
		c.Floor("untraced_cases_with_overlapping_ends", 1000)
		c.Floor("traced_cases_with_overlapping_ends", 1000)
		c.Floor("untraced_cases_with_children_before_end", 100)
		c.Floor("traced_cases_with_children_before_end", 100)
	})
}
