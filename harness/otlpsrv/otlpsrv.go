// Package otlpsrv provides in-process loopback OTLP collectors (gRPC and HTTP) whose responses are
// scripted by the caller and which record what the real exporters put on the wire.
package otlpsrv

import (
	"bytes"
	"compress/gzip"
	"context"
	"io"
	"net"
	"net/http"
	"strings"
	"sync"
	"time"

	collogpb "go.opentelemetry.io/proto/otlp/collector/logs/v1"
	colmetricpb "go.opentelemetry.io/proto/otlp/collector/metrics/v1"
	coltracepb "go.opentelemetry.io/proto/otlp/collector/trace/v1"
	"google.golang.org/grpc"
	_ "google.golang.org/grpc/encoding/gzip" // server-side gzip support
	"google.golang.org/grpc/metadata"
	"google.golang.org/grpc/stats"
	"google.golang.org/grpc/status"
	"google.golang.org/protobuf/proto"

	"verifharness/vf"
)

// Request is one export request as seen by a collector.
type Request struct {
	Server      string
	Transport   string // "grpc" | "http"
	Signal      string // "traces" | "metrics" | "logs"
	Msg         proto.Message
	Canon       []byte // deterministic marshalling of Msg
	Header      map[string][]string
	Path        string
	Compression string
	HasDeadline bool
	Deadline    time.Duration // remaining time the gRPC handler sees
	Ticket      uint64
	At          time.Time
	N           int // 1-based index of this request on this server
	DecodeErr   string
	CtxDone     <-chan struct{} // closed when the client gives up (handler context)
}

// Response scripts what the collector answers.
type Response struct {
	// HTTP
	Status    int
	Header    map[string]string
	Body      []byte
	CloseConn bool // hijack and close without answering (temporary network error)
	// gRPC
	GRPC *status.Status // nil = OK
	// common
	Delay               time.Duration // wait before answering (aborted when the client goes away)
	PartialMsg          string        // success with partial-success message
	PartialN            int64
	HoldUntilClientGone bool          // never answer: hold until the client hangs up; then record when
	Chunked             bool          // HTTP: flush the header first so that the body is sent chunked (no Content-Length)
	HoldMax             time.Duration // with HoldUntilClientGone: stop holding after this long (0 = forever)
}

type Script func(r *Request) Response

type Server struct {
	Name       string
	Addr       string // host:port
	mu         sync.Mutex
	reqs       []*Request
	script     Script
	grpcSrv    *grpc.Server
	httpSrv    *http.Server
	lis        net.Listener
	GoneAt     []time.Time // for HoldUntilClientGone: when the client went away
	AnsweredAt []time.Time
}

func (s *Server) Requests() []*Request {
	s.mu.Lock()
	defer s.mu.Unlock()
	return append([]*Request(nil), s.reqs...)
}

func (s *Server) Count() int {
	s.mu.Lock()
	defer s.mu.Unlock()
	return len(s.reqs)
}

func (s *Server) record(r *Request) int {
	s.mu.Lock()
	defer s.mu.Unlock()
	s.reqs = append(s.reqs, r)
	r.N = len(s.reqs)
	return r.N
}

func canon(m proto.Message) []byte {
	b, _ := proto.MarshalOptions{Deterministic: true}.Marshal(m)
	return b
}

// ------------------------------------------------------------------------------------------ gRPC

type compKey struct{}

type statsHandler struct{}

func (statsHandler) TagRPC(ctx context.Context, _ *stats.RPCTagInfo) context.Context {
	return context.WithValue(ctx, compKey{}, new(string))
}
func (statsHandler) HandleRPC(ctx context.Context, st stats.RPCStats) {
	if h, ok := st.(*stats.InHeader); ok {
		if p, ok := ctx.Value(compKey{}).(*string); ok {
			*p = h.Compression
		}
	}
}
func (statsHandler) TagConn(ctx context.Context, _ *stats.ConnTagInfo) context.Context { return ctx }
func (statsHandler) HandleConn(context.Context, stats.ConnStats)                       {}

type traceSvc struct {
	coltracepb.UnimplementedTraceServiceServer
	s *Server
}
type metricSvc struct {
	colmetricpb.UnimplementedMetricsServiceServer
	s *Server
}
type logSvc struct {
	collogpb.UnimplementedLogsServiceServer
	s *Server
}

func (s *Server) handleGRPC(ctx context.Context, signal string, msg proto.Message) (Response, error) {
	r := &Request{Server: s.Name, Transport: "grpc", Signal: signal, Msg: proto.Clone(msg), Canon: canon(msg), Ticket: vf.Tick(), At: time.Now(), CtxDone: ctx.Done()}
	if md, ok := metadata.FromIncomingContext(ctx); ok {
		r.Header = map[string][]string(md)
	}
	if p, ok := ctx.Value(compKey{}).(*string); ok {
		r.Compression = *p
	}
	if dl, ok := ctx.Deadline(); ok {
		r.HasDeadline, r.Deadline = true, time.Until(dl)
	}
	s.record(r)
	resp := Response{}
	if s.script != nil {
		resp = s.script(r)
	}
	if resp.HoldUntilClientGone {
		var capC <-chan time.Time
		if resp.HoldMax > 0 {
			capC = time.After(resp.HoldMax)
		}
		select {
		case <-ctx.Done():
			s.mu.Lock()
			s.GoneAt = append(s.GoneAt, time.Now())
			s.mu.Unlock()
			return resp, status.FromContextError(ctx.Err()).Err()
		case <-capC:
			return resp, nil
		}
	}
	if resp.Delay > 0 {
		select {
		case <-time.After(resp.Delay):
		case <-ctx.Done():
			return resp, status.FromContextError(ctx.Err()).Err()
		}
	}
	s.mu.Lock()
	s.AnsweredAt = append(s.AnsweredAt, time.Now())
	s.mu.Unlock()
	if resp.GRPC != nil {
		return resp, resp.GRPC.Err()
	}
	return resp, nil
}

func (t traceSvc) Export(ctx context.Context, req *coltracepb.ExportTraceServiceRequest) (*coltracepb.ExportTraceServiceResponse, error) {
	resp, err := t.s.handleGRPC(ctx, "traces", req)
	if err != nil {
		return nil, err
	}
	out := &coltracepb.ExportTraceServiceResponse{}
	if resp.PartialMsg != "" || resp.PartialN != 0 {
		out.PartialSuccess = &coltracepb.ExportTracePartialSuccess{RejectedSpans: resp.PartialN, ErrorMessage: resp.PartialMsg}
	}
	return out, nil
}

func (t metricSvc) Export(ctx context.Context, req *colmetricpb.ExportMetricsServiceRequest) (*colmetricpb.ExportMetricsServiceResponse, error) {
	resp, err := t.s.handleGRPC(ctx, "metrics", req)
	if err != nil {
		return nil, err
	}
	out := &colmetricpb.ExportMetricsServiceResponse{}
	if resp.PartialMsg != "" || resp.PartialN != 0 {
		out.PartialSuccess = &colmetricpb.ExportMetricsPartialSuccess{RejectedDataPoints: resp.PartialN, ErrorMessage: resp.PartialMsg}
	}
	return out, nil
}

func (t logSvc) Export(ctx context.Context, req *collogpb.ExportLogsServiceRequest) (*collogpb.ExportLogsServiceResponse, error) {
	resp, err := t.s.handleGRPC(ctx, "logs", req)
	if err != nil {
		return nil, err
	}
	out := &collogpb.ExportLogsServiceResponse{}
	if resp.PartialMsg != "" || resp.PartialN != 0 {
		out.PartialSuccess = &collogpb.ExportLogsPartialSuccess{RejectedLogRecords: resp.PartialN, ErrorMessage: resp.PartialMsg}
	}
	return out, nil
}

// NewGRPC starts a gRPC collector on a loopback port.
func NewGRPC(name string, script Script) (*Server, error) {
	lis, err := net.Listen("tcp", "127.0.0.1:0")
	if err != nil {
		return nil, err
	}
	s := &Server{Name: name, Addr: lis.Addr().String(), script: script, lis: lis}
	s.grpcSrv = grpc.NewServer(grpc.StatsHandler(statsHandler{}))
	coltracepb.RegisterTraceServiceServer(s.grpcSrv, traceSvc{s: s})
	colmetricpb.RegisterMetricsServiceServer(s.grpcSrv, metricSvc{s: s})
	collogpb.RegisterLogsServiceServer(s.grpcSrv, logSvc{s: s})
	go s.grpcSrv.Serve(lis)
	return s, nil
}

// ------------------------------------------------------------------------------------------ HTTP

func (s *Server) serveHTTP(w http.ResponseWriter, req *http.Request) {
	body, _ := io.ReadAll(req.Body)
	r := &Request{Server: s.Name, Transport: "http", Header: map[string][]string(req.Header.Clone()), Path: req.URL.Path, Ticket: vf.Tick(), At: time.Now(), CtxDone: req.Context().Done()}
	r.Compression = req.Header.Get("Content-Encoding")
	if r.Compression == "gzip" {
		zr, err := gzip.NewReader(bytes.NewReader(body))
		if err != nil {
			r.DecodeErr = "gzip: " + err.Error()
		} else {
			body, err = io.ReadAll(zr)
			if err != nil {
				r.DecodeErr = "gzip: " + err.Error()
			}
		}
	}
	var msg proto.Message
	switch {
	case strings.HasSuffix(req.URL.Path, "/v1/traces"):
		r.Signal, msg = "traces", &coltracepb.ExportTraceServiceRequest{}
	case strings.HasSuffix(req.URL.Path, "/v1/metrics"):
		r.Signal, msg = "metrics", &colmetricpb.ExportMetricsServiceRequest{}
	case strings.HasSuffix(req.URL.Path, "/v1/logs"):
		r.Signal, msg = "logs", &collogpb.ExportLogsServiceRequest{}
	default:
		// unknown path: try every message type (C20 uses custom URL paths)
		for _, cand := range []struct {
			sig string
			m   proto.Message
		}{{"traces", &coltracepb.ExportTraceServiceRequest{}}, {"metrics", &colmetricpb.ExportMetricsServiceRequest{}}, {"logs", &collogpb.ExportLogsServiceRequest{}}} {
			if proto.Unmarshal(body, cand.m) == nil {
				r.Signal, msg = cand.sig, cand.m
				break
			}
		}
	}
	if msg != nil && r.DecodeErr == "" {
		if err := proto.Unmarshal(body, msg); err != nil {
			r.DecodeErr = "proto: " + err.Error()
		} else {
			r.Msg, r.Canon = msg, canon(msg)
		}
	}
	s.record(r)
	resp := Response{Status: 200}
	if s.script != nil {
		resp = s.script(r)
	}
	if resp.HoldUntilClientGone {
		var capC <-chan time.Time
		if resp.HoldMax > 0 {
			capC = time.After(resp.HoldMax)
		}
		select {
		case <-req.Context().Done():
			s.mu.Lock()
			s.GoneAt = append(s.GoneAt, time.Now())
			s.mu.Unlock()
			return
		case <-capC:
			w.WriteHeader(200)
			return
		}
	}
	if resp.Delay > 0 {
		select {
		case <-time.After(resp.Delay):
		case <-req.Context().Done():
			return
		}
	}
	if resp.CloseConn {
		if hj, ok := w.(http.Hijacker); ok {
			if conn, _, err := hj.Hijack(); err == nil {
				if tc, ok := conn.(*net.TCPConn); ok {
					tc.SetLinger(0)
				}
				conn.Close()
				return
			}
		}
	}
	for k, v := range resp.Header {
		w.Header().Set(k, v)
	}
	st := resp.Status
	if st == 0 {
		st = 200
	}
	out := resp.Body
	if out == nil && (resp.PartialMsg != "" || resp.PartialN != 0) {
		switch r.Signal {
		case "traces":
			out, _ = proto.Marshal(&coltracepb.ExportTraceServiceResponse{PartialSuccess: &coltracepb.ExportTracePartialSuccess{RejectedSpans: resp.PartialN, ErrorMessage: resp.PartialMsg}})
		case "metrics":
			out, _ = proto.Marshal(&colmetricpb.ExportMetricsServiceResponse{PartialSuccess: &colmetricpb.ExportMetricsPartialSuccess{RejectedDataPoints: resp.PartialN, ErrorMessage: resp.PartialMsg}})
		case "logs":
			out, _ = proto.Marshal(&collogpb.ExportLogsServiceResponse{PartialSuccess: &collogpb.ExportLogsPartialSuccess{RejectedLogRecords: resp.PartialN, ErrorMessage: resp.PartialMsg}})
		}
	}
	if out != nil {
		w.Header().Set("Content-Type", "application/x-protobuf")
	}
	s.mu.Lock()
	s.AnsweredAt = append(s.AnsweredAt, time.Now())
	s.mu.Unlock()
	w.WriteHeader(st)
	if resp.Chunked {
		if f, ok := w.(http.Flusher); ok {
			f.Flush()
		}
	}
	w.Write(out)
}

// NewHTTP starts an HTTP collector on a loopback port; it answers on every path.
func NewHTTP(name string, script Script) (*Server, error) {
	lis, err := net.Listen("tcp", "127.0.0.1:0")
	if err != nil {
		return nil, err
	}
	s := &Server{Name: name, Addr: lis.Addr().String(), script: script, lis: lis}
	s.httpSrv = &http.Server{Handler: http.HandlerFunc(s.serveHTTP)}
	go s.httpSrv.Serve(lis)
	return s, nil
}

func (s *Server) Close() {
	if s.grpcSrv != nil {
		s.grpcSrv.Stop()
	}
	if s.httpSrv != nil {
		s.httpSrv.Close()
	}
}
