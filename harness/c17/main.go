// C17 — log records obey attribute count and value-length limits for every edit sequence.
package main

import (
	"context"
	"fmt"
	"sort"
	"strings"
	"sync"

	"go.opentelemetry.io/otel/log"
	sdklog "go.opentelemetry.io/otel/sdk/log"

	"verifharness/vf"
)

// ---------------------------------------------------------------------------------------------
// value generation / deep clone / rendering

var keyPool = []string{"a", "b", "c", "d", "e", "f", "g", "h", "i", "j", "k", "l", "m", "", "日本", "x y"}

func genString(r *vf.RNG, limit int) string {
	n := r.Intn(8)
	if limit > 0 && r.Bool() {
		n = limit - 1 + r.Intn(3)
	}
	if n < 0 {
		n = 0
	}
	switch r.Intn(7) {
	case 0:
		return r.ASCIIFrom("abcdefghij", n)
	case 1:
		return strings.Repeat("�", r.Intn(3)) + r.ASCIIFrom("ab", n)
	case 2:
		return r.HostileString(n)
	case 3:
		return r.UTF8String(n)
	case 4:
		return r.ASCIIFrom("ab", n/2) + vf.Pick(r, []string{"\xff", "\xc3", "\xe2\x82", "\xf0\x9f\x98", "\x80"}) + r.UTF8String(n/2+1)
	case 5:
		return strings.Repeat(vf.Pick(r, []string{"é", "世", "😀", "�"}), n)
	default:
		return r.ASCIIFrom("ab", r.Intn(3)) + "\xff�" + r.UTF8String(n)
	}
}

func genValue(r *vf.RNG, limit, depth int, nestedDups bool) log.Value {
	k := r.Intn(10)
	if depth >= 3 && k >= 7 {
		k = r.Intn(7)
	}
	switch k {
	case 0, 1, 2:
		return log.StringValue(genString(r, limit))
	case 3:
		return log.Int64Value(r.InterestingInt64())
	case 4:
		return log.Float64Value(float64(r.Range(-9, 9)) / 2)
	case 5:
		return log.BoolValue(r.Bool())
	case 6:
		if r.Bool() {
			return log.BytesValue(r.Bytes(r.Intn(12)))
		}
		return log.Value{}
	case 7, 8:
		n := r.Intn(4)
		vs := make([]log.Value, n)
		for i := range vs {
			vs[i] = genValue(r, limit, depth+1, nestedDups)
		}
		return log.SliceValue(vs...)
	default:
		n := r.Intn(4)
		kvs := make([]log.KeyValue, 0, n)
		used := map[string]bool{}
		for i := 0; i < n; i++ {
			key := vf.Pick(r, keyPool[:6])
			if used[key] && !nestedDups {
				continue
			}
			used[key] = true
			kvs = append(kvs, log.KeyValue{Key: key, Value: genValue(r, limit, depth+1, nestedDups)})
		}
		return log.MapValue(kvs...)
	}
}

func deepClone(v log.Value) log.Value {
	switch v.Kind() {
	case log.KindSlice:
		src := v.AsSlice()
		out := make([]log.Value, len(src))
		for i := range src {
			out[i] = deepClone(src[i])
		}
		return log.SliceValue(out...)
	case log.KindMap:
		src := v.AsMap()
		out := make([]log.KeyValue, len(src))
		for i := range src {
			out[i] = log.KeyValue{Key: src[i].Key, Value: deepClone(src[i].Value)}
		}
		return log.MapValue(out...)
	case log.KindBytes:
		return log.BytesValue(append([]byte(nil), v.AsBytes()...))
	}
	return v
}

func cloneKVs(kvs []log.KeyValue) []log.KeyValue {
	out := make([]log.KeyValue, len(kvs))
	for i := range kvs {
		out[i] = log.KeyValue{Key: kvs[i].Key, Value: deepClone(kvs[i].Value)}
	}
	return out
}

func render(v log.Value) string {
	switch v.Kind() {
	case log.KindString:
		return "S" + vf.Quote(v.AsString())
	case log.KindSlice:
		var p []string
		for _, e := range v.AsSlice() {
			p = append(p, render(e))
		}
		return "[" + strings.Join(p, ",") + "]"
	case log.KindMap:
		var p []string
		for _, kv := range v.AsMap() {
			p = append(p, vf.Quote(kv.Key)+":"+render(kv.Value))
		}
		return "{" + strings.Join(p, ",") + "}"
	case log.KindBytes:
		return fmt.Sprintf("B%x", v.AsBytes())
	case log.KindEmpty:
		return "nil"
	}
	return v.String()
}

func renderKVs(kvs []log.KeyValue) string {
	var p []string
	for _, kv := range kvs {
		p = append(p, vf.Quote(kv.Key)+"="+render(kv.Value))
	}
	return strings.Join(p, "; ")
}

// nestedDupCount: number of duplicate-key removals a full recursive de-duplication of v performs.
func nestedDupCount(v log.Value) int {
	n := 0
	switch v.Kind() {
	case log.KindSlice:
		for _, e := range v.AsSlice() {
			n += nestedDupCount(e)
		}
	case log.KindMap:
		last := map[string]log.Value{}
		for _, kv := range v.AsMap() {
			if _, ok := last[kv.Key]; ok {
				n++
			}
			last[kv.Key] = kv.Value
		}
		for _, e := range last {
			n += nestedDupCount(e)
		}
	}
	return n
}

// checkValue compares a held value with the originally supplied one: same structure, strings
// truncated per the independent predicate, maps de-duplicated last-wins.
func checkValue(limit int, orig, got log.Value, path string) (bool, string) {
	if orig.Kind() != got.Kind() {
		return false, path + ": kind changed"
	}
	switch orig.Kind() {
	case log.KindString:
		if ok, why := vf.TruncOK(limit, orig.AsString(), got.AsString()); !ok {
			return false, fmt.Sprintf("%s: %s (orig %s got %s)", path, why, vf.Quote(orig.AsString()), vf.Quote(got.AsString()))
		}
		return true, ""
	case log.KindSlice:
		o, g := orig.AsSlice(), got.AsSlice()
		if len(o) != len(g) {
			return false, path + ": slice length changed"
		}
		for i := range o {
			if ok, why := checkValue(limit, o[i], g[i], fmt.Sprintf("%s[%d]", path, i)); !ok {
				return false, why
			}
		}
		return true, ""
	case log.KindMap:
		last := map[string]log.Value{}
		for _, kv := range orig.AsMap() {
			last[kv.Key] = kv.Value
		}
		seen := map[string]bool{}
		for _, kv := range got.AsMap() {
			if seen[kv.Key] {
				return false, path + ": nested map holds key " + vf.Quote(kv.Key) + " twice"
			}
			seen[kv.Key] = true
			ov, ok := last[kv.Key]
			if !ok {
				return false, path + ": nested key not supplied"
			}
			if ok2, why := checkValue(limit, ov, kv.Value, path+"."+kv.Key); !ok2 {
				return false, why
			}
		}
		if len(seen) != len(last) {
			return false, path + ": nested keys lost"
		}
		return true, ""
	}
	if !orig.Equal(got) {
		return false, path + ": value differs"
	}
	return true, ""
}

// ---------------------------------------------------------------------------------------------
// model

type model struct {
	cnt, length int
	keys        []string
	vals        map[string]log.Value // original (untruncated) last supplied value
	overwritten map[string]bool      // key last written by overwriting an existing entry via AddAttributes
	offered     int
	nestedDups  int // upper bound on nested duplicate removals that may be added to dropped
	// evidence
	hitLimit, overwroteFront, overwroteBack, midCall bool
}

func newModel(cnt, length int) *model {
	return &model{cnt: cnt, length: length, vals: map[string]log.Value{}, overwritten: map[string]bool{}}
}

func (m *model) clone() *model {
	c := newModel(m.cnt, m.length)
	c.keys = append([]string(nil), m.keys...)
	for k, v := range m.vals {
		c.vals[k] = v
	}
	for k, v := range m.overwritten {
		c.overwritten[k] = v
	}
	c.offered, c.nestedDups = m.offered, m.nestedDups
	return c
}

func (m *model) set(attrs []log.KeyValue) {
	m.keys, m.vals, m.overwritten = nil, map[string]log.Value{}, map[string]bool{}
	m.offered, m.nestedDups = 0, 0
	m.add(attrs)
}

func (m *model) add(attrs []log.KeyValue) {
	m.offered += len(attrs)
	for _, a := range attrs {
		m.nestedDups += nestedDupCount(a.Value)
	}
	// within-call de-duplication: last wins, first position
	var order []string
	last := map[string]log.Value{}
	for _, a := range attrs {
		if _, ok := last[a.Key]; !ok {
			order = append(order, a.Key)
		}
		last[a.Key] = a.Value
	}
	for i, k := range order {
		if _, ok := m.vals[k]; ok {
			for j, kk := range m.keys {
				if kk == k {
					if j < 5 {
						m.overwroteFront = true
					} else {
						m.overwroteBack = true
					}
				}
			}
			m.vals[k] = last[k]
			m.overwritten[k] = true
			continue
		}
		if m.cnt > 0 && len(m.keys) >= m.cnt {
			m.hitLimit = true
			if i > 0 {
				m.midCall = true
			}
			continue
		}
		m.keys = append(m.keys, k)
		m.vals[k] = last[k]
		delete(m.overwritten, k)
	}
}

type capture struct {
	fn func(r *sdklog.Record)
}

func (c *capture) OnEmit(_ context.Context, r *sdklog.Record) error { c.fn(r); return nil }
func (c *capture) Shutdown(context.Context) error                   { return nil }
func (c *capture) ForceFlush(context.Context) error                 { return nil }

func main() {
	vf.Main("C17", "exploration", func(c *vf.Ctx) {
		c.Rule = "seeded programs of 1-12 SetAttributes/AddAttributes calls (0-14 key-values per call over a 16-key alphabet, duplicates inside and across calls, nested slices/maps 3 deep, strings around the length limit with invalid bytes and literal U+FFFD) applied to records captured during Emit (limits from the provider, Emit's one-AddAttributes-per-attribute path included) and to clones; count limit in {-1,0,1,4,5,6,128}, length limit in {-1,0,1,3,128}; argument slices scribbled over after the call; earlier limit options overridden by later ones. distinct = distinct (count-limit class, length-limit class, paths: hit-limit/mid-call/overwrite-front/overwrite-back/clone) signatures"
		c.Assume = []string{"key order is not asserted (only the set of retained keys)", "when nested maps carry duplicate keys the dropped count is asserted as a range [top-level drops, top-level drops + nested removals]"}

		c.Cases("programs", c.N(80_000, 1_500_000), 0, func(k *vf.Case) {
			r := k.R
			cnt := vf.Pick(r, []int{-1, 0, 1, 4, 5, 6, 128})
			length := vf.Pick(r, []int{-1, -1, 0, 1, 3, 128})
			nestedDups := r.Chance(1, 4)
			var prog []string
			logf := func(f string, a ...any) { prog = append(prog, fmt.Sprintf(f, a...)) }

			genKVs := func(n int) []log.KeyValue {
				kvs := make([]log.KeyValue, n)
				for i := range kvs {
					kvs[i] = log.KeyValue{Key: vf.Pick(r, keyPool), Value: genValue(r, length, 0, nestedDups)}
				}
				return kvs
			}

			verify := func(what string, rec *sdklog.Record, m *model) bool {
				ok := true
				fail := func(class, key, detail string) {
					ok = false
					var held []log.KeyValue
					rec.WalkAttributes(func(kv log.KeyValue) bool { held = append(held, kv); return true })
					k.Violate(class, key, fmt.Sprintf("%s: %s\nlimits count=%d length=%d\nprogram:\n%s\nheld: %s\ndropped=%d", what, detail, cnt, length, strings.Join(prog, "\n"), renderKVs(held), rec.DroppedAttributes()), nil)
				}
				seen := map[string]bool{}
				n := 0
				rec.WalkAttributes(func(kv log.KeyValue) bool {
					n++
					if seen[kv.Key] {
						fail("key-held-twice", "", vf.Quote(kv.Key))
					}
					seen[kv.Key] = true
					orig, in := m.vals[kv.Key]
					if !in {
						fail("unexpected-key", limClass(cnt), fmt.Sprintf("key %s not among the earliest keys %q", vf.Quote(kv.Key), m.keys))
						return true
					}
					if good, why := checkValue(length, orig, kv.Value, vf.Quote(kv.Key)); !good {
						cls := "value-mismatch"
						if strings.Contains(why, "character") || strings.Contains(why, "invalid bytes") || strings.Contains(why, "prefix") {
							cls = "value-length-limit"
						}
						if strings.Contains(why, "twice") {
							cls = "nested-duplicate-key"
						}
						key := "new"
						if m.overwritten[kv.Key] {
							key = "overwrite of an existing key"
						}
						fail(cls, key, why)
					}
					return true
				})
				if n != rec.AttributesLen() {
					fail("attributes-len-mismatch", "", fmt.Sprintf("walk saw %d, AttributesLen %d", n, rec.AttributesLen()))
				}
				if n != len(m.keys) {
					fail("retained-keys-mismatch", limClass(cnt), fmt.Sprintf("holds %d keys, model %d %q", n, len(m.keys), m.keys))
				}
				if cnt >= 0 && n > cnt {
					fail("count-limit-exceeded", limClass(cnt), fmt.Sprintf("%d attributes > limit %d", n, cnt))
				}
				lo := m.offered - n
				hi := lo + m.nestedDups
				if d := rec.DroppedAttributes(); d < lo || d > hi {
					fail("dropped-accounting", limClass(cnt), fmt.Sprintf("len %d + dropped %d != offered %d (nested removals allowed: %d)", n, d, m.offered, m.nestedDups))
				}
				return ok
			}

			apply := func(rec *sdklog.Record, m *model, who string) {
				n := r.Intn(15)
				if r.Chance(1, 6) {
					n = 0
				}
				kvs := genKVs(n)
				orig := cloneKVs(kvs)
				if r.Chance(1, 4) {
					logf("%s.SetAttributes(%s)", who, renderKVs(orig))
					rec.SetAttributes(kvs...)
					m.set(orig)
				} else {
					logf("%s.AddAttributes(%s)", who, renderKVs(orig))
					rec.AddAttributes(kvs...)
					m.add(orig)
				}
				// the caller's slice is the caller's again once the call has returned: it is reused as scratch
				for i := range kvs {
					kvs[i] = log.String("scribbled-by-the-caller", "0123456789012345678901234567890123456789")
				}
			}

			m := newModel(cnt, length)
			// emitted attributes
			var apiRec log.Record
			emitted := genKVs(r.Intn(9))
			emOrig := cloneKVs(emitted)
			apiRec.AddAttributes(emitted...)
			apiRec.SetBody(log.StringValue("body"))
			logf("Emit(%s)", renderKVs(emOrig))
			// Emit offers the attributes one at a time
			for _, a := range emOrig {
				m.add([]log.KeyValue{a})
			}
			cloned := false
			cp := &capture{fn: func(rec *sdklog.Record) {
				if !verify("after Emit", rec, m) {
					return
				}
				nops := 1 + r.Intn(12)
				var cl sdklog.Record
				var mc *model
				for i := 0; i < nops; i++ {
					if mc == nil && r.Chance(1, 6) {
						cl = rec.Clone()
						mc = m.clone()
						cloned = true
						logf("clone")
					}
					if mc != nil && r.Bool() {
						apply(&cl, mc, "clone")
					} else {
						apply(rec, m, "rec")
					}
					if !verify(fmt.Sprintf("original after op %d", i), rec, m) {
						return
					}
					if mc != nil && !verify(fmt.Sprintf("clone after op %d", i), &cl, mc) {
						return
					}
				}
			}}
			lopts := []sdklog.LoggerProviderOption{sdklog.WithProcessor(cp)}
			if r.Bool() {
				// an earlier option that a later one overrides: the last one given counts, "unlimited" included
				lopts = append(lopts, sdklog.WithAttributeValueLengthLimit(vf.Pick(r, []int{0, 2, 7})), sdklog.WithAttributeCountLimit(vf.Pick(r, []int{1, 3})))
			}
			lopts = append(lopts, sdklog.WithAttributeCountLimit(cnt), sdklog.WithAttributeValueLengthLimit(length))
			lp := sdklog.NewLoggerProvider(lopts...)
			k.Guard("panic", "", func() { lp.Logger("c17").Emit(context.Background(), apiRec) })

			flag := func(b bool, name string) string {
				if b {
					k.C.Count("programs_"+name, 1)
					return "1"
				}
				return "0"
			}
			sig := flag(m.hitLimit, "hit_count_limit") + flag(m.midCall, "limit_hit_mid_call") + flag(m.overwroteFront, "overwrote_front") +
				flag(m.overwroteBack, "overwrote_back") + flag(cloned, "cloned") + flag(nestedDups, "nested_duplicate_keys")
			k.C.Sig(fmt.Sprintf("%s|%s|%s", sig, limClass(cnt), limClass(length)))
			k.C.Count("calls", int64(len(prog)))
			if k.Index < 2 {
				k.C.Sample(map[string]any{"count_limit": cnt, "length_limit": length, "program": prog})
			}
		})
		// the emitting path with one Logger shared by several goroutines: every record still holds exactly what
		// was offered for it (each record's attributes carry that record's own tag)
		c.Cases("concurrent-emit", c.N(300, 4000), 4, func(k *vf.Case) {
			r := k.R
			cnt := vf.Pick(r, []int{-1, 0, 3, 6, 128})
			var mu sync.Mutex
			bad := ""
			seen := 0
			cp := &capture{fn: func(rec *sdklog.Record) {
				tag := rec.Body().AsString()
				n := 0
				wrong := ""
				rec.WalkAttributes(func(kv log.KeyValue) bool {
					n++
					if kv.Value.AsString() != tag {
						wrong = fmt.Sprintf("record %s holds %s=%q", tag, kv.Key, kv.Value.AsString())
					}
					return true
				})
				var offered int
				fmt.Sscanf(tag[strings.LastIndexByte(tag, '/')+1:], "%d", &offered)
				mu.Lock()
				seen++
				if wrong != "" && bad == "" {
					bad = wrong
				}
				if n+rec.DroppedAttributes() != offered && bad == "" {
					bad = fmt.Sprintf("record %s: %d attributes held + %d dropped, %d offered", tag, n, rec.DroppedAttributes(), offered)
				}
				if n != rec.AttributesLen() && bad == "" {
					bad = fmt.Sprintf("record %s: AttributesLen %d, walked %d", tag, rec.AttributesLen(), n)
				}
				mu.Unlock()
			}}
			lp := sdklog.NewLoggerProvider(sdklog.WithProcessor(cp), sdklog.WithAttributeCountLimit(cnt))
			lg := lp.Logger("shared")
			G := vf.Pick(r, []int{2, 4, 8})
			per := 50 + r.Intn(200)
			var wg sync.WaitGroup
			release := make(chan struct{})
			for g := 0; g < G; g++ {
				seed := r.U64()
				wg.Add(1)
				go func(g int) {
					defer wg.Done()
					defer func() {
						if rec := recover(); rec != nil {
							mu.Lock()
							if bad == "" {
								bad = fmt.Sprintf("panic in Emit: %v", rec)
							}
							mu.Unlock()
						}
					}()
					gr := vf.NewRNG(seed)
					<-release
					for i := 0; i < per; i++ {
						na := gr.Intn(12)
						tag := fmt.Sprintf("g%d-%d/%d", g, i, na)
						var rec log.Record
						rec.SetBody(log.StringValue(tag))
						for a := 0; a < na; a++ {
							rec.AddAttributes(log.String(fmt.Sprintf("k%d", a), tag))
						}
						lg.Emit(context.Background(), rec)
					}
				}(g)
			}
			close(release)
			wg.Wait()
			if bad != "" {
				k.Violate("concurrent-emit-mixed-records", limClass(cnt), bad, nil)
			}
			if seen != G*per {
				k.Violate("concurrent-emit-lost-records", "", fmt.Sprintf("%d of %d", seen, G*per), nil)
			}
			k.C.Count("concurrent_emit_cases", 1)
			k.C.Sig(fmt.Sprintf("concurrent-emit|%d|%s", G, limClass(cnt)))
		})
		c.Floor("concurrent_emit_cases", 100)
		c.Floor("programs_hit_count_limit", 1000)
		c.Floor("programs_overwrote_front", 1000)
		c.Floor("programs_overwrote_back", 1000)
		c.Floor("programs_cloned", 1000)
	})
}

func limClass(v int) string {
	switch {
	case v < 0:
		return "unlimited"
	case v == 0:
		return "limit 0"
	}
	return fmt.Sprintf("limit %d", v)
}

var _ = sort.Strings
