// C16 — global providers forward to the installed SDK without loss or deadlock.
// One trial per child process: delegation of the global providers happens once per process.
package main

import (
	"context"
	"errors"
	"fmt"
	"runtime"
	"strings"
	"sync"
	"sync/atomic"
	"time"

	"github.com/go-logr/logr"
	"go.opentelemetry.io/otel"
	"go.opentelemetry.io/otel/attribute"
	"go.opentelemetry.io/otel/metric"
	"go.opentelemetry.io/otel/metric/noop"
	"go.opentelemetry.io/otel/propagation"
	sdkmetric "go.opentelemetry.io/otel/sdk/metric"
	"go.opentelemetry.io/otel/sdk/metric/metricdata"
	sdktrace "go.opentelemetry.io/otel/sdk/trace"
	"go.opentelemetry.io/otel/trace"

	"verifharness/vf"
)

type spanSink struct {
	mu     sync.Mutex
	names  map[string]int
	scopes map[string]string // span name -> the instrumentation scope the SDK was asked for
}

func (s *spanSink) OnStart(context.Context, sdktrace.ReadWriteSpan) {}
func (s *spanSink) OnEnd(sp sdktrace.ReadOnlySpan) {
	s.mu.Lock()
	s.names[sp.Name()]++
	if s.scopes != nil {
		sc := sp.InstrumentationScope()
		s.scopes[sp.Name()] = fmt.Sprintf("%s|%s|%s|%s", sc.Name, sc.Version, sc.SchemaURL, sc.Attributes.Encoded(attribute.DefaultEncoder()))
	}
	s.mu.Unlock()
}
func (s *spanSink) Shutdown(context.Context) error   { return nil }
func (s *spanSink) ForceFlush(context.Context) error { return nil }

type syncHandle struct {
	id   int
	kind int
	rec  func(ctx context.Context, v int64, o metric.MeasurementOption)
	name string
}

type asyncHandle struct {
	id    int
	name  string
	meter metric.Meter // the handle the instrument was created through (obtained before or after installation)
	oi   metric.Int64Observable
	of   metric.Float64Observable
}

type regHandle struct {
	rejected     bool // registered with an observable the SDK must reject at delegation
	id           int
	reg          metric.Registration
	invocations  *atomic.Int64
	unregCall    uint64
	unregRet     uint64
	unregistered bool
	inst         asyncHandle
}

// refusingProvider wraps the SDK's MeterProvider and refuses every instrument whose name starts with
// "refused" the way a policy-enforcing provider might: (nil, error).
type refusingProvider struct{ metric.MeterProvider }

func (p refusingProvider) Meter(name string, opts ...metric.MeterOption) metric.Meter {
	return refusingMeter{p.MeterProvider.Meter(name, opts...)}
}

type refusingMeter struct{ metric.Meter }

var errRefused = errors.New("instrument refused by policy")

func (m refusingMeter) Int64Counter(name string, opts ...metric.Int64CounterOption) (metric.Int64Counter, error) {
	if strings.HasPrefix(name, "refused") {
		return nil, errRefused
	}
	return m.Meter.Int64Counter(name, opts...)
}

func (m refusingMeter) Int64ObservableGauge(name string, opts ...metric.Int64ObservableGaugeOption) (metric.Int64ObservableGauge, error) {
	if strings.HasPrefix(name, "refused") {
		return nil, errRefused
	}
	return m.Meter.Int64ObservableGauge(name, opts...)
}

var kindNames = []string{"i64counter", "f64counter", "i64updown", "f64updown", "i64hist", "f64hist", "i64gauge", "f64gauge"}

func runTrial(k *vf.Case) {
	r := k.R
	procs := vf.Pick(r, []int{2, 4, 16})
	runtime.GOMAXPROCS(procs)
	ctx := context.Background()
	reader := sdkmetric.NewManualReader()
	reader2 := sdkmetric.NewManualReader()
	smp := sdkmetric.NewMeterProvider(sdkmetric.WithReader(reader), sdkmetric.WithReader(reader2))
	// in one trial of five the provider that gets installed wraps the SDK and refuses some instruments with
	// (nil, error), as a policy-enforcing provider would: installation must cope, the rest must be connected
	var toInstall metric.MeterProvider = smp
	refusing := r.Chance(1, 5)
	if refusing {
		toInstall = refusingProvider{smp}
		k.C.Count("trials_with_a_refusing_provider", 1)
	}
	sink := &spanSink{names: map[string]int{}, scopes: map[string]string{}}
	stp := sdktrace.NewTracerProvider(sdktrace.WithSpanProcessor(sink), sdktrace.WithSampler(sdktrace.AlwaysSample()))

	var mu sync.Mutex
	var syncs []syncHandle
	var asyncs []asyncHandle
	var regs []*regHandle
	var tracers []trace.Tracer
	var tracerNames, tracerScopes []string
	nextID := 0
	newID := func() int {
		mu.Lock()
		defer mu.Unlock()
		nextID++
		return nextID
	}
	nMeters := 1 + r.Intn(4)
	meterName := func(i int) string { return fmt.Sprintf("m%d", i) }
	createSync := func(gr *vf.RNG) {
		m := otel.Meter(meterName(gr.Intn(nMeters)))
		kind := gr.Intn(8)
		id := newID()
		num := gr.Intn(40)
		name := fmt.Sprintf("%s_%d", kindNames[kind], num)
		// unit and description are a function of the name: asking for the same instrument again is asking for
		// the identical instrument, options included
		unit, desc := []string{"", "ms", "By"}[num%3], []string{"", "some description"}[num%2]
		h := syncHandle{id: id, kind: kind, name: name}
		switch kind {
		case 0:
			c, _ := m.Int64Counter(name, metric.WithUnit(unit), metric.WithDescription(desc))
			h.rec = func(ctx context.Context, v int64, o metric.MeasurementOption) { c.Add(ctx, v, o.(metric.AddOption)) }
		case 1:
			c, _ := m.Float64Counter(name, metric.WithUnit(unit), metric.WithDescription(desc))
			h.rec = func(ctx context.Context, v int64, o metric.MeasurementOption) {
				c.Add(ctx, float64(v), o.(metric.AddOption))
			}
		case 2:
			c, _ := m.Int64UpDownCounter(name, metric.WithUnit(unit), metric.WithDescription(desc))
			h.rec = func(ctx context.Context, v int64, o metric.MeasurementOption) { c.Add(ctx, v, o.(metric.AddOption)) }
		case 3:
			c, _ := m.Float64UpDownCounter(name, metric.WithUnit(unit), metric.WithDescription(desc))
			h.rec = func(ctx context.Context, v int64, o metric.MeasurementOption) {
				c.Add(ctx, float64(v), o.(metric.AddOption))
			}
		case 4:
			c, _ := m.Int64Histogram(name, metric.WithUnit(unit), metric.WithDescription(desc))
			h.rec = func(ctx context.Context, v int64, o metric.MeasurementOption) {
				c.Record(ctx, v, o.(metric.RecordOption))
			}
		case 5:
			c, _ := m.Float64Histogram(name, metric.WithUnit(unit), metric.WithDescription(desc))
			h.rec = func(ctx context.Context, v int64, o metric.MeasurementOption) {
				c.Record(ctx, float64(v), o.(metric.RecordOption))
			}
		case 6:
			c, _ := m.Int64Gauge(name, metric.WithUnit(unit), metric.WithDescription(desc))
			h.rec = func(ctx context.Context, v int64, o metric.MeasurementOption) {
				c.Record(ctx, v, o.(metric.RecordOption))
			}
		default:
			c, _ := m.Float64Gauge(name, metric.WithUnit(unit), metric.WithDescription(desc))
			h.rec = func(ctx context.Context, v int64, o metric.MeasurementOption) {
				c.Record(ctx, float64(v), o.(metric.RecordOption))
			}
		}
		mu.Lock()
		syncs = append(syncs, h)
		mu.Unlock()
	}
	createAsyncAndRegister := func(gr *vf.RNG) {
		mname := meterName(gr.Intn(nMeters))
		m := otel.Meter(mname)
		id := newID()
		name := fmt.Sprintf("obs_%d", id)
		ah := asyncHandle{id: id, name: name, meter: m}
		var err error
		var list []metric.Observable
		if gr.Bool() {
			ah.oi, err = m.Int64ObservableGauge(name)
			list = append(list, ah.oi)
		} else {
			ah.of, err = m.Float64ObservableCounter(name)
			list = append(list, ah.of)
		}
		if err != nil {
			return
		}
		rh := &regHandle{id: id, invocations: &atomic.Int64{}, inst: ah}
		switch gr.Intn(12) {
		case 0: // an observable of a foreign implementation: accepted before installation, rejected by the SDK
			list = []metric.Observable{noop.Int64ObservableGauge{}}
			rh.rejected = true
		case 1: // an observable of another meter
			other, e2 := otel.Meter("other-scope").Int64ObservableGauge(fmt.Sprintf("foreign_%d", id))
			if e2 == nil {
				list = []metric.Observable{other}
				rh.rejected = true
			}
		}
		// some callbacks also observe an instrument that will never have an SDK counterpart (the SDK rejects
		// its name when the global meter is switched over) and that is not in the registration's list: the
		// observation must simply be ignored
		var orphanI metric.Int64ObservableGauge
		var orphanF metric.Float64ObservableCounter
		switch gr.Intn(10) {
		case 0:
			orphanI, _ = m.Int64ObservableGauge(fmt.Sprintf("9 not a valid name %d", id))
		case 1:
			orphanF, _ = m.Float64ObservableCounter(fmt.Sprintf("%d-invalid name", id))
		}
		inv := rh.invocations
		reg, err := m.RegisterCallback(func(_ context.Context, o metric.Observer) error {
			inv.Add(1)
			if ah.oi != nil {
				o.ObserveInt64(ah.oi, 1)
			} else {
				o.ObserveFloat64(ah.of, 1)
			}
			if orphanI != nil {
				o.ObserveInt64(orphanI, 7)
			}
			if orphanF != nil {
				o.ObserveFloat64(orphanF, 7)
			}
			return nil
		}, list...)
		if err != nil {
			return
		}
		rh.reg = reg
		mu.Lock()
		asyncs = append(asyncs, ah)
		regs = append(regs, rh)
		mu.Unlock()
		if gr.Chance(1, 6) {
			// a callback registered for no instrument at all: legal, pointless, and not to disturb the others
			m.RegisterCallback(func(context.Context, metric.Observer) error { return nil })
		}
	}
	createTracer := func(gr *vf.RNG) {
		name := fmt.Sprintf("t%d", gr.Intn(30))
		// a tracer is asked for with a whole scope (version, schema URL, attributes), not just a name
		var topts []trace.TracerOption
		want := name + "|||"
		switch gr.Intn(4) {
		case 0:
			topts = append(topts, trace.WithInstrumentationVersion("v7"))
			want = name + "|v7||"
		case 1:
			topts = append(topts, trace.WithInstrumentationAttributes(attribute.String("tenant", name)))
			want = name + "|||tenant=" + name
		case 2:
			topts = append(topts, trace.WithInstrumentationVersion("v7"), trace.WithSchemaURL("https://example.com/s"), trace.WithInstrumentationAttributes(attribute.Int("shard", 3)))
			want = name + "|v7|https://example.com/s|shard=3"
		}
		t := otel.Tracer(name, topts...)
		mu.Lock()
		tracers = append(tracers, t)
		tracerNames = append(tracerNames, name)
		tracerScopes = append(tracerScopes, want)
		mu.Unlock()
	}
	// ---- pre-installation population
	pre := vf.NewRNG(r.U64())
	var refusedHandles []func()
	if refusing {
		for i := 1 + r.Intn(4); i > 0; i-- {
			m := otel.Meter(meterName(r.Intn(nMeters)))
			c, _ := m.Int64Counter(fmt.Sprintf("refused_%d", i))
			g, _ := m.Int64ObservableGauge(fmt.Sprintf("refused_obs_%d", i))
			_ = g
			refusedHandles = append(refusedHandles, func() { c.Add(ctx, 1) })
		}
	}
	for i := r.Intn(400); i > 0; i-- {
		createSync(pre)
	}
	for i := r.Intn(300); i > 0; i-- {
		createAsyncAndRegister(pre)
	}
	for i := r.Intn(20); i > 0; i-- {
		createTracer(pre)
	}
	prop := otel.GetTextMapPropagator()

	// ---- racing phase
	var wg sync.WaitGroup
	release := make(chan struct{})
	var installCall, installRet atomic.Uint64
	var overlapUnreg, overlapCreate, overlapRecord atomic.Int64
	during := func(call, ret uint64) bool {
		ic, ir := installCall.Load(), installRet.Load()
		return ic != 0 && call < irOrMax(ir) && ret > ic
	}
	var panics []string
	guard := func(f func()) {
		defer func() {
			if rec := recover(); rec != nil {
				buf := make([]byte, 3000)
				n := runtime.Stack(buf, false)
				mu.Lock()
				panics = append(panics, fmt.Sprintf("%v\n%s", rec, buf[:n]))
				mu.Unlock()
			}
		}()
		f()
	}
	// Setting a global to its own current default is a logged no-op and must not use up the one
	// delegation; done by some trials before or while the real installation runs.
	if r.Chance(1, 3) {
		wg.Add(1)
		d := time.Duration(r.Intn(200)) * time.Microsecond
		go func() {
			defer wg.Done()
			<-release
			time.Sleep(d)
			guard(func() {
				otel.SetMeterProvider(otel.GetMeterProvider())
				otel.SetTracerProvider(otel.GetTracerProvider())
				otel.SetTextMapPropagator(otel.GetTextMapPropagator())
			})
		}()
		k.C.Count("trials_with_self_set", 1)
	}
	nInstallers := 1 + r.Intn(2)
	for i := 0; i < nInstallers; i++ {
		wg.Add(1)
		d := time.Duration(r.Intn(300)) * time.Microsecond
		go func() {
			defer wg.Done()
			<-release
			time.Sleep(d)
			guard(func() {
				installCall.CompareAndSwap(0, vf.Tick())
				otel.SetMeterProvider(toInstall)
				otel.SetTracerProvider(stp)
				otel.SetTextMapPropagator(propagation.TraceContext{})
				installRet.CompareAndSwap(0, vf.Tick())
			})
		}()
	}
	workers := vf.Pick(r, []int{2, 4, 8})
	for w := 0; w < workers; w++ {
		seed := r.U64()
		role := w % 4
		wg.Add(1)
		go func() {
			defer wg.Done()
			gr := vf.NewRNG(seed)
			<-release
			guard(func() {
				for i := 0; i < 60; i++ {
					call := vf.Tick()
					switch role {
					case 0: // creators
						switch gr.Intn(3) {
						case 0:
							createSync(gr)
						case 1:
							createAsyncAndRegister(gr)
						default:
							createTracer(gr)
						}
						if during(call, vf.Tick()) {
							overlapCreate.Add(1)
						}
					case 1: // recorders
						mu.Lock()
						var h syncHandle
						ok := len(syncs) > 0
						if ok {
							h = syncs[gr.Intn(len(syncs))]
						}
						mu.Unlock()
						if ok {
							h.rec(ctx, 1, metric.WithAttributes(attribute.Int("racing", 1)))
						}
						if during(call, vf.Tick()) {
							overlapRecord.Add(1)
						}
					case 2: // unregistrars (incl. registrations made before installation)
						mu.Lock()
						var rh *regHandle
						for try := 0; try < 4 && len(regs) > 0; try++ {
							c := regs[gr.Intn(len(regs))]
							if !c.unregistered {
								c.unregistered = true
								rh = c
								break
							}
						}
						mu.Unlock()
						if rh != nil {
							rh.unregCall = vf.Tick()
							rh.reg.Unregister()
							rh.unregRet = vf.Tick()
							if during(rh.unregCall, rh.unregRet) {
								overlapUnreg.Add(1)
							}
						}
					default: // span starters / propagator users
						mu.Lock()
						var t trace.Tracer
						if len(tracers) > 0 {
							t = tracers[gr.Intn(len(tracers))]
						}
						mu.Unlock()
						if t != nil {
							_, sp := t.Start(ctx, "racing")
							sp.End()
						}
						prop.Inject(ctx, propagation.MapCarrier{})
					}
					if gr.Chance(1, 8) {
						runtime.Gosched()
					}
				}
			})
		}()
	}
	finished, stuck, desc := vf.Watch(8*time.Second, 2*time.Second, func() {
		close(release)
		wg.Wait()
	})
	cfg := fmt.Sprintf("pre-install: %d sync instruments, %d registrations, %d tracers; meters=%d workers=%d installers=%d procs=%d", len(syncs), len(regs), len(tracers), nMeters, workers, nInstallers, procs)
	if !finished {
		if stuck {
			key := "other"
			if strings.Contains(desc, "registration).Unregister") && strings.Contains(desc, "meter).setDelegate") {
				key = "registration.Unregister vs meter.setDelegate"
			}
			k.Violate("deadlock", key, cfg+"\n"+desc, nil)
		} else {
			k.C.Inconclusive("trial did not finish and no stable lock cycle was sampled: " + cfg)
		}
		return
	}
	for _, p := range panics {
		k.Violate("panic", strings.SplitN(p, "\n", 2)[0], cfg+"\n"+p, nil)
	}
	// ---- post phase: record on every handle, start a span on every tracer, collect twice
	for _, h := range syncs {
		h.rec(ctx, 1, metric.WithAttributes(attribute.Int("handle", h.id)))
	}
	for i, t := range tracers {
		_, sp := t.Start(ctx, fmt.Sprintf("post-%d", i))
		if !sp.IsRecording() {
			k.Violate("tracer-not-forwarding", "", fmt.Sprintf("%s\ntracer %q obtained before/during installation still yields non-recording spans", cfg, tracerNames[i]), nil)
		}
		sp.End()
	}
	// a context that is already done is no reason not to forward
	dead, cancelDead := context.WithCancel(ctx)
	cancelDead()
	for i, t := range tracers {
		_, sp := t.Start(dead, fmt.Sprintf("post-dead-%d", i))
		if !sp.IsRecording() {
			k.Violate("tracer-not-forwarding", "done context", fmt.Sprintf("%s\ntracer %q yields a non-recording span when started with a cancelled context", cfg, tracerNames[i]), nil)
		}
		sp.End()
	}
	for _, f := range refusedHandles {
		f() // instruments the provider refused stay harmless no-ops
	}
	// a late instrument and registration must work too
	createSync(pre)
	last := syncs[len(syncs)-1]
	last.rec(ctx, 1, metric.WithAttributes(attribute.Int("handle", last.id)))
	// late registrations that list an observable created after installation (the SDK's own) next to one
	// created before it (the global API's placeholder), in either order: both must be observed
	type lateMix struct {
		late, early string
		lateFirst   bool
	}
	var mixes []lateMix
	for i, ah := range asyncs {
		if i >= 6 {
			break
		}
		m := ah.meter
		lateName := fmt.Sprintf("lateobs_%d", ah.id)
		lateObs, err := m.Int64ObservableUpDownCounter(lateName)
		if err != nil {
			continue
		}
		var early metric.Observable = ah.oi
		if ah.oi == nil {
			early = ah.of
		}
		mix := lateMix{late: lateName, early: ah.name, lateFirst: i%2 == 0}
		list := []metric.Observable{early, lateObs}
		if mix.lateFirst {
			list = []metric.Observable{lateObs, early}
		}
		ah := ah
		if _, err := m.RegisterCallback(func(_ context.Context, o metric.Observer) error {
			o.ObserveInt64(lateObs, 41)
			if ah.oi != nil {
				o.ObserveInt64(ah.oi, 1, metric.WithAttributes(attribute.Bool("late-registration", true)))
			} else {
				o.ObserveFloat64(ah.of, 1, metric.WithAttributes(attribute.Bool("late-registration", true)))
			}
			return nil
		}, list...); err != nil {
			k.Violate("late-registration-refused", "", fmt.Sprintf("%s\nRegisterCallback after installation with a post-install and a pre-install observable of one meter: %v", cfg, err), nil)
			continue
		}
		mixes = append(mixes, mix)
	}
	k.C.Count("late_mixed_registrations", int64(len(mixes)))
	before := map[int]int64{}
	for _, rh := range regs {
		before[rh.id] = rh.invocations.Load()
	}
	for round := 0; round < 2; round++ {
		var rm metricdata.ResourceMetrics
		if err := reader.Collect(ctx, &rm); err != nil {
			k.Violate("collect-error", "", err.Error(), nil)
			return
		}
		if round == 0 {
			seen := map[int]bool{}
			obsSeen := map[string]bool{}
			for _, sm := range rm.ScopeMetrics {
				for _, m := range sm.Metrics {
					if strings.HasPrefix(m.Name, "obs_") || strings.HasPrefix(m.Name, "lateobs_") {
						obsSeen[m.Name] = true
					}
					visit := func(set attribute.Set) {
						if v, ok := set.Value("handle"); ok {
							seen[int(v.AsInt64())] = true
						}
					}
					switch d := m.Data.(type) {
					case metricdata.Sum[int64]:
						for _, p := range d.DataPoints {
							visit(p.Attributes)
						}
					case metricdata.Sum[float64]:
						for _, p := range d.DataPoints {
							visit(p.Attributes)
						}
					case metricdata.Gauge[int64]:
						for _, p := range d.DataPoints {
							visit(p.Attributes)
						}
					case metricdata.Gauge[float64]:
						for _, p := range d.DataPoints {
							visit(p.Attributes)
						}
					case metricdata.Histogram[int64]:
						for _, p := range d.DataPoints {
							visit(p.Attributes)
						}
					case metricdata.Histogram[float64]:
						for _, p := range d.DataPoints {
							visit(p.Attributes)
						}
					}
				}
			}
			missing := 0
			var ex syncHandle
			for _, h := range syncs {
				if !seen[h.id] {
					missing++
					ex = h
				}
			}
			if missing > 0 {
				k.Violate("measurement-after-install-lost", kindNames[ex.kind], fmt.Sprintf("%s\n%d of %d instrument handles are not connected after installation returned, e.g. %s (handle %d)", cfg, missing, len(syncs), ex.name, ex.id), nil)
			}
			for _, mx := range mixes {
				if !obsSeen[mx.late] {
					k.Violate("observation-after-install-lost", "late registration mixing post- and pre-install observables", fmt.Sprintf("%s\nthe callback observes %s (created after installation, listed first=%v) and %s (created before): %s reported nothing", cfg, mx.late, mx.lateFirst, mx.early, mx.late), nil)
					break
				}
			}
			for _, rh := range regs {
				if !rh.unregistered && !rh.rejected && !obsSeen[rh.inst.name] {
					k.Violate("observation-after-install-lost", "", fmt.Sprintf("%s\nobservable %s of a live registration reported nothing", cfg, rh.inst.name), nil)
					break
				}
			}
		}
		for _, rh := range regs {
			n := rh.invocations.Load() - before[rh.id]
			want := int64(round + 1)
			if rh.unregistered || rh.rejected {
				want = 0
			}
			if n != want {
				key := "live registration"
				if rh.unregistered {
					key = "unregistered registration"
				}
				k.Violate("callback-invocations", key, fmt.Sprintf("%s\nregistration %d (unregistered=%v, Unregister [%d,%d], install [%d,%d]) invoked %d times over %d collections", cfg, rh.id, rh.unregistered, rh.unregCall, rh.unregRet, installCall.Load(), installRet.Load(), n, round+1), nil)
				break
			}
		}
	}
	// both readers collecting at the same time: each runs every live callback with an observer of its own and
	// must see every live registration's observation
	{
		var cwg sync.WaitGroup
		start := make(chan struct{})
		var lostMu sync.Mutex
		lost := ""
		for ri, rd := range []*sdkmetric.ManualReader{reader, reader2} {
			cwg.Add(1)
			go func(ri int, rd *sdkmetric.ManualReader) {
				defer cwg.Done()
				<-start
				for round := 0; round < 3; round++ {
					var rm metricdata.ResourceMetrics
					if err := rd.Collect(ctx, &rm); err != nil {
						continue
					}
					obsSeen := map[string]bool{}
					for _, sm := range rm.ScopeMetrics {
						for _, m := range sm.Metrics {
							if strings.HasPrefix(m.Name, "obs_") {
								obsSeen[m.Name] = true
							}
						}
					}
					for _, rh := range regs {
						if !rh.unregistered && !rh.rejected && !obsSeen[rh.inst.name] {
							lostMu.Lock()
							lost = fmt.Sprintf("reader %d, concurrent collection %d: observable %s of a live registration reported nothing", ri+1, round+1, rh.inst.name)
							lostMu.Unlock()
							break
						}
					}
				}
			}(ri, rd)
		}
		close(start)
		cwg.Wait()
		if lost != "" {
			k.Violate("observation-after-install-lost", "readers collecting concurrently", cfg+"\n"+lost, nil)
		}
	}
	sink.mu.Lock()
	for i := range tracers {
		if sink.names[fmt.Sprintf("post-dead-%d", i)] != 1 {
			k.Violate("span-after-install-lost", "done context", fmt.Sprintf("%s\nspan post-dead-%d reached the SDK %d times", cfg, i, sink.names[fmt.Sprintf("post-dead-%d", i)]), nil)
			break
		}
	}
	for i := range tracers {
		if got := sink.scopes[fmt.Sprintf("post-%d", i)]; sink.names[fmt.Sprintf("post-%d", i)] == 1 && got != tracerScopes[i] {
			k.Violate("span-under-another-scope", "", fmt.Sprintf("%s\ntracer %d was asked for as scope %q; its span reached the SDK under %q", cfg, i, tracerScopes[i], got), nil)
			break
		}
	}
	for i := range tracers {
		if sink.names[fmt.Sprintf("post-%d", i)] != 1 {
			k.Violate("span-after-install-lost", "", fmt.Sprintf("%s\nspan post-%d reached the SDK %d times", cfg, i, sink.names[fmt.Sprintf("post-%d", i)]), nil)
			break
		}
	}
	sink.mu.Unlock()
	// the propagator handle obtained before installation forwards
	sc := trace.NewSpanContext(trace.SpanContextConfig{TraceID: trace.TraceID{1}, SpanID: trace.SpanID{2}, TraceFlags: 1})
	car := propagation.MapCarrier{}
	prop.Inject(trace.ContextWithSpanContext(ctx, sc), car)
	if car["traceparent"] == "" {
		k.Violate("propagator-not-forwarding", "", cfg, nil)
	}
	k.C.Count("trials", 1)
	k.C.Count("instrument_handles", int64(len(syncs)))
	k.C.Count("registrations", int64(len(regs)))
	if overlapUnreg.Load() > 0 {
		k.C.Count("trials_unregister_overlapped_install", 1)
	}
	if overlapCreate.Load() > 0 {
		k.C.Count("trials_create_overlapped_install", 1)
	}
	if overlapRecord.Load() > 0 {
		k.C.Count("trials_record_overlapped_install", 1)
	}
	k.C.Sig(fmt.Sprintf("%d|%d|%d|%d|%v|%v|%v", len(syncs)/100, len(regs)/100, workers, procs, overlapUnreg.Load() > 0, overlapCreate.Load() > 0, overlapRecord.Load() > 0))
	if k.C.NeedSample() {
		k.C.Sample(map[string]any{"config": cfg, "unregister_calls_overlapping_install": overlapUnreg.Load(), "create_calls_overlapping_install": overlapCreate.Load()})
	}
}

// runInstallRace: a small population and 2-32 installers that leave a spin barrier together and install the same
// SDK providers, each global in a random order. Whoever wins, once all of them have returned every handle
// obtained before forwards: spans reach the processor, adds reach the reader, the callback runs once a collection.
func runInstallRace(k *vf.Case) {
	r := k.R
	ctx := context.Background()
	procs := vf.Pick(r, []int{2, 4, 16})
	runtime.GOMAXPROCS(procs)
	var tracers []trace.Tracer
	for i := 0; i < 1+r.Intn(3); i++ {
		tracers = append(tracers, otel.Tracer(fmt.Sprintf("pre-%d", i)))
	}
	preTP := otel.GetTracerProvider()
	m := otel.Meter("pre")
	ctr, _ := m.Int64Counter("race.counter")
	og, _ := m.Int64ObservableGauge("race.gauge")
	var invoked atomic.Int64
	if _, err := m.RegisterCallback(func(_ context.Context, o metric.Observer) error {
		invoked.Add(1)
		o.ObserveInt64(og, 7)
		return nil
	}, og); err != nil {
		k.Violate("registration-error", "install race", err.Error(), nil)
		return
	}
	sink := &spanSink{names: map[string]int{}}
	stp := sdktrace.NewTracerProvider(sdktrace.WithSpanProcessor(sink))
	rdr := sdkmetric.NewManualReader()
	smp := sdkmetric.NewMeterProvider(sdkmetric.WithReader(rdr))
	n := vf.Pick(r, []int{2, 3, 4, 8, 16, 32})
	release := make(chan struct{})
	focus := r.Intn(3) // the global every installer sets first, so that they contend on the same one
	var ready atomic.Int32
	var wg sync.WaitGroup
	var pmu sync.Mutex
	var panics []string
	for i := 0; i < n; i++ {
		order := []int{0, 1, 2}
		vf.Shuffle(r, order)
		for oi, what := range order {
			if what == focus {
				order[0], order[oi] = order[oi], order[0]
			}
		}
		spin := r.Intn(400) // staggers the installers by fractions of a microsecond
		wg.Add(1)
		go func() {
			defer wg.Done()
			defer func() {
				if rec := recover(); rec != nil {
					pmu.Lock()
					panics = append(panics, fmt.Sprint(rec))
					pmu.Unlock()
				}
			}()
			<-release
			// those that got a processor align on a bounded spin barrier
			ready.Add(1)
			for i := 0; i < 20000 && ready.Load() < int32(min(n, procs)); i++ {
			}
			for i := 0; i < spin; i++ {
				ready.Load()
			}
			for _, what := range order {
				switch what {
				case 0:
					otel.SetTracerProvider(stp)
				case 1:
					otel.SetMeterProvider(smp)
				default:
					otel.SetTextMapPropagator(propagation.TraceContext{})
				}
			}
		}()
	}
	finished, stuck, desc := vf.Watch(8*time.Second, 2*time.Second, func() {
		time.Sleep(time.Millisecond) // every installer is parked on the release channel by now
		close(release)
		wg.Wait()
	})
	if !finished {
		if stuck {
			k.Violate("deadlock", "racing installers", desc, nil)
		} else {
			k.C.Inconclusive("install-race case did not finish within the watchdog")
		}
		return
	}
	for _, p := range panics {
		k.Violate("panic", "racing installers", p, nil)
	}
	for i, tr := range tracers {
		_, sp := tr.Start(ctx, fmt.Sprintf("post-%d", i))
		sp.End()
	}
	_, sp := preTP.Tracer("late").Start(ctx, "post-late")
	sp.End()
	_, sp = otel.Tracer("fresh").Start(ctx, "post-fresh")
	sp.End()
	sink.mu.Lock()
	for _, name := range append([]string{"post-late", "post-fresh"}, func() (ns []string) {
		for i := range tracers {
			ns = append(ns, fmt.Sprintf("post-%d", i))
		}
		return
	}()...) {
		if sink.names[name] != 1 {
			k.Violate("span-after-install-lost", "racing installers", fmt.Sprintf("%d installers, GOMAXPROCS=%d: span %s reached the installed SDK %d times", n, procs, name, sink.names[name]), nil)
			break
		}
	}
	sink.mu.Unlock()
	ctr.Add(ctx, 5)
	var rm metricdata.ResourceMetrics
	if err := rdr.Collect(ctx, &rm); err != nil {
		k.Violate("collect-error", "install race", err.Error(), nil)
		return
	}
	var sum, gauge int64 = -1, -1
	for _, sm := range rm.ScopeMetrics {
		for _, md := range sm.Metrics {
			switch d := md.Data.(type) {
			case metricdata.Sum[int64]:
				if md.Name == "race.counter" && len(d.DataPoints) == 1 {
					sum = d.DataPoints[0].Value
				}
			case metricdata.Gauge[int64]:
				if md.Name == "race.gauge" && len(d.DataPoints) == 1 {
					gauge = d.DataPoints[0].Value
				}
			}
		}
	}
	if sum != 5 || gauge != 7 {
		k.Violate("measurement-after-install-lost", "racing installers", fmt.Sprintf("%d installers: counter %d (want 5), gauge %d (want 7)", n, sum, gauge), nil)
	}
	if got := invoked.Load(); got != 1 {
		k.Violate("callback-invocations", "racing installers", fmt.Sprintf("%d installers: the callback registered before installation ran %d times in one collection", n, got), nil)
	}
	k.C.Count("install_race_trials", 1)
	k.C.Sig(fmt.Sprintf("install-race|%d|%d|%d", n, procs, focus))
}

// runInterruptedInstall: the installation is cut short by the application's own fail-fast error handler (it
// panics, or ends the goroutine) when the SDK rejects an instrument that was created through the global API
// before. The application carries on: later use of the global metric API neither blocks nor is left unconnected.
func runInterruptedInstall(k *vf.Case) {
	r := k.R
	ctx := context.Background()
	mode := r.Intn(2)
	otel.SetErrorHandler(otel.ErrorHandlerFunc(func(err error) {
		if mode == 0 {
			panic(err)
		}
		runtime.Goexit()
	}))
	preProvider := otel.GetMeterProvider()
	nMeters := 1 + r.Intn(3)
	badMeter, badPos := r.Intn(nMeters), r.Intn(4)
	var pre []metric.Meter
	for mi := 0; mi < nMeters; mi++ {
		m := otel.Meter(fmt.Sprintf("pre-%d", mi))
		pre = append(pre, m)
		for i := 0; i < 4; i++ {
			name := fmt.Sprintf("ok.%d.%d", mi, i)
			if mi == badMeter && i == badPos {
				name = "0 not a valid instrument name!" // accepted by the placeholder, rejected by the SDK
			}
			switch r.Intn(3) {
			case 0:
				m.Int64Counter(name)
			case 1:
				m.Float64Histogram(name)
			default:
				m.Int64ObservableGauge(name)
			}
		}
	}
	rdr := sdkmetric.NewManualReader()
	mp := sdkmetric.NewMeterProvider(sdkmetric.WithReader(rdr))
	installed := make(chan any, 1)
	go func() {
		var rec any = "goroutine ended"
		defer func() { installed <- rec }()
		defer func() {
			if p := recover(); p != nil {
				rec = p
			}
		}()
		otel.SetMeterProvider(mp)
		rec = nil
	}()
	if rec := <-installed; rec == nil {
		k.C.Count("installs_not_interrupted", 1)
	} else {
		k.C.Count("installs_interrupted", 1)
	}
	otel.SetErrorHandler(otel.ErrorHandlerFunc(func(error) {}))
	finished, stuck, desc := vf.Watch(8*time.Second, 2*time.Second, func() {
		for mi, m := range pre {
			if c, err := m.Int64Counter("post.on.pre.meter"); err == nil {
				c.Add(ctx, int64(mi+1))
			}
		}
		c1, _ := otel.Meter("post-global").Int64Counter("post.counter")
		c1.Add(ctx, 1)
		c2, _ := preProvider.Meter("post-handle").Int64Counter("post.counter")
		c2.Add(ctx, 1)
	})
	if !finished {
		if stuck {
			k.Violate("deadlock", "after an installation interrupted by the error handler", desc, nil)
		} else {
			k.C.Inconclusive("interrupted-install case did not finish within the watchdog")
		}
		return
	}
	var rm metricdata.ResourceMetrics
	if err := rdr.Collect(ctx, &rm); err != nil {
		k.Violate("collect-error", "interrupted install", err.Error(), nil)
		return
	}
	got := map[string]int64{}
	for _, sm := range rm.ScopeMetrics {
		for _, md := range sm.Metrics {
			if sum, ok := md.Data.(metricdata.Sum[int64]); ok {
				for _, dp := range sum.DataPoints {
					got[sm.Scope.Name+"/"+md.Name] += dp.Value
				}
			}
		}
	}
	// (meters the interrupted installation had not reached yet stay where the application's handler left them;
	// only calls made through the provider are held to reach the SDK)
	want := map[string]int64{"post-global/post.counter": 1, "post-handle/post.counter": 1}
	for key, v := range want {
		if got[key] != v {
			k.Violate("measurement-after-install-lost", "after an installation interrupted by the error handler", fmt.Sprintf("mode=%d: %s: SDK holds %d, recorded %d (all: %v)", mode, key, got[key], v, got), nil)
			return
		}
	}
	k.C.Count("interrupted_install_trials", 1)
	k.C.Sig(fmt.Sprintf("interrupted|%d|%d|%d", mode, nMeters, badPos))
}

func irOrMax(v uint64) uint64 {
	if v == 0 {
		return ^uint64(0)
	}
	return v
}

func main() {
	vf.Main("C16", "exploration", func(c *vf.Ctx) {
		c.Rule = "one child process per trial: 0-400 instruments of all eight synchronous kinds over 1-4 meters, 0-300 observable instruments each with a RegisterCallback registration and 0-20 tracers are created through the global API; then a barrier releases installer(s) (SetMeterProvider, SetTracerProvider, SetTextMapPropagator) against creators, recorders, unregistrars (including of registrations made before installation) and span starters; a post-phase records on every handle, starts a span on every tracer and collects twice; GOMAXPROCS{2,4,16}; -race; interrupted-install trials (a fail-fast error handler panics or ends the goroutine inside SetMeterProvider, later API use watched); install-race trials (2-32 installers leaving a spin barrier, staggered by sub-microsecond spins, all starting with the same global, small population); late registrations listing an SDK-native observable next to a pre-install placeholder; tracers asked for with version / schema URL / attributes, span scopes compared. distinct = distinct (population classes, workers, procs, which call kinds truly overlapped the installation) signatures"
		c.Assume = []string{"deadlock = watchdog (8 s) followed by two identical stack samples 2 s apart of goroutines parked inside go.opentelemetry.io/otel frames; anything else that does not finish is inconclusive"}
		otel.SetErrorHandler(otel.ErrorHandlerFunc(func(error) {}))
		otel.SetLogger(logr.Discard())
		n := c.N(480, 10_000)
		c.Isolated("trials", n, vf.IsoOpts{Batch: 1, Par: 16, Timeout: 90 * time.Second}, runTrial)
		c.Isolated("interrupted-install", c.N(64, 800), vf.IsoOpts{Batch: 1, Par: 16, Timeout: 90 * time.Second}, runInterruptedInstall)
		c.Isolated("install-race", c.N(6400, 48_000), vf.IsoOpts{Batch: 1, Par: 16, Timeout: 4 * time.Minute}, runInstallRace) // a trial takes milliseconds; the generous budget (and the 105 s in-child case watchdog derived from it) is for loaded machines
		c.Floor("install_race_trials", 4000)
		c.Floor("interrupted_install_trials", 40)
		c.Floor("installs_interrupted", 40)
		c.Floor("trials", int64(n*8/10))
		c.Floor("trials_unregister_overlapped_install", 20)
		c.Floor("trials_create_overlapped_install", 20)
		c.Floor("trials_record_overlapped_install", 20)
	})
}
