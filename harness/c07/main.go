// C07 — histogram data points are internally consistent and bucket every value correctly.
package main

import (
	"context"
	"fmt"
	"math"
	"math/big"
	"sort"
	"strings"
	"sync"

	"go.opentelemetry.io/otel"
	"go.opentelemetry.io/otel/metric"
	sdkmetric "go.opentelemetry.io/otel/sdk/metric"
	"go.opentelemetry.io/otel/sdk/metric/metricdata"

	"verifharness/vf"
)

// ---------------------------------------------------------------------------------------------
// exact bucket index: i with base^i < v <= base^(i+1), base = 2^(2^-scale)

const fracBits = 110

var (
	two      = big.NewFloat(2).SetPrec(512)
	logCache sync.Map // float64 bits -> *big.Int (log2(v) * 2^fracBits, floor; exact for powers of two)
)

// log2Scaled returns floor(log2(v) * 2^fracBits) and whether v is an exact power of two.
func log2Scaled(v float64) (*big.Int, bool) {
	frac, exp := math.Frexp(v) // v = frac * 2^exp, frac in [0.5,1)
	e := int64(exp - 1)
	pow2 := frac == 0.5
	S := new(big.Int).Lsh(big.NewInt(e), fracBits)
	if e < 0 {
		S = new(big.Int).Neg(new(big.Int).Lsh(big.NewInt(-e), fracBits))
	}
	if pow2 {
		return S, true
	}
	if c, ok := logCache.Load(math.Float64bits(frac)); ok {
		return new(big.Int).Add(S, c.(*big.Int)), false
	}
	x := new(big.Float).SetPrec(512).SetFloat64(frac * 2) // m in (1,2)
	f := new(big.Int)
	for i := 0; i < fracBits; i++ {
		x.Mul(x, x)
		f.Lsh(f, 1)
		if x.Cmp(two) >= 0 {
			f.SetBit(f, 0, 1)
			x.Quo(x, two)
		}
	}
	logCache.Store(math.Float64bits(frac), f)
	return new(big.Int).Add(S, f), false
}

// exactIndex returns the exact bucket index of v>0 at scale, and dist = distance of 2^scale*log2(v)
// from the nearest integer (0 for powers of two). ok=false when the position is too close to an
// integer to decide (never observed; would be reported as inconclusive).
func exactIndex(v float64, scale int32) (idx int64, dist float64, ok bool) {
	S, pow2 := log2Scaled(v)
	shift := uint(int32(fracBits) - scale) // scale <= 20 < fracBits
	if pow2 {
		// log2 v = e exactly: the value sits on the upper boundary of its bucket
		q := new(big.Int).Rsh(S, shift) // e*2^scale (scale>=0) or floor(e / 2^-scale)
		rem := new(big.Int).Sub(S, new(big.Int).Lsh(q, shift))
		if rem.Sign() == 0 {
			return q.Int64() - 1, 0, true
		}
		return q.Int64(), 0, true // only for scale<0: e not a multiple of 2^-scale
	}
	q := new(big.Int).Rsh(S, shift) // floor
	rem := new(big.Int).Sub(S, new(big.Int).Lsh(q, shift))
	den := new(big.Int).Lsh(big.NewInt(1), shift)
	near := new(big.Int).Set(rem)
	if new(big.Int).Lsh(rem, 1).Cmp(den) > 0 {
		near.Sub(den, rem)
	}
	dist, _ = new(big.Float).Quo(new(big.Float).SetInt(near), new(big.Float).SetInt(den)).Float64()
	if dist < 1e-24 {
		return q.Int64(), dist, false
	}
	return q.Int64(), dist, true
}

// ---------------------------------------------------------------------------------------------

type bucketMap map[int64]uint64

func fromBucket(b metricdata.ExponentialBucket) bucketMap {
	m := bucketMap{}
	for i, c := range b.Counts {
		if c != 0 {
			m[int64(b.Offset)+int64(i)] += c
		}
	}
	return m
}

func (m bucketMap) shift(delta int32) bucketMap {
	if delta == 0 {
		return m
	}
	out := bucketMap{}
	for i, c := range m {
		out[i>>uint(delta)] += c
	}
	return out
}

func (m bucketMap) total() uint64 {
	var t uint64
	for _, c := range m {
		t += c
	}
	return t
}

func (m bucketMap) String() string {
	var ks []int64
	for k := range m {
		ks = append(ks, k)
	}
	sort.Slice(ks, func(i, j int) bool { return ks[i] < ks[j] })
	var p []string
	for _, k := range ks {
		p = append(p, fmt.Sprintf("%d:%d", k, m[k]))
	}
	return "{" + strings.Join(p, " ") + "}"
}

func equalMaps(a, b bucketMap) bool {
	if len(a) != len(b) {
		return false
	}
	for k, v := range a {
		if b[k] != v {
			return false
		}
	}
	return true
}

// diffOne: is got == base + one count at index j? returns j.
func diffOne(base, got bucketMap) (int64, bool) {
	var j int64
	found := false
	for k, v := range got {
		bv := base[k]
		switch {
		case v == bv:
		case v == bv+1 && !found:
			j, found = k, true
		default:
			return 0, false
		}
	}
	for k, bv := range base {
		if _, ok := got[k]; !ok && bv != 0 {
			return 0, false
		}
	}
	return j, found
}

// ---------------------------------------------------------------------------------------------
// value generators

func genMagnitude(r *vf.RNG, scaleHint int32) float64 {
	switch r.Intn(12) {
	case 0:
		return math.Float64frombits(uint64(1 + r.Intn(1<<20))) // subnormal
	case 1:
		return math.Ldexp(1, r.Range(-1074, 1023)) // exact power of two
	case 2, 3, 4: // float neighbours of a boundary 2^(k/2^s)
		s := uint(r.Intn(11))
		if scaleHint > 0 && r.Bool() {
			s = uint(scaleHint)
		}
		kk := r.Range(-40, 40) << s >> uint(r.Intn(int(s)+1))
		b := math.Exp2(float64(kk) / float64(uint64(1)<<s))
		bits := math.Float64bits(b)
		return math.Float64frombits(bits + uint64(r.Range(-2, 2)))
	case 5:
		return math.MaxFloat64 / float64(1+r.Intn(4))
	case 6:
		return math.SmallestNonzeroFloat64 * float64(1+r.Intn(4))
	case 7:
		return float64(1 + r.Intn(1000))
	case 8:
		return math.Ldexp(1+r.Float64(), r.Range(-1022, 1023))
	default:
		return math.Ldexp(1+r.Float64(), r.Range(-12, 12))
	}
}

type seq struct {
	vals   []float64
	design string
}

func genSeq(r *vf.RNG, maxSize, maxScale int32, intOnly bool) seq {
	n := 1 + r.Intn(120)
	if r.Chance(1, 10) {
		n = 200 + r.Intn(200)
	}
	var s seq
	design := r.Intn(6)
	s.design = []string{"random", "narrow-then-wide", "grow-below", "grow-above", "signs", "boundary-neighbours"}[design]
	cur := 1.0
	for i := 0; i < n; i++ {
		var v float64
		switch design {
		case 1: // long downscale chain: start narrow, widen steadily
			v = math.Ldexp(1+r.Float64(), r.Range(-i/2, i/2))
		case 2: // grow below
			cur /= 1 + r.Float64()*float64(1+r.Intn(4))
			v = cur
		case 3: // grow above (within and over capacity)
			cur *= 1 + r.Float64()*float64(1+r.Intn(4))
			v = cur
		case 5:
			v = genMagnitude(r, maxScale)
			if r.Bool() {
				s2 := uint(r.Intn(int(maxInt(maxScale, 1)) + 1))
				kk := r.Range(-20, 20)
				b := math.Exp2(float64(kk) / float64(uint64(1)<<s2))
				v = math.Float64frombits(math.Float64bits(b) + uint64(r.Range(-2, 2)))
			}
		default:
			v = genMagnitude(r, maxScale)
		}
		if r.Chance(1, 15) {
			v = 0
		}
		if (design == 4 || r.Chance(1, 8)) && r.Bool() {
			v = -v
		}
		if intOnly {
			if math.Abs(v) > 9e18 {
				v = math.Copysign(9e18, v)
			}
			v = math.Trunc(v)
			if r.Chance(1, 20) {
				v = float64(int64(1) << uint(r.Intn(63)))
			}
			if r.Chance(1, 25) {
				// the ends of the int64 range: math.MinInt64 (whose negation overflows) and the largest
				// int64 a float64 holds exactly
				v = vf.Pick(r, []float64{-9223372036854775808.0, 9223372036854774784.0, -9223372036854774784.0})
			}
		}
		s.vals = append(s.vals, v)
	}
	return s
}

func maxInt(a, b int32) int32 {
	if a > b {
		return a
	}
	return b
}

// ---------------------------------------------------------------------------------------------

type errSink struct {
	mu   sync.Mutex
	errs []string
}

func (e *errSink) Handle(err error) {
	e.mu.Lock()
	if len(e.errs) < 100 {
		e.errs = append(e.errs, err.Error())
	}
	e.mu.Unlock()
}

func findMetric(rm *metricdata.ResourceMetrics, name string) metricdata.Aggregation {
	for _, sm := range rm.ScopeMetrics {
		for _, m := range sm.Metrics {
			if m.Name == name {
				return m.Data
			}
		}
	}
	return nil
}

type expoPoint struct {
	count, zero uint64
	scale       int32
	pos, neg    metricdata.ExponentialBucket
	sumF        float64
	sumI        int64
	min, max    float64
	hasMin      bool
}

func expoPointOf(a metricdata.Aggregation) (expoPoint, int, bool) {
	switch d := a.(type) {
	case metricdata.ExponentialHistogram[float64]:
		if len(d.DataPoints) == 0 {
			return expoPoint{}, 0, true
		}
		p := d.DataPoints[0]
		ep := expoPoint{count: p.Count, zero: p.ZeroCount, scale: p.Scale, pos: p.PositiveBucket, neg: p.NegativeBucket, sumF: p.Sum}
		if v, ok := p.Min.Value(); ok {
			ep.min, ep.hasMin = v, true
		}
		if v, ok := p.Max.Value(); ok {
			ep.max = v
		}
		return ep, len(d.DataPoints), true
	case metricdata.ExponentialHistogram[int64]:
		if len(d.DataPoints) == 0 {
			return expoPoint{}, 0, true
		}
		p := d.DataPoints[0]
		ep := expoPoint{count: p.Count, zero: p.ZeroCount, scale: p.Scale, pos: p.PositiveBucket, neg: p.NegativeBucket, sumI: p.Sum}
		if v, ok := p.Min.Value(); ok {
			ep.min, ep.hasMin = float64(v), true
		}
		if v, ok := p.Max.Value(); ok {
			ep.max = float64(v)
		}
		return ep, len(d.DataPoints), true
	}
	return expoPoint{}, 0, false
}

var sizes = []int32{1, 2, 3, 4, 20, 160}
var scales = []int32{-10, -3, 0, 1, 5, 10, 20}

func runExpo(k *vf.Case) {
	r := k.R
	maxSize, maxScale := vf.Pick(r, sizes), vf.Pick(r, scales)
	intInst := r.Chance(1, 3)
	s := genSeq(r, maxSize, maxScale, intInst)
	agg := sdkmetric.AggregationBase2ExponentialHistogram{MaxSize: maxSize, MaxScale: maxScale}
	sel := func(sdkmetric.InstrumentKind) sdkmetric.Aggregation { return agg }
	cum := sdkmetric.NewManualReader(sdkmetric.WithAggregationSelector(sel))
	del := sdkmetric.NewManualReader(sdkmetric.WithAggregationSelector(sel),
		sdkmetric.WithTemporalitySelector(func(sdkmetric.InstrumentKind) metricdata.Temporality { return metricdata.DeltaTemporality }))
	mp := sdkmetric.NewMeterProvider(sdkmetric.WithReader(cum), sdkmetric.WithReader(del))
	m := mp.Meter("c07")
	ctx := context.Background()
	var rec func(v float64)
	if intInst {
		h, _ := m.Int64Histogram("h")
		rec = func(v float64) { h.Record(ctx, int64(v)) }
	} else {
		h, _ := m.Float64Histogram("h")
		rec = func(v float64) { h.Record(ctx, v) }
	}
	cfgStr := fmt.Sprintf("MaxSize=%d MaxScale=%d int=%v design=%s", maxSize, maxScale, intInst, s.design)
	fail := func(class, key, detail string, upto int) {
		vals := s.vals[:upto+1]
		if len(vals) > 40 {
			vals = vals[len(vals)-40:]
		}
		k.Violate(class, key, fmt.Sprintf("%s\n%s\nlast values (most recent last): %v", cfgStr, detail, vals), nil)
	}

	prevPos, prevNeg := bucketMap{}, bucketMap{}
	prevScale := maxScale
	var n, zeros uint64
	var sumF float64
	var sumI int64
	minV, maxV := math.Inf(1), math.Inf(-1)
	var rm metricdata.ResourceMetrics
	downscales := 0
	underflowed := false
	// delta cycle
	var cycle []float64
	deltaEvery := 1 + r.Intn(8)
	var drm metricdata.ResourceMetrics

	// Range of exact scale -10 indices per sign, for the cumulative point and for the delta cycle: a
	// value that would need more than MaxSize buckets even at scale -10 cannot be represented at all;
	// it must then be left out of the point completely (count, sum, min, max, buckets), never half.
	type rng struct {
		lo, hi int64
		any    bool
	}
	fits := func(rg *rng, idx int64) bool {
		if !rg.any {
			return true
		}
		lo, hi := rg.lo, rg.hi
		if idx < lo {
			lo = idx
		}
		if idx > hi {
			hi = idx
		}
		return hi-lo+1 <= int64(maxSize)
	}
	add := func(rg *rng, idx int64) {
		if !rg.any {
			rg.lo, rg.hi, rg.any = idx, idx, true
			return
		}
		if idx < rg.lo {
			rg.lo = idx
		}
		if idx > rg.hi {
			rg.hi = idx
		}
	}
	var cumRange, cycRange [2]rng
	var prevPoint expoPoint
	for i, v := range s.vals {
		sign := 0
		if v < 0 {
			sign = 1
		}
		var idx10 int64
		expectDrop := false
		if v != 0 {
			idx10, _, _ = exactIndex(math.Abs(v), -10)
			expectDrop = !fits(&cumRange[sign], idx10)
			if fits(&cycRange[sign], idx10) {
				add(&cycRange[sign], idx10)
				cycle = append(cycle, v)
			} else {
				k.C.Count("unfittable_values_delta", 1)
			}
		} else {
			cycle = append(cycle, v)
		}
		rec(v)
		if expectDrop {
			if err := cum.Collect(ctx, &rm); err != nil {
				fail("collect-error", "", err.Error(), i)
				return
			}
			p, _, _ := expoPointOf(findMetric(&rm, "h"))
			if p.count != prevPoint.count || p.zero != prevPoint.zero || p.scale != prevPoint.scale || !equalMaps(fromBucket(p.pos), prevPos) || !equalMaps(fromBucket(p.neg), prevNeg) ||
				p.sumI != prevPoint.sumI || (p.sumF != prevPoint.sumF && !(math.IsNaN(p.sumF) && math.IsNaN(prevPoint.sumF))) || p.min != prevPoint.min || p.max != prevPoint.max {
				fail("unfittable-value-partly-accounted", "", fmt.Sprintf("value %g cannot fit in %d buckets even at scale -10 and must be left out completely: before count=%d sum=%g/%d min=%g max=%g pos=%v neg=%v; after count=%d sum=%g/%d min=%g max=%g pos=%v neg=%v",
					v, maxSize, prevPoint.count, prevPoint.sumF, prevPoint.sumI, prevPoint.min, prevPoint.max, prevPos, prevNeg, p.count, p.sumF, p.sumI, p.min, p.max, fromBucket(p.pos), fromBucket(p.neg)), i)
				return
			}
			k.C.Count("unfittable_values_left_out", 1)
			underflowed = true
		} else {
			if v != 0 {
				add(&cumRange[sign], idx10)
			}
			if intInst {
				sumI += int64(v)
			} else {
				sumF += v
			}
			n++
			minV, maxV = math.Min(minV, v), math.Max(maxV, v)
			if err := cum.Collect(ctx, &rm); err != nil {
				fail("collect-error", "", err.Error(), i)
				return
			}
			p, npts, ok := expoPointOf(findMetric(&rm, "h"))
			if !ok || npts != 1 {
				fail("no-exponential-point", "", fmt.Sprintf("points=%d", npts), i)
				return
			}
			pos, neg := fromBucket(p.pos), fromBucket(p.neg)
			// ---- structural invariants
			if p.count != n {
				fail("count-mismatch", "", fmt.Sprintf("Count %d after %d records", p.count, n), i)
			}
			if p.count != p.zero+pos.total()+neg.total() {
				key := "other"
				if underflowedNow(maxSize, pos, neg, prevPos, prevNeg) {
					key = "value counted but not bucketed (cannot fit even at scale -10)"
					underflowed = true
				}
				fail("count-not-zero-plus-buckets", key, fmt.Sprintf("Count %d != zero %d + pos %d + neg %d (scale %d)", p.count, p.zero, pos.total(), neg.total(), p.scale), i)
				return
			}
			if int32(len(p.pos.Counts)) > maxSize || int32(len(p.neg.Counts)) > maxSize {
				fail("more-than-max-size-buckets", "", fmt.Sprintf("pos %d neg %d buckets, MaxSize %d, scale %d", len(p.pos.Counts), len(p.neg.Counts), maxSize, p.scale), i)
			}
			if p.scale > maxScale || p.scale < -10 {
				fail("scale-out-of-range", "", fmt.Sprintf("scale %d", p.scale), i)
			}
			if p.scale > prevScale {
				fail("scale-increased", "", fmt.Sprintf("scale %d after %d", p.scale, prevScale), i)
				return
			}
			if v == 0 {
				zeros++
			}
			if p.zero != zeros {
				fail("zero-count-mismatch", "", fmt.Sprintf("ZeroCount %d want %d", p.zero, zeros), i)
			}
			if intInst {
				if p.sumI != sumI {
					fail("sum-mismatch", "int64", fmt.Sprintf("%d want %d", p.sumI, sumI), i)
				}
			} else if p.sumF != sumF && !(math.IsNaN(p.sumF) && math.IsNaN(sumF)) {
				fail("sum-mismatch", "float64", fmt.Sprintf("%g want %g", p.sumF, sumF), i)
			}
			if !p.hasMin || p.min != minV || p.max != maxV {
				fail("min-max-mismatch", "", fmt.Sprintf("min %g max %g want %g %g", p.min, p.max, minV, maxV), i)
			}
			// ---- incremental bucket oracle
			delta := prevScale - p.scale
			if delta > 0 {
				downscales++
			}
			expPos, expNeg := prevPos.shift(delta), prevNeg.shift(delta)
			if v != 0 {
				av := math.Abs(v)
				idx, dist, okIdx := exactIndex(av, p.scale)
				base, got, sign := expPos, pos, "positive"
				other, otherGot := expNeg, neg
				if v < 0 {
					base, got, sign = expNeg, neg, "negative"
					other, otherGot = expPos, pos
				}
				if !equalMaps(other, otherGot) {
					fail("rescale-lost-or-moved-counts", "other sign", fmt.Sprintf("scale %d->%d: %s buckets untouched by this value changed: expected %v got %v", prevScale, p.scale, sign, other, otherGot), i)
					return
				}
				j, one := diffOne(base, got)
				switch {
				case !one:
					fail("rescale-lost-or-moved-counts", "", fmt.Sprintf("scale %d->%d after recording %g: expected %v + one count, got %v", prevScale, p.scale, v, base, got), i)
					return
				case !okIdx:
					k.C.Count("values_undecidable", 1)
				case j != idx:
					near := dist <= math.Ldexp(1, int(p.scale))*math.Ldexp(1, -49)
					pow2 := dist == 0
					if p.scale > 0 && (j-idx == 1 || idx-j == 1) && near && !pow2 {
						k.Violate("value-misplaced", "off by one within 8 ulp of an irrational boundary at scale > 0 (log-based index)",
							fmt.Sprintf("%s\nvalue %v (%x) at scale %d: bucket %d, exact %d, distance from boundary %.3g buckets", cfgStr, v, math.Float64bits(av), p.scale, j, idx, dist), nil)
					} else {
						fail("value-misplaced", fmt.Sprintf("scale<=0:%v pow2:%v off:%d", p.scale <= 0, pow2, j-idx), fmt.Sprintf("value %v (%x) at scale %d: counted in bucket %d, exact bucket %d (distance from boundary %.3g buckets)", v, math.Float64bits(av), p.scale, j, idx, dist), i)
					}
				default:
					k.C.Count("values_bucket_checked", 1)
					if dist == 0 {
						k.C.Count("values_power_of_two", 1)
					} else if dist <= math.Ldexp(1, int(p.scale))*math.Ldexp(1, -49) {
						k.C.Count("values_boundary_neighbour_correct", 1)
					}
				}
			} else if !equalMaps(expPos, pos) || !equalMaps(expNeg, neg) {
				fail("rescale-lost-or-moved-counts", "zero value", "", i)
				return
			}
			prevPos, prevNeg, prevScale = pos, neg, p.scale
			prevPoint = p
		}

		// ---- delta reader: cycle ends
		if (i+1)%deltaEvery == 0 || i == len(s.vals)-1 {
			if err := del.Collect(ctx, &drm); err != nil {
				fail("collect-error", "delta", err.Error(), i)
				return
			}
			dp, dn, ok := expoPointOf(findMetric(&drm, "h"))
			if !ok || dn != 1 {
				fail("no-exponential-point", "delta", fmt.Sprintf("points=%d", dn), i)
				return
			}
			dpos, dneg := fromBucket(dp.pos), fromBucket(dp.neg)
			if dp.count != uint64(len(cycle)) || dp.count != dp.zero+dpos.total()+dneg.total() {
				fail("count-not-zero-plus-buckets", "delta", fmt.Sprintf("delta Count %d (cycle of %d) zero %d pos %d neg %d", dp.count, len(cycle), dp.zero, dpos.total(), dneg.total()), i)
			}
			if int32(len(dp.pos.Counts)) > maxSize || int32(len(dp.neg.Counts)) > maxSize || dp.scale > maxScale || dp.scale < -10 {
				fail("more-than-max-size-buckets", "delta", fmt.Sprintf("pos %d neg %d scale %d", len(dp.pos.Counts), len(dp.neg.Counts), dp.scale), i)
			}
			// exact re-bucketing at the reported scale, when no value of the cycle sits near a boundary
			wantP, wantN := bucketMap{}, bucketMap{}
			clean := true
			for _, cv := range cycle {
				if cv == 0 {
					continue
				}
				idx, dist, okIdx := exactIndex(math.Abs(cv), dp.scale)
				if !okIdx || (dist != 0 && dist <= math.Ldexp(1, int(maxInt(maxScale, 0)))*math.Ldexp(1, -49)) {
					clean = false
					break
				}
				if cv > 0 {
					wantP[idx]++
				} else {
					wantN[idx]++
				}
			}
			if clean {
				k.C.Count("delta_cycles_rebucketed", 1)
				if !equalMaps(wantP, dpos) || !equalMaps(wantN, dneg) {
					fail("delta-buckets-mismatch", "", fmt.Sprintf("cycle %v at scale %d: got pos %v neg %v want pos %v neg %v", cycle, dp.scale, dpos, dneg, wantP, wantN), i)
				}
			}
			cycle = cycle[:0]
			cycRange = [2]rng{}
		}
	}
	k.C.Count("expo_sequences", 1)
	k.C.Count("expo_values", int64(len(s.vals)))
	k.C.Count("expo_downscale_events", int64(downscales))
	if underflowed {
		k.C.Count("expo_sequences_underflowed", 1)
	}
	k.C.Sig(fmt.Sprintf("expo|%d|%d|%d|%v|%s|%d", maxSize, maxScale, prevScale, intInst, s.design, min(downscales, 5)))
	if k.C.NeedSample() {
		vs := s.vals
		if len(vs) > 12 {
			vs = vs[:12]
		}
		k.C.Sample(map[string]any{"kind": "exponential", "config": cfgStr, "first_values": fmt.Sprint(vs), "final_scale": prevScale, "downscales": downscales})
	}
}

// underflowedNow: the only way a record can be counted without a bucket is the scale-underflow path.
func underflowedNow(maxSize int32, pos, neg, prevPos, prevNeg bucketMap) bool {
	return equalMaps(pos, prevPos) && equalMaps(neg, prevNeg)
}

// ---------------------------------------------------------------------------------------------
// explicit bucket histograms

func genBounds(r *vf.RNG) []float64 {
	switch r.Intn(7) {
	case 0:
		return []float64{}
	case 1:
		return []float64{float64(r.Range(-5, 5))}
	case 2:
		return []float64{0, 5, 10, 25, 50, 75, 100, 250, 500, 750, 1000, 2500, 5000, 7500, 10000}
	case 3:
		n := 100
		b := make([]float64, n)
		cur := -1000.0
		for i := range b {
			cur += 0.5 + r.Float64()*50
			b[i] = cur
		}
		return b
	case 4: // adjacent floats
		x := math.Ldexp(1+r.Float64(), r.Range(-5, 5))
		return []float64{math.Nextafter(x, -1e300), x, math.Nextafter(x, 1e300)}
	case 5: // huge and tiny magnitudes, negative fractional
		return []float64{-1e300, -7.5, -2.5, -math.SmallestNonzeroFloat64, 0, math.SmallestNonzeroFloat64, 2.5, 1e19, math.MaxFloat64}
	default:
		n := 1 + r.Intn(8)
		b := make([]float64, 0, n)
		cur := float64(r.Range(-20, 0))
		for i := 0; i < n; i++ {
			cur += float64(1+r.Intn(10)) / 2
			b = append(b, cur)
		}
		return b
	}
}

func runExplicit(k *vf.Case) {
	r := k.R
	bounds := genBounds(r)
	intInst := r.Chance(1, 2)
	noMinMax := r.Chance(1, 5)
	agg := sdkmetric.AggregationExplicitBucketHistogram{Boundaries: bounds, NoMinMax: noMinMax}
	sel := func(sdkmetric.InstrumentKind) sdkmetric.Aggregation { return agg }
	cum := sdkmetric.NewManualReader(sdkmetric.WithAggregationSelector(sel))
	del := sdkmetric.NewManualReader(sdkmetric.WithAggregationSelector(sel),
		sdkmetric.WithTemporalitySelector(func(sdkmetric.InstrumentKind) metricdata.Temporality { return metricdata.DeltaTemporality }))
	mpOpts := []sdkmetric.Option{sdkmetric.WithReader(cum), sdkmetric.WithReader(del)}
	viaViewFunc := len(bounds) >= 2 && r.Chance(1, 4)
	if viaViewFunc {
		// the boundary list arrives through a view function, in some other order: the point still reports ascending
		// bounds and bins by them
		cum = sdkmetric.NewManualReader()
		del = sdkmetric.NewManualReader(sdkmetric.WithTemporalitySelector(func(sdkmetric.InstrumentKind) metricdata.Temporality { return metricdata.DeltaTemporality }))
		given := append([]float64(nil), bounds...)
		vf.Shuffle(r, given)
		mpOpts = []sdkmetric.Option{sdkmetric.WithReader(cum), sdkmetric.WithReader(del), sdkmetric.WithView(func(i sdkmetric.Instrument) (sdkmetric.Stream, bool) {
			if i.Name != "h" {
				return sdkmetric.Stream{}, false
			}
			return sdkmetric.Stream{Name: i.Name, Aggregation: sdkmetric.AggregationExplicitBucketHistogram{Boundaries: given, NoMinMax: noMinMax}}, true
		})}
		k.C.Count("explicit_sequences_with_shuffled_bounds_from_view_function", 1)
	}
	mp := sdkmetric.NewMeterProvider(mpOpts...)
	m := mp.Meter("c07")
	ctx := context.Background()
	var rec func(v float64)
	if intInst {
		h, _ := m.Int64Histogram("h")
		rec = func(v float64) { h.Record(ctx, int64(v)) }
	} else {
		h, _ := m.Float64Histogram("h")
		rec = func(v float64) { h.Record(ctx, v) }
	}
	n := 1 + r.Intn(200)
	var vals []float64
	for i := 0; i < n; i++ {
		var v float64
		switch r.Intn(6) {
		case 0:
			if len(bounds) > 0 { // exactly on a boundary, or its float neighbours
				b := vf.Pick(r, bounds)
				v = math.Float64frombits(math.Float64bits(b) + uint64(r.Range(-1, 1)))
				if b == 0 {
					v = vf.Pick(r, []float64{0, math.SmallestNonzeroFloat64, -math.SmallestNonzeroFloat64})
				}
			}
		case 1:
			v = float64(r.Range(-30, 30))
		case 2:
			v = genMagnitude(r, 0) * float64(1-2*r.Intn(2))
		default:
			v = (r.Float64() - 0.3) * 2000
		}
		if intInst {
			if math.Abs(v) > 9e18 {
				v = math.Copysign(9e18, v)
			}
			v = math.Trunc(v)
		}
		vals = append(vals, v)
	}
	cfgStr := fmt.Sprintf("bounds=%v int=%v noMinMax=%v shuffled-through-view-function=%v", bounds, intInst, noMinMax, viaViewFunc)
	fail := func(class, key, detail string) {
		vs := vals
		if len(vs) > 30 {
			vs = vs[:30]
		}
		k.Violate(class, key, fmt.Sprintf("%s\n%s\nvalues: %v", cfgStr, detail, vs), nil)
	}
	check := func(what string, a metricdata.Aggregation, part []float64) {
		var counts []uint64
		var gotBounds []float64
		var count uint64
		var sumF, minG, maxG float64
		var hasMin bool
		switch d := a.(type) {
		case metricdata.Histogram[float64]:
			if len(d.DataPoints) != 1 {
				fail("no-histogram-point", what, "")
				return
			}
			p := d.DataPoints[0]
			counts, gotBounds, count, sumF = p.BucketCounts, p.Bounds, p.Count, p.Sum
			minG, hasMin = p.Min.Value()
			maxG, _ = p.Max.Value()
		case metricdata.Histogram[int64]:
			if len(d.DataPoints) != 1 {
				fail("no-histogram-point", what, "")
				return
			}
			p := d.DataPoints[0]
			counts, gotBounds, count, sumF = p.BucketCounts, p.Bounds, p.Count, float64(p.Sum)
			mi, h := p.Min.Value()
			ma, _ := p.Max.Value()
			minG, maxG, hasMin = float64(mi), float64(ma), h
		default:
			fail("no-histogram-point", what, fmt.Sprintf("%T", a))
			return
		}
		// a consumer may do what it likes with a point it has received (convert units in place, say): later
		// collections are not affected by it
		defer func() {
			for i := range gotBounds {
				gotBounds[i] = -1 - 3*gotBounds[i]
			}
			for i := range counts {
				counts[i] += 1000
			}
		}()
		if len(counts) != len(bounds)+1 || len(gotBounds) != len(bounds) {
			fail("bucket-count-vs-bounds", what, fmt.Sprintf("%d counts for %d bounds", len(counts), len(gotBounds)))
			return
		}
		for i := range bounds {
			if gotBounds[i] != bounds[i] {
				fail("reported-bounds-differ", what, fmt.Sprintf("point reports bounds %v", gotBounds))
				return
			}
		}
		want := make([]uint64, len(bounds)+1)
		var wsumF float64
		var wsumI int64
		mn, mx := math.Inf(1), math.Inf(-1)
		for _, v := range part {
			// bucket i covers (bounds[i-1], bounds[i]]
			i := 0
			for i < len(bounds) && bounds[i] < v {
				i++
			}
			want[i]++
			wsumF += v
			wsumI += int64(v)
			mn, mx = math.Min(mn, v), math.Max(mx, v)
		}
		var tot uint64
		for i := range counts {
			tot += counts[i]
			if counts[i] != want[i] {
				fail("value-in-wrong-bucket", what, fmt.Sprintf("bucket counts %v want %v", counts, want))
				break
			}
		}
		if tot != count || count != uint64(len(part)) {
			fail("bucket-counts-do-not-sum-to-count", what, fmt.Sprintf("sum of buckets %d count %d records %d", tot, count, len(part)))
		}
		if intInst {
			if int64(sumF) != wsumI && float64(wsumI) != sumF {
				fail("sum-mismatch", what, fmt.Sprintf("%v want %d", sumF, wsumI))
			}
		} else if sumF != wsumF && !(math.IsNaN(sumF) && math.IsNaN(wsumF)) {
			fail("sum-mismatch", what, fmt.Sprintf("%g want %g", sumF, wsumF))
		}
		if noMinMax {
			if hasMin {
				fail("min-max-mismatch", what+" NoMinMax", "extrema present")
			}
		} else if !hasMin || minG != mn || maxG != mx {
			fail("min-max-mismatch", what, fmt.Sprintf("min %g max %g want %g %g", minG, maxG, mn, mx))
		}
		k.C.Count("explicit_points_checked", 1)
	}
	var rm, drm metricdata.ResourceMetrics
	every := 1 + r.Intn(10)
	start := 0
	for i, v := range vals {
		rec(v)
		if (i+1)%every == 0 || i == len(vals)-1 {
			if err := cum.Collect(ctx, &rm); err != nil {
				fail("collect-error", "", err.Error())
				return
			}
			check("cumulative", findMetric(&rm, "h"), vals[:i+1])
			if r.Bool() || i == len(vals)-1 {
				if err := del.Collect(ctx, &drm); err != nil {
					fail("collect-error", "", err.Error())
					return
				}
				check("delta", findMetric(&drm, "h"), vals[start:i+1])
				start = i + 1
			}
		}
	}
	k.C.Count("explicit_sequences", 1)
	k.C.Count("explicit_values", int64(len(vals)))
	k.C.Sig(fmt.Sprintf("explicit|%d|%v|%v", len(bounds), intInst, noMinMax))
	if k.C.NeedSample() && k.Index%7 == 0 {
		k.C.Sample(map[string]any{"kind": "explicit", "config": cfgStr, "values": len(vals)})
	}
}

// runObservable: an observable counter under a histogram aggregation. Every collection of a reader runs the
// callback once, so the reader's histogram receives one more observation per collection; the kind is
// monotonic, so the sum is collected and must be exact like everything else.
func runObservable(k *vf.Case) {
	r := k.R
	bounds := genBounds(r)
	expo := r.Chance(1, 3)
	var agg sdkmetric.Aggregation = sdkmetric.AggregationExplicitBucketHistogram{Boundaries: bounds}
	if expo {
		agg = sdkmetric.AggregationBase2ExponentialHistogram{MaxSize: 160, MaxScale: 20}
	}
	sel := func(sdkmetric.InstrumentKind) sdkmetric.Aggregation { return agg }
	cum := sdkmetric.NewManualReader(sdkmetric.WithAggregationSelector(sel))
	mp := sdkmetric.NewMeterProvider(sdkmetric.WithReader(cum))
	m := mp.Meter("c07o")
	ctx := context.Background()
	var cur int64
	intInst := r.Bool()
	if intInst {
		m.Int64ObservableCounter("h", metric.WithInt64Callback(func(_ context.Context, o metric.Int64Observer) error { o.Observe(cur); return nil }))
	} else {
		m.Float64ObservableCounter("h", metric.WithFloat64Callback(func(_ context.Context, o metric.Float64Observer) error { o.Observe(float64(cur)); return nil }))
	}
	var rm metricdata.ResourceMetrics
	var n uint64
	var sum int64
	mn, mx := int64(math.MaxInt64), int64(math.MinInt64)
	for i := 1 + r.Intn(30); i > 0; i-- {
		cur = int64(1 + r.Intn(100000))
		n++
		sum += cur
		mn, mx = min(mn, cur), max(mx, cur)
		if err := cum.Collect(ctx, &rm); err != nil {
			k.Violate("collect-error", "observable", err.Error(), nil)
			return
		}
		var count uint64
		var gotSum, gotMin, gotMax float64
		var buckets uint64
		switch d := findMetric(&rm, "h").(type) {
		case metricdata.Histogram[int64]:
			p := d.DataPoints[0]
			count, gotSum = p.Count, float64(p.Sum)
			a, _ := p.Min.Value()
			b, _ := p.Max.Value()
			gotMin, gotMax = float64(a), float64(b)
			for _, c := range p.BucketCounts {
				buckets += c
			}
		case metricdata.Histogram[float64]:
			p := d.DataPoints[0]
			count, gotSum = p.Count, p.Sum
			gotMin, _ = p.Min.Value()
			gotMax, _ = p.Max.Value()
			for _, c := range p.BucketCounts {
				buckets += c
			}
		case metricdata.ExponentialHistogram[int64]:
			p := d.DataPoints[0]
			count, gotSum = p.Count, float64(p.Sum)
			a, _ := p.Min.Value()
			b, _ := p.Max.Value()
			gotMin, gotMax = float64(a), float64(b)
			buckets = p.ZeroCount
			for _, c := range p.PositiveBucket.Counts {
				buckets += c
			}
		case metricdata.ExponentialHistogram[float64]:
			p := d.DataPoints[0]
			count, gotSum = p.Count, p.Sum
			gotMin, _ = p.Min.Value()
			gotMax, _ = p.Max.Value()
			buckets = p.ZeroCount
			for _, c := range p.PositiveBucket.Counts {
				buckets += c
			}
		default:
			k.Violate("no-histogram-point", "observable", fmt.Sprintf("%T", d), nil)
			return
		}
		if count != n || buckets != n {
			k.Violate("bucket-counts-do-not-sum-to-count", "observable counter", fmt.Sprintf("count %d, buckets add up to %d, %d observations", count, buckets, n), nil)
			return
		}
		if gotSum != float64(sum) {
			k.Violate("sum-mismatch", "observable counter", fmt.Sprintf("expo=%v int=%v: sum %v after observations adding up to %d", expo, intInst, gotSum, sum), nil)
			return
		}
		if gotMin != float64(mn) || gotMax != float64(mx) {
			k.Violate("min-max-mismatch", "observable counter", fmt.Sprintf("min %v max %v want %d %d", gotMin, gotMax, mn, mx), nil)
			return
		}
	}
	k.C.Count("observable_sequences", 1)
	k.C.Sig(fmt.Sprintf("observable|%v|%v", expo, intInst))
}

// runConcurrent: writers record while a collector reads the cumulative and the delta reader. Every collected
// point, whenever it was taken, must be consistent in itself: the buckets add up to the count, min <= max,
// the sum lies between count*lowest and count*highest recorded value; at the quiescent end nothing is missing.
func runConcurrent(k *vf.Case) {
	r := k.R
	expo := r.Bool()
	var agg sdkmetric.Aggregation = sdkmetric.AggregationExplicitBucketHistogram{Boundaries: []float64{10, 100, 1000}}
	if expo {
		agg = sdkmetric.AggregationBase2ExponentialHistogram{MaxSize: vf.Pick(r, []int32{4, 20, 160}), MaxScale: 20}
	}
	sel := func(sdkmetric.InstrumentKind) sdkmetric.Aggregation { return agg }
	cum := sdkmetric.NewManualReader(sdkmetric.WithAggregationSelector(sel))
	del := sdkmetric.NewManualReader(sdkmetric.WithAggregationSelector(sel),
		sdkmetric.WithTemporalitySelector(func(sdkmetric.InstrumentKind) metricdata.Temporality { return metricdata.DeltaTemporality }))
	mp := sdkmetric.NewMeterProvider(sdkmetric.WithReader(cum), sdkmetric.WithReader(del))
	h, _ := mp.Meter("c07c").Float64Histogram("h")
	ctx := context.Background()
	G := vf.Pick(r, []int{2, 4, 8})
	per := 500 + r.Intn(3000)
	const lo, hi = 1.0, 5000.0
	var wg sync.WaitGroup
	release := make(chan struct{})
	for g := 0; g < G; g++ {
		seed := r.U64()
		wg.Add(1)
		go func() {
			defer wg.Done()
			defer func() {
				if rec := recover(); rec != nil {
					k.Violate("panic", "concurrent recording", fmt.Sprint(rec), nil)
				}
			}()
			gr := vf.NewRNG(seed)
			<-release
			for i := 0; i < per; i++ {
				h.Record(ctx, float64(1+gr.Intn(5000)))
			}
		}()
	}
	var deltaTotal, lastCum uint64
	bad := false
	look := func(rd *sdkmetric.ManualReader, what string) {
		var rm metricdata.ResourceMetrics
		if err := rd.Collect(ctx, &rm); err != nil {
			k.Violate("collect-error", "concurrent", err.Error(), nil)
			bad = true
			return
		}
		var count, buckets uint64
		var sum, mn, mx float64
		var has bool
		switch d := findMetric(&rm, "h").(type) {
		case metricdata.Histogram[float64]:
			if len(d.DataPoints) == 0 {
				return
			}
			p := d.DataPoints[0]
			count, sum = p.Count, p.Sum
			mn, has = p.Min.Value()
			mx, _ = p.Max.Value()
			for _, c := range p.BucketCounts {
				buckets += c
			}
		case metricdata.ExponentialHistogram[float64]:
			if len(d.DataPoints) == 0 {
				return
			}
			p := d.DataPoints[0]
			count, sum = p.Count, p.Sum
			mn, has = p.Min.Value()
			mx, _ = p.Max.Value()
			buckets = p.ZeroCount
			for _, c := range p.PositiveBucket.Counts {
				buckets += c
			}
			for _, c := range p.NegativeBucket.Counts {
				buckets += c
			}
		default:
			return
		}
		if buckets != count {
			k.Violate("bucket-counts-do-not-sum-to-count", "concurrent "+what, fmt.Sprintf("expo=%v: count %d, buckets add up to %d (collected while %d goroutines record)", expo, count, buckets, G), nil)
			bad = true
		}
		if count > 0 && (!has || mn > mx || mn < lo || mx > hi || sum < float64(count)*mn-1e-6 || sum > float64(count)*mx+1e-6) {
			k.Violate("torn-point", "concurrent "+what, fmt.Sprintf("expo=%v: count %d sum %v min %v max %v", expo, count, sum, mn, mx), nil)
			bad = true
		}
		if what == "delta" {
			deltaTotal += count
		} else {
			if count < lastCum {
				k.Violate("cumulative-count-decreased", "concurrent", fmt.Sprintf("%d after %d", count, lastCum), nil)
				bad = true
			}
			lastCum = count
		}
		k.C.Count("concurrent_points_checked", 1)
	}
	close(release)
	for i := 0; i < 60 && !bad; i++ {
		look(cum, "cumulative")
		look(del, "delta")
	}
	wg.Wait()
	if bad {
		return
	}
	look(cum, "cumulative")
	look(del, "delta")
	if lastCum != uint64(G*per) || deltaTotal != uint64(G*per) {
		k.Violate("measurements-lost", "concurrent", fmt.Sprintf("expo=%v: cumulative count %d, delta counts add up to %d, %d records", expo, lastCum, deltaTotal, G*per), nil)
	}
	k.C.Count("concurrent_histories", 1)
	k.C.Sig(fmt.Sprintf("concurrent|%v|%d", expo, G))
	mp.Shutdown(ctx)
}

func main() {
	vf.Main("C07", "exploration", func(c *vf.Ctx) {
		c.Rule = "measurement sequences through the public API (view-less aggregation selector, int64 and float64 histograms, cumulative reader collected after EVERY record, delta reader every 1-8 records): random magnitudes over the whole float64 exponent range, subnormals, signs, zeros, exact powers of two, +-1/+-2 ulp neighbours of 2^(k/2^s) boundaries, designed grow-below/grow-above/long-downscale-chain sequences; (MaxSize,MaxScale) in {1,2,3,4,20,160}x{-10,-3,0,1,5,10,20}; explicit boundary lists (empty, one, default, 100 random, adjacent floats, huge/tiny/negative fractional) with values on boundaries, a quarter of them handed over shuffled through a view function; every checked point is scribbled over by the consumer. distinct = distinct (kind, MaxSize, MaxScale, final scale, number type, design, downscale count class) signatures"
		c.Assume = []string{"exact bucket index from a 512-bit big.Float binary logarithm (110 fractional bits); scale <= 0 and powers of two by exponent arithmetic", "int64 measurements are bucketed as float64(v)", "Inf/NaN measurements are outside the statement (finite measurements)"}
		otel.SetErrorHandler(&errSink{})
		c.Cases("expo", c.N(6000, 80_000), 0, runExpo)
		c.Cases("explicit", c.N(6000, 80_000), 0, runExplicit)
		c.Cases("observable", c.N(1500, 20_000), 0, runObservable)
		c.Cases("concurrent", c.N(240, 3000), 4, runConcurrent)
		c.Floor("observable_sequences", 500)
		c.Floor("concurrent_histories", 100)
		c.Floor("values_bucket_checked", 50_000)
		c.Floor("values_power_of_two", 1000)
		c.Floor("values_boundary_neighbour_correct", 1000)
		c.Floor("expo_downscale_events", 5000)
		c.Floor("explicit_points_checked", 10_000)
	})
}

var _ = metric.WithUnit
