// C12 — cardinality limits and attribute filters conserve every measurement.
package main

import (
	"context"
	"fmt"
	"os"
	"sort"
	"strings"
	"sync"

	"github.com/go-logr/logr"
	"go.opentelemetry.io/otel"
	"go.opentelemetry.io/otel/attribute"
	"go.opentelemetry.io/otel/metric"
	"go.opentelemetry.io/otel/sdk/instrumentation"
	sdkmetric "go.opentelemetry.io/otel/sdk/metric"
	"go.opentelemetry.io/otel/sdk/metric/metricdata"

	"verifharness/vf"
)

const overflowKey = "otel.metric.overflow=true"

func setString(s attribute.Set) string {
	var p []string
	for _, kv := range s.ToSlice() {
		p = append(p, string(kv.Key)+"="+kv.Value.Emit())
	}
	return strings.Join(p, ",")
}

type val struct {
	kind  string // sum gauge hist
	v     float64
	count uint64
}

// read: stream name -> set string -> value
func read(rm *metricdata.ResourceMetrics) (map[string]map[string]val, []string) {
	out := map[string]map[string]val{}
	var probs []string
	put := func(name string, set attribute.Set, v val) {
		if out[name] == nil {
			out[name] = map[string]val{}
		}
		k := setString(set)
		if _, dup := out[name][k]; dup {
			probs = append(probs, fmt.Sprintf("%s: set {%s} reported twice", name, k))
		}
		out[name][k] = v
	}
	seenName := map[string]bool{}
	for _, sm := range rm.ScopeMetrics {
		for _, m := range sm.Metrics {
			if seenName[m.Name] {
				probs = append(probs, "stream "+m.Name+" reported twice in one collection")
			}
			seenName[m.Name] = true
			switch d := m.Data.(type) {
			case metricdata.Sum[int64]:
				for _, p := range d.DataPoints {
					put(m.Name, p.Attributes, val{"sum", float64(p.Value), 0})
				}
			case metricdata.Sum[float64]:
				for _, p := range d.DataPoints {
					put(m.Name, p.Attributes, val{"sum", p.Value, 0})
				}
			case metricdata.Gauge[int64]:
				for _, p := range d.DataPoints {
					put(m.Name, p.Attributes, val{"gauge", float64(p.Value), 0})
				}
			case metricdata.Gauge[float64]:
				for _, p := range d.DataPoints {
					put(m.Name, p.Attributes, val{"gauge", p.Value, 0})
				}
			case metricdata.Histogram[int64]:
				for _, p := range d.DataPoints {
					var bt uint64
					for _, c := range p.BucketCounts {
						bt += c
					}
					if bt != p.Count {
						probs = append(probs, m.Name+": bucket counts do not sum to count")
					}
					put(m.Name, p.Attributes, val{"hist", float64(p.Sum), p.Count})
				}
			case metricdata.Histogram[float64]:
				for _, p := range d.DataPoints {
					var bt uint64
					for _, c := range p.BucketCounts {
						bt += c
					}
					if bt != p.Count {
						probs = append(probs, m.Name+": bucket counts do not sum to count")
					}
					put(m.Name, p.Attributes, val{"hist", p.Sum, p.Count})
				}
			case metricdata.ExponentialHistogram[int64]:
				for _, p := range d.DataPoints {
					put(m.Name, p.Attributes, val{"hist", float64(p.Sum), p.Count})
				}
			case metricdata.ExponentialHistogram[float64]:
				for _, p := range d.DataPoints {
					put(m.Name, p.Attributes, val{"hist", p.Sum, p.Count})
				}
			default:
				probs = append(probs, fmt.Sprintf("%s: unexpected %T", m.Name, m.Data))
			}
		}
	}
	return out, probs
}

// ---------------------------------------------------------------------------------------------
// expected streams per view configuration

type streamSpec struct {
	out    string
	filter string // "" | "allow-a" | "deny-a"
	agg    string // sum | gauge | hist | drop  (resulting aggregation)
	async  bool
}

type meas struct {
	inst string
	a, b int
	ovf  bool // the literal overflow set used as a normal set
	v    int64
}

func (m meas) set() attribute.Set {
	if m.ovf {
		return attribute.NewSet(attribute.Bool("otel.metric.overflow", true))
	}
	if wideAttrs {
		// two more attributes that never vary: filters then have something to drop behind what they keep
		return attribute.NewSet(attribute.Int("a", m.a), attribute.Int("b", m.b), attribute.String("c", "x"), attribute.String("d", "y"))
	}
	return attribute.NewSet(attribute.Int("a", m.a), attribute.Int("b", m.b))
}

// wideAttrs is set per history (histories run one at a time in a process).
var wideAttrs bool

func filtered(m meas, f string) string {
	if m.ovf {
		switch f {
		case "allow-a", "allow-ab", "even-a-and-b":
			return ""
		}
		return overflowKey
	}
	tail := ""
	if wideAttrs {
		tail = ",c=x,d=y"
	}
	switch f {
	case "allow-a":
		return fmt.Sprintf("a=%d", m.a)
	case "allow-ab":
		return fmt.Sprintf("a=%d,b=%d", m.a, m.b)
	case "deny-a":
		return fmt.Sprintf("b=%d", m.b) + tail
	case "even-a-and-b":
		if m.a%2 == 0 {
			return fmt.Sprintf("a=%d,b=%d", m.a, m.b)
		}
		return fmt.Sprintf("b=%d", m.b)
	}
	return fmt.Sprintf("a=%d,b=%d", m.a, m.b) + tail
}

var defaultAgg = map[string]string{"ci": "sum", "ci2": "sum", "cf": "sum", "ui": "sum", "hf": "hist", "gi": "gauge", "oci": "sum", "ogi": "gauge", "ocf": "sum"}
var isAsync = map[string]bool{"oci": true, "ogi": true, "ocf": true}
var instruments = []string{"ci", "ci2", "cf", "ui", "hf", "gi", "oci", "ogi", "ocf"}

var histBounds = []float64{0, 10, 100, 1000}

func viewConfig(cfg int) ([]sdkmetric.View, map[string][]streamSpec, string) {
	specs := map[string][]streamSpec{}
	def := func(inst string) streamSpec {
		return streamSpec{out: inst, agg: defaultAgg[inst], async: isAsync[inst]}
	}
	for _, i := range instruments {
		specs[i] = []streamSpec{def(i)}
	}
	var views []sdkmetric.View
	name := ""
	switch cfg {
	case 0:
		name = "no views"
	case 1:
		name = "allow-keys filter on every instrument"
		views = append(views, sdkmetric.NewView(sdkmetric.Instrument{Name: "*"}, sdkmetric.Stream{AttributeFilter: allowKeys("a")}))
		for _, i := range instruments {
			s := def(i)
			s.filter = "allow-a"
			specs[i] = []streamSpec{s}
		}
	case 2:
		name = "deny-keys filter on every instrument"
		views = append(views, sdkmetric.NewView(sdkmetric.Instrument{Name: "*"}, sdkmetric.Stream{AttributeFilter: denyKeys("a")}))
		for _, i := range instruments {
			s := def(i)
			s.filter = "deny-a"
			specs[i] = []streamSpec{s}
		}
	case 3:
		name = "rename"
		views = append(views, sdkmetric.NewView(sdkmetric.Instrument{Name: "ci"}, sdkmetric.Stream{Name: "renamed"}),
			sdkmetric.NewView(sdkmetric.Instrument{Name: "oci"}, sdkmetric.Stream{Name: "renamed_async"}))
		specs["ci"] = []streamSpec{{out: "renamed", agg: "sum"}}
		specs["oci"] = []streamSpec{{out: "renamed_async", agg: "sum", async: true}}
	case 4:
		name = "re-aggregation and drop"
		views = append(views,
			sdkmetric.NewView(sdkmetric.Instrument{Name: "ci"}, sdkmetric.Stream{Aggregation: sdkmetric.AggregationExplicitBucketHistogram{Boundaries: histBounds}}),
			sdkmetric.NewView(sdkmetric.Instrument{Name: "hf"}, sdkmetric.Stream{Aggregation: sdkmetric.AggregationSum{}}),
			sdkmetric.NewView(sdkmetric.Instrument{Name: "cf"}, sdkmetric.Stream{Aggregation: sdkmetric.AggregationDrop{}}),
			sdkmetric.NewView(sdkmetric.Instrument{Name: "ui"}, sdkmetric.Stream{Aggregation: sdkmetric.AggregationBase2ExponentialHistogram{MaxSize: 160, MaxScale: 20}}),
			sdkmetric.NewView(sdkmetric.Instrument{Name: "ogi"}, sdkmetric.Stream{Aggregation: sdkmetric.AggregationDrop{}}))
		specs["ci"] = []streamSpec{{out: "ci", agg: "hist"}}
		specs["hf"] = []streamSpec{{out: "hf", agg: "sum"}}
		specs["cf"] = []streamSpec{{out: "cf", agg: "drop"}}
		specs["ui"] = []streamSpec{{out: "ui", agg: "hist-nosum"}} // histograms of non-monotonic instruments carry no sum
		specs["ogi"] = []streamSpec{{out: "ogi", agg: "drop", async: true}}
	case 5:
		name = "two views, different streams"
		views = append(views, sdkmetric.NewView(sdkmetric.Instrument{Name: "ci"}, sdkmetric.Stream{Name: "ci_all"}),
			sdkmetric.NewView(sdkmetric.Instrument{Name: "ci"}, sdkmetric.Stream{Name: "ci_by_a", AttributeFilter: allowKeys("a")}),
			sdkmetric.NewView(sdkmetric.Instrument{Name: "hf"}, sdkmetric.Stream{Name: "hf_by_b", AttributeFilter: denyKeys("a")}),
			sdkmetric.NewView(sdkmetric.Instrument{Name: "hf"}, sdkmetric.Stream{Name: "hf_sum", Aggregation: sdkmetric.AggregationSum{}}))
		specs["ci"] = []streamSpec{{out: "ci_all", agg: "sum"}, {out: "ci_by_a", filter: "allow-a", agg: "sum"}}
		specs["hf"] = []streamSpec{{out: "hf_by_b", filter: "deny-a", agg: "hist"}, {out: "hf_sum", agg: "sum"}}
	case 6:
		name = "two views, same stream"
		views = append(views, sdkmetric.NewView(sdkmetric.Instrument{Name: "ci"}, sdkmetric.Stream{Name: "ci_same"}),
			sdkmetric.NewView(sdkmetric.Instrument{Name: "ci"}, sdkmetric.Stream{Name: "ci_same"}),
			sdkmetric.NewView(sdkmetric.Instrument{Name: "c?"}, sdkmetric.Stream{AttributeFilter: allowKeys("a", "b")}))
		specs["ci"] = []streamSpec{{out: "ci_same", agg: "sum"}, {out: "ci", filter: "allow-ab", agg: "sum"}}
		specs["cf"] = []streamSpec{{out: "cf", filter: "allow-ab", agg: "sum"}}
	case 9:
		name = "three views, first and third on the same stream; a drop view before a keeping view"
		views = append(views, sdkmetric.NewView(sdkmetric.Instrument{Name: "ci"}, sdkmetric.Stream{Name: "ci_same"}),
			sdkmetric.NewView(sdkmetric.Instrument{Name: "ci"}, sdkmetric.Stream{Name: "ci_by_a", AttributeFilter: allowKeys("a")}),
			sdkmetric.NewView(sdkmetric.Instrument{Name: "ci", Kind: sdkmetric.InstrumentKindCounter}, sdkmetric.Stream{Name: "ci_same"}),
			sdkmetric.NewView(sdkmetric.Instrument{Name: "cf"}, sdkmetric.Stream{Aggregation: sdkmetric.AggregationDrop{}}),
			sdkmetric.NewView(sdkmetric.Instrument{Name: "cf", Kind: sdkmetric.InstrumentKindCounter}, sdkmetric.Stream{Name: "cf_kept"}),
			sdkmetric.NewView(sdkmetric.Instrument{Name: "oci"}, sdkmetric.Stream{Aggregation: sdkmetric.AggregationDrop{}}),
			sdkmetric.NewView(sdkmetric.Instrument{Name: "oci", Kind: sdkmetric.InstrumentKindObservableCounter}, sdkmetric.Stream{Name: "oci_kept"}))
		specs["ci"] = []streamSpec{{out: "ci_same", agg: "sum"}, {out: "ci_by_a", filter: "allow-a", agg: "sum"}}
		specs["cf"] = []streamSpec{{out: "cf", agg: "drop"}, {out: "cf_kept", agg: "sum"}}
		specs["oci"] = []streamSpec{{out: "oci", agg: "drop", async: true}, {out: "oci_kept", agg: "sum", async: true}}
	case 10:
		// a histogram fed by a callback is an ordinary histogram: every collection of a reader adds that
		// cycle's observations once (cumulative accumulates, delta starts afresh); monotonic kinds keep their sum
		name = "asynchronous instruments re-aggregated to histograms"
		views = append(views, sdkmetric.NewView(sdkmetric.Instrument{Name: "oci"}, sdkmetric.Stream{Aggregation: sdkmetric.AggregationExplicitBucketHistogram{Boundaries: histBounds}}),
			sdkmetric.NewView(sdkmetric.Instrument{Name: "ogi"}, sdkmetric.Stream{Aggregation: sdkmetric.AggregationBase2ExponentialHistogram{MaxSize: 160, MaxScale: 20}}),
			sdkmetric.NewView(sdkmetric.Instrument{Name: "ci"}, sdkmetric.Stream{Aggregation: sdkmetric.AggregationBase2ExponentialHistogram{MaxSize: 160, MaxScale: 20}}))
		specs["oci"] = []streamSpec{{out: "oci", agg: "hist"}}
		specs["ogi"] = []streamSpec{{out: "ogi", agg: "hist-nosum"}}
		specs["ci"] = []streamSpec{{out: "ci", agg: "hist"}}
	case 11:
		// a view named "*" still has to honour its other criteria
		name = "wildcard name combined with kind / unit / scope criteria"
		views = append(views, sdkmetric.NewView(sdkmetric.Instrument{Name: "*", Kind: sdkmetric.InstrumentKindHistogram}, sdkmetric.Stream{Aggregation: sdkmetric.AggregationDrop{}}),
			sdkmetric.NewView(sdkmetric.Instrument{Name: "*", Unit: "no-such-unit"}, sdkmetric.Stream{AttributeFilter: allowKeys("a")}),
			sdkmetric.NewView(sdkmetric.Instrument{Name: "*", Scope: instrumentation.Scope{Name: "another-scope"}}, sdkmetric.Stream{Aggregation: sdkmetric.AggregationDrop{}}),
			sdkmetric.NewView(sdkmetric.Instrument{Name: "*", Kind: sdkmetric.InstrumentKindObservableGauge}, sdkmetric.Stream{AttributeFilter: denyKeys("a")}))
		specs["hf"] = []streamSpec{{out: "hf", agg: "drop"}}
		{
			sp := def("ogi")
			sp.filter = "deny-a"
			specs["ogi"] = []streamSpec{sp}
		}
	case 12:
		// a filter is a predicate over key AND value: this one keeps "a" only while its value is even
		name = "value-dependent attribute filter on every instrument"
		views = append(views, sdkmetric.NewView(sdkmetric.Instrument{Name: "*"}, sdkmetric.Stream{AttributeFilter: func(kv attribute.KeyValue) bool {
			if kv.Key == "a" {
				return kv.Value.AsInt64()%2 == 0
			}
			return kv.Key == "b"
		}}))
		for _, i := range instruments {
			s := def(i)
			s.filter = "even-a-and-b"
			specs[i] = []streamSpec{s}
		}
	case 8:
		name = "valid views next to an incompatible sibling view"
		views = append(views, sdkmetric.NewView(sdkmetric.Instrument{Name: "ci"}, sdkmetric.Stream{Name: "ci_valid", AttributeFilter: allowKeys("a")}),
			sdkmetric.NewView(sdkmetric.Instrument{Name: "ci"}, sdkmetric.Stream{Name: "ci_bad", Aggregation: sdkmetric.AggregationLastValue{}}),
			sdkmetric.NewView(sdkmetric.Instrument{Name: "hf"}, sdkmetric.Stream{Name: "hf_bad", Aggregation: sdkmetric.AggregationLastValue{}}),
			sdkmetric.NewView(sdkmetric.Instrument{Name: "hf"}, sdkmetric.Stream{Name: "hf_valid"}))
		specs["ci"] = []streamSpec{{out: "ci_valid", filter: "allow-a", agg: "sum"}}
		specs["hf"] = []streamSpec{{out: "hf_valid", agg: "hist"}}
	default:
		name = "two instruments renamed onto one stream"
		views = append(views, sdkmetric.NewView(sdkmetric.Instrument{Name: "ci"}, sdkmetric.Stream{Name: "merged"}),
			sdkmetric.NewView(sdkmetric.Instrument{Name: "ci2"}, sdkmetric.Stream{Name: "merged"}))
		specs["ci"] = []streamSpec{{out: "merged", agg: "sum"}}
		specs["ci2"] = []streamSpec{{out: "merged", agg: "sum"}}
	}
	return views, specs, name
}

// ---------------------------------------------------------------------------------------------
// reference limiter + ledger for one output stream and one reader

type ledger struct {
	L     int
	agg   string
	seen  map[string]bool
	vals  map[string]*val
	order []string
}

func newLedger(L int, agg string) *ledger {
	return &ledger{L: L, agg: agg, seen: map[string]bool{}, vals: map[string]*val{}}
}

func (l *ledger) reset() {
	l.seen, l.vals, l.order = map[string]bool{}, map[string]*val{}, nil
}

func (l *ledger) measure(set string, v int64) (overflowed bool) {
	key := set
	if l.L > 0 && !l.seen[set] && len(l.seen) >= l.L-1 {
		key = overflowKey
		overflowed = true
	}
	if !l.seen[key] {
		l.seen[key] = true
		l.order = append(l.order, key)
		l.vals[key] = &val{kind: l.agg}
	}
	p := l.vals[key]
	switch l.agg {
	case "sum":
		p.v += float64(v)
	case "gauge":
		p.v = float64(v)
	case "hist":
		p.v += float64(v)
		p.count++
	case "hist-nosum":
		p.count++
	}
	return
}

func compare(got map[string]val, want map[string]*val) string {
	var diffs []string
	for k, w := range want {
		g, ok := got[k]
		if !ok {
			diffs = append(diffs, fmt.Sprintf("missing {%s}", k))
			continue
		}
		if g.v != w.v || g.count != w.count {
			diffs = append(diffs, fmt.Sprintf("{%s}: got %v/%d want %v/%d", k, g.v, g.count, w.v, w.count))
		}
	}
	for k := range got {
		if _, ok := want[k]; !ok {
			diffs = append(diffs, fmt.Sprintf("unexpected {%s}", k))
		}
	}
	sort.Strings(diffs)
	if len(diffs) > 6 {
		diffs = append(diffs[:6], fmt.Sprintf("… %d more", len(diffs)-6))
	}
	return strings.Join(diffs, "; ")
}

// allowKeys / denyKeys build the filter from a scratch key slice that the caller goes on using (as code that
// assembles several views from one buffer does): a filter keeps the keys it was built with.
func allowKeys(keys ...attribute.Key) attribute.Filter {
	scratch := append(make([]attribute.Key, 0, 8), keys...)
	f := attribute.NewAllowKeysFilter(scratch...)
	for i := range scratch {
		scratch[i] = "scribbled"
	}
	return f
}

func denyKeys(keys ...attribute.Key) attribute.Filter {
	scratch := append(make([]attribute.Key, 0, 8), keys...)
	f := attribute.NewDenyKeysFilter(scratch...)
	for i := range scratch {
		scratch[i] = "scribbled"
	}
	return f
}

func runHistory(k *vf.Case) {
	r := k.R
	ctx := context.Background()
	Lname := vf.Pick(r, []string{"unset", "0", "1", "2", "3", "10", "100", "-1", "-50", "abc"})
	L := 0
	if Lname == "unset" {
		os.Unsetenv("OTEL_GO_X_CARDINALITY_LIMIT")
	} else {
		os.Setenv("OTEL_GO_X_CARDINALITY_LIMIT", Lname)
		fmt.Sscan(Lname, &L)
		if L < 0 {
			L = 0 // a negative limit is documented to disable the limit; an unparsable one is ignored
		}
	}
	defer os.Unsetenv("OTEL_GO_X_CARDINALITY_LIMIT")
	cfg := r.Intn(13)
	wideAttrs = r.Bool()
	views, specs, cfgName := viewConfig(cfg)
	dr := sdkmetric.NewManualReader(sdkmetric.WithTemporalitySelector(func(sdkmetric.InstrumentKind) metricdata.Temporality { return metricdata.DeltaTemporality }))
	cr := sdkmetric.NewManualReader()
	ropts := []sdkmetric.Option{sdkmetric.WithReader(dr), sdkmetric.WithReader(cr)}
	if r.Bool() {
		ropts[0], ropts[1] = ropts[1], ropts[0] // which reader's pipeline comes first matters to what is shared between them
	}
	mp := sdkmetric.NewMeterProvider(append(ropts, sdkmetric.WithView(views...))...)
	m := mp.Meter("c12")
	var script []meas // async observations of the current cycle
	replayI := func(inst string) metric.Int64Callback {
		return func(_ context.Context, o metric.Int64Observer) error {
			for _, ms := range script {
				if ms.inst == inst {
					o.Observe(ms.v, metric.WithAttributeSet(ms.set()))
				}
			}
			return nil
		}
	}
	ci, e1 := m.Int64Counter("ci")
	ci2, e2 := m.Int64Counter("ci2")
	cf, e3 := m.Float64Counter("cf")
	ui, e4 := m.Int64UpDownCounter("ui")
	hf, e5 := m.Float64Histogram("hf")
	gi, e6 := m.Int64Gauge("gi")
	// a third of the histories have no asynchronous instrument at all: a pipeline without callbacks takes
	// other paths (a collection on a done context then succeeds, for one)
	noAsync := r.Chance(1, 3)
	var e7, e8 error
	if !noAsync {
		_, e7 = m.Int64ObservableCounter("oci", metric.WithInt64Callback(replayI("oci")))
		_, e8 = m.Int64ObservableGauge("ogi", metric.WithInt64Callback(replayI("ogi")))
		_, e9 := m.Float64ObservableCounter("ocf", metric.WithFloat64Callback(func(_ context.Context, o metric.Float64Observer) error {
			for _, ms := range script {
				if ms.inst == "ocf" {
					o.Observe(float64(ms.v), metric.WithAttributeSet(ms.set()))
				}
			}
			return nil
		}))
		if e9 != nil && e8 == nil {
			e8 = e9
		}
	} else {
		k.C.Count("histories_without_callbacks", 1)
		for _, inst := range []string{"oci", "ogi", "ocf"} {
			delete(specs, inst)
		}
	}
	if cfg == 8 {
		// the incompatible sibling views make creation report an error next to a usable instrument
		if e1 == nil || e5 == nil {
			k.Violate("incompatible-view-not-reported", cfgName, "", nil)
		}
		e1, e5 = nil, nil
	}
	for _, e := range []error{e1, e2, e3, e4, e5, e6, e7, e8} {
		if e != nil {
			k.Violate("instrument-creation-error", cfgName, e.Error(), nil)
			return
		}
	}
	// half of the histories pass their attributes as a long key-value list in which earlier entries are
	// overridden by later ones (defaults..., dimensions..., overrides...): the last value per key counts
	listForm := r.Bool()
	if listForm {
		k.C.Count("histories_recording_with_long_overridden_attribute_lists", 1)
	}
	record := func(ms meas) {
		o := metric.WithAttributeSet(ms.set())
		if listForm && !ms.ovf {
			fs := ms.set()
			final := fs.ToSlice()
			var kvs []attribute.KeyValue
			for n := 12 + r.Intn(20); len(kvs) < n; {
				for _, kv := range final {
					switch kv.Value.Type() {
					case attribute.INT64:
						kvs = append(kvs, attribute.Int(string(kv.Key), -1-r.Intn(5)))
					default:
						kvs = append(kvs, attribute.String(string(kv.Key), "default"))
					}
				}
			}
			r.Shuffle(len(kvs), func(i, j int) { kvs[i], kvs[j] = kvs[j], kvs[i] })
			rev := append([]attribute.KeyValue(nil), final...)
			r.Shuffle(len(rev), func(i, j int) { rev[i], rev[j] = rev[j], rev[i] })
			kvs = append(kvs, rev...)
			o = metric.WithAttributes(kvs...)
		}
		switch ms.inst {
		case "ci":
			ci.Add(ctx, ms.v, o)
		case "ci2":
			ci2.Add(ctx, ms.v, o)
		case "cf":
			cf.Add(ctx, float64(ms.v), o)
		case "ui":
			ui.Add(ctx, ms.v, o)
		case "hf":
			hf.Record(ctx, float64(ms.v), o)
		case "gi":
			gi.Record(ctx, ms.v, o)
		}
	}
	// ledgers: stream -> reader ("delta"/"cumulative") -> ledger
	ledgers := map[string]map[string]*ledger{}
	streamAsync := map[string]bool{}
	for _, inst := range instruments {
		for _, sp := range specs[inst] {
			if sp.agg == "drop" {
				continue
			}
			if ledgers[sp.out] == nil {
				ledgers[sp.out] = map[string]*ledger{"delta": newLedger(L, sp.agg), "cumulative": newLedger(L, sp.agg)}
				streamAsync[sp.out] = sp.async
			}
		}
	}
	asyncFed := map[string]bool{} // output streams fed by asynchronous instruments
	for inst := range isAsync {
		for _, sp := range specs[inst] {
			asyncFed[sp.out] = true
		}
	}
	failedAttempt := map[string]bool{} // reader -> a collection attempt on a done context has failed in this history
	dropped := map[string]bool{}
	for _, inst := range instruments {
		for _, sp := range specs[inst] {
			if sp.agg == "drop" {
				dropped[sp.out] = true
			}
		}
	}
	A, B := 1+r.Intn(6), 1+r.Intn(6)
	nDistinct := 1 + r.Intn(400)
	if nDistinct > 40 && r.Bool() {
		nDistinct = 1 + r.Intn(12)
	}
	if nDistinct > A*B {
		A, B = 20, 20
	}
	cycles := 1 + r.Intn(8)
	crossed, overflowPoints, merges := false, 0, 0
	fail := func(class, key, detail string) {
		k.Violate(class, key, fmt.Sprintf("limit=%s views=%q\n%s", Lname, cfgName, detail), nil)
	}
	var drm, crm metricdata.ResourceMetrics
	for cyc := 0; cyc < cycles; cyc++ {
		// the stream of attribute sets of this cycle, in an adversarial order
		var sets [][2]int
		switch r.Intn(4) {
		case 0: // all new
			for i := 0; i < nDistinct; i++ {
				sets = append(sets, [2]int{(i + cyc*7) % A, (i / A) % B})
			}
		case 1: // repeats exactly around the L-1 boundary
			n := L + 1
			if n < 2 {
				n = 3
			}
			for rep := 0; rep < 3; rep++ {
				for i := 0; i < n; i++ {
					sets = append(sets, [2]int{i % A, (i / A) % B})
				}
			}
		case 2: // reversed order w.r.t. the previous cycle (identity of the first L-1 changes in delta)
			for i := nDistinct - 1; i >= 0; i-- {
				sets = append(sets, [2]int{i % A, (i / A) % B})
			}
		default:
			for i := 0; i < nDistinct; i++ {
				sets = append(sets, [2]int{r.Intn(A), r.Intn(B)})
			}
		}
		script = script[:0]
		apply := func(ms meas) {
			for _, sp := range specs[ms.inst] {
				if sp.agg == "drop" {
					continue
				}
				fs := filtered(ms, sp.filter)
				if sp.filter != "" {
					merges++
				}
				for _, rd := range []string{"delta", "cumulative"} {
					if ledgers[sp.out][rd].measure(fs, ms.v) {
						crossed = true
					}
				}
			}
		}
		for i, st := range sets {
			inst := instruments[r.Intn(6)] // sync ones
			ms := meas{inst: inst, a: st[0], b: st[1], v: int64(1 + r.Intn(500))}
			if inst == "ui" && r.Bool() {
				ms.v = -ms.v
			}
			if r.Chance(1, 10) {
				ms.v = 0 // a measurement of exactly zero is a measurement
			}
			if r.Chance(1, 40) {
				ms.ovf = true
			}
			record(ms)
			apply(ms)
			if i%3 == 0 && !noAsync { // async observation scripted for this cycle
				am := meas{inst: vf.Pick(r, []string{"oci", "ogi", "ocf"}), a: st[0], b: st[1], v: int64(1 + r.Intn(500))}
				script = append(script, am)
			}
		}
		// async ledgers are per collection: every collection re-runs the callbacks
		for _, rd := range []string{"delta", "cumulative"} {
			for out, a := range streamAsync {
				if a {
					ledgers[out][rd].reset()
				}
			}
		}
		for _, am := range script {
			apply(am)
		}
		// in some cycles the collection is first attempted with a context that is already done: it either
		// fails without consuming anything (the collection that follows then reports everything) or it
		// succeeds and is this cycle's collection
		collect := func(name string, rd *sdkmetric.ManualReader, rm *metricdata.ResourceMetrics) error {
			if r.Chance(1, 5) {
				dead, cancel := context.WithCancel(ctx)
				cancel()
				k.C.Count("collections_attempted_with_a_done_context", 1)
				if err := rd.Collect(dead, rm); err == nil {
					return nil
				}
				// the attempt failed after the callbacks had run: remembered, because what they observed
				// stays in the asynchronous aggregates (known finding) - synchronous streams are unaffected
				failedAttempt[name] = true
			}
			return rd.Collect(ctx, rm)
		}
		if err := collect("delta", dr, &drm); err != nil {
			fail("collect-error", "", err.Error())
			return
		}
		if err := collect("cumulative", cr, &crm); err != nil {
			fail("collect-error", "", err.Error())
			return
		}
		for rd, rm := range map[string]*metricdata.ResourceMetrics{"delta": &drm, "cumulative": &crm} {
			got, probs := read(rm)
			for _, p := range probs {
				fail("malformed-collection", rd, p)
			}
			for out := range dropped {
				if _, ok := got[out]; ok && ledgers[out] == nil {
					fail("drop-aggregation-reported", rd, out)
				}
			}
			for out := range got {
				if ledgers[out] == nil {
					fail("unexpected-stream", rd, out)
				}
			}
			for out, lr := range ledgers {
				l := lr[rd]
				g := got[out]
				if L > 0 && len(g) > L {
					fail("more-points-than-limit", rd, fmt.Sprintf("stream %s: %d points, limit %d", out, len(g), L))
				}
				if _, ok := g[overflowKey]; ok {
					overflowPoints++
				}
				if streamAsync[out] && rd == "delta" {
					// delta of observed values under a changing identity assignment: only the bound is asserted
					continue
				}
				if d := compare(g, l.vals); d != "" {
					var tg, tw float64
					var cg, cw uint64
					for _, v := range g {
						tg += v.v
						cg += v.count
					}
					for _, v := range l.vals {
						tw += v.v
						cw += v.count
					}
					class := "points-differ-from-reference-limiter"
					if l.agg != "gauge" && (tg != tw || cg != cw) {
						class = "total-not-conserved"
					}
					key := rd + " " + l.agg
					if asyncFed[out] && failedAttempt[rd] {
						key += " [stream fed by callbacks, after a collection attempt failed on a done context]"
					}
					fail(class, key, fmt.Sprintf("cycle %d stream %s (%d distinct sets this cycle, first-seen order %v): %s\n totals got %v/%d want %v/%d", cyc, out, len(l.seen), head(l.order, 8), d, tg, cg, tw, cw))
				}
				k.C.Count("streams_compared", 1)
			}
		}
		// delta sync ledgers start a new epoch
		for out, lr := range ledgers {
			if !streamAsync[out] {
				lr["delta"].reset()
			}
		}
	}
	k.C.Count("histories", 1)
	k.C.Count("limit_"+Lname, 1)
	k.C.Count("views_"+strings.ReplaceAll(cfgName, " ", "_"), 1)
	if crossed {
		k.C.Count("histories_crossing_the_limit", 1)
	}
	k.C.Count("overflow_points_seen", int64(overflowPoints))
	k.C.Count("filtered_measurements", int64(merges))
	k.C.Sig(fmt.Sprintf("%s|%d|%v|%d", Lname, cfg, crossed, min(cycles, 3)))
	if k.C.NeedSample() {
		k.C.Sample(map[string]any{"limit": Lname, "views": cfgName, "cycles": cycles, "distinct_sets_per_cycle": nDistinct, "crossed_limit": crossed})
	}
}

func head(s []string, n int) []string {
	if len(s) > n {
		return s[:n]
	}
	return s
}

// concurrent variant: goroutines race new sets at the L-1 boundary; only "<= L points and totals
// conserved" is asserted.
func runConcurrent(k *vf.Case) {
	r := k.R
	ctx := context.Background()
	L := vf.Pick(r, []int{1, 2, 3, 10})
	os.Setenv("OTEL_GO_X_CARDINALITY_LIMIT", fmt.Sprint(L))
	defer os.Unsetenv("OTEL_GO_X_CARDINALITY_LIMIT")
	temp := vf.Pick(r, []metricdata.Temporality{metricdata.DeltaTemporality, metricdata.CumulativeTemporality})
	rd := sdkmetric.NewManualReader(sdkmetric.WithTemporalitySelector(func(sdkmetric.InstrumentKind) metricdata.Temporality { return temp }))
	mopts := []sdkmetric.Option{sdkmetric.WithReader(rd)}
	if r.Bool() {
		// an attribute filter in front of the aggregators: whatever it keeps per measurement is that
		// measurement's own (the race detector watches the filter path under concurrent Adds)
		mopts = append(mopts, sdkmetric.WithView(sdkmetric.NewView(sdkmetric.Instrument{Name: "*"}, sdkmetric.Stream{AttributeFilter: allowKeys("a")})))
		k.C.Count("concurrent_cases_with_an_attribute_filter", 1)
	}
	mp := sdkmetric.NewMeterProvider(mopts...)
	// in half of the cases nobody creates the instruments beforehand: every goroutine asks for its own
	// meter and instruments after the barrier, so first-time creations of one identity overlap
	lateCreate := r.Bool()
	var ci metric.Int64Counter
	var hf metric.Float64Histogram
	if !lateCreate {
		m := mp.Meter("c12c")
		ci, _ = m.Int64Counter("ci")
		hf, _ = m.Float64Histogram("hf")
	} else {
		k.C.Count("concurrent_cases_with_overlapping_first_creation", 1)
	}
	G := vf.Pick(r, []int{4, 8, 16})
	var wg sync.WaitGroup
	release := make(chan struct{})
	var total, count int64
	var mu sync.Mutex
	for g := 0; g < G; g++ {
		seed := r.U64()
		wg.Add(1)
		go func(g int) {
			defer wg.Done()
			gr := vf.NewRNG(seed)
			var lt, lc int64
			<-release
			ci, hf := ci, hf
			if lateCreate {
				m := mp.Meter("c12c")
				ci, _ = m.Int64Counter("ci")
				hf, _ = m.Float64Histogram("hf")
			}
			for i := 0; i < 400; i++ {
				o := metric.WithAttributeSet(attribute.NewSet(attribute.Int("a", gr.Intn(L+3)), attribute.Int("g", g%2)))
				v := int64(1 + gr.Intn(9))
				ci.Add(ctx, v, o)
				hf.Record(ctx, float64(v), o)
				lt += v
				lc++
			}
			mu.Lock()
			total += lt
			count += lc
			mu.Unlock()
		}(g)
	}
	var rm metricdata.ResourceMetrics
	var gotSum, gotHistSum float64
	var gotCount uint64
	collect := func() bool {
		if err := rd.Collect(ctx, &rm); err != nil {
			k.Violate("collect-error", "concurrent", err.Error(), nil)
			return false
		}
		got, probs := read(&rm)
		for _, p := range probs {
			k.Violate("malformed-collection", "concurrent", p, nil)
		}
		for name, pts := range got {
			if len(pts) > L {
				k.Violate("more-points-than-limit", "concurrent", fmt.Sprintf("%s: %d points, limit %d", name, len(pts), L), nil)
			}
		}
		if temp == metricdata.CumulativeTemporality {
			gotSum, gotHistSum, gotCount = 0, 0, 0
		}
		for _, v := range got["ci"] {
			gotSum += v.v
		}
		for _, v := range got["hf"] {
			gotHistSum += v.v
			gotCount += v.count
		}
		return true
	}
	close(release)
	// collections race the recorders for as long as they record (at least five of them)
	workersDone := make(chan struct{})
	go func() { wg.Wait(); close(workersDone) }()
	for i, racing := 0, true; racing || i < 5; i++ {
		if !collect() {
			return
		}
		k.C.Count("concurrent_collections_racing_recorders", 1)
		select {
		case <-workersDone:
			racing = false
		default:
		}
	}
	wg.Wait()
	if !collect() {
		return
	}
	if gotSum != float64(total) || gotHistSum != float64(total) || gotCount != uint64(count) {
		k.Violate("total-not-conserved", "concurrent", fmt.Sprintf("limit %d temporality %v: counter total %v, histogram sum %v count %d; recorded %d / %d", L, temp, gotSum, gotHistSum, gotCount, total, count), nil)
	}
	k.C.Count("concurrent_cases", 1)
	k.C.Sig(fmt.Sprintf("conc|%d|%v|%d", L, temp, G))
}

// runDisagree: two readers whose aggregation selectors disagree about dropping. Whatever one reader drops, the
// other still reports every measurement: synchronous adds, observations made by instrument-level callbacks and
// observations made through Meter.RegisterCallback.
func runDisagree(k *vf.Case) {
	r := k.R
	ctx := context.Background()
	os.Unsetenv("OTEL_GO_X_CARDINALITY_LIMIT")
	dropKinds := map[sdkmetric.InstrumentKind]bool{}
	for _, kd := range []sdkmetric.InstrumentKind{sdkmetric.InstrumentKindCounter, sdkmetric.InstrumentKindObservableCounter, sdkmetric.InstrumentKindObservableGauge, sdkmetric.InstrumentKindObservableUpDownCounter} {
		if r.Bool() {
			dropKinds[kd] = true
		}
	}
	dropping := sdkmetric.NewManualReader(sdkmetric.WithAggregationSelector(func(kd sdkmetric.InstrumentKind) sdkmetric.Aggregation {
		if dropKinds[kd] {
			return sdkmetric.AggregationDrop{}
		}
		return sdkmetric.DefaultAggregationSelector(kd)
	}))
	keeping := sdkmetric.NewManualReader()
	ropts := []sdkmetric.Option{sdkmetric.WithReader(dropping), sdkmetric.WithReader(keeping)}
	if r.Bool() {
		ropts[0], ropts[1] = ropts[1], ropts[0]
	}
	mp := sdkmetric.NewMeterProvider(ropts...)
	defer mp.Shutdown(ctx)
	m := mp.Meter("c12-disagree")
	kindOf := map[string]sdkmetric.InstrumentKind{"c": sdkmetric.InstrumentKindCounter, "oc": sdkmetric.InstrumentKindObservableCounter, "og": sdkmetric.InstrumentKindObservableGauge, "ou": sdkmetric.InstrumentKindObservableUpDownCounter,
		"oc_multi": sdkmetric.InstrumentKindObservableCounter, "og_multi": sdkmetric.InstrumentKindObservableGauge, "ou_multi": sdkmetric.InstrumentKindObservableUpDownCounter}
	cur := map[string]map[int]int64{} // instrument -> a -> value observed in the current cycle
	obs := func(name string) metric.Int64Callback {
		return func(_ context.Context, o metric.Int64Observer) error {
			for a, v := range cur[name] {
				o.Observe(v, metric.WithAttributes(attribute.Int("a", a)))
			}
			return nil
		}
	}
	c, _ := m.Int64Counter("c")
	m.Int64ObservableCounter("oc", metric.WithInt64Callback(obs("oc")))
	m.Int64ObservableGauge("og", metric.WithInt64Callback(obs("og")))
	m.Int64ObservableUpDownCounter("ou", metric.WithInt64Callback(obs("ou")))
	ocm, _ := m.Int64ObservableCounter("oc_multi")
	ogm, _ := m.Int64ObservableGauge("og_multi")
	oum, _ := m.Int64ObservableUpDownCounter("ou_multi")
	multi := map[string]metric.Int64Observable{"oc_multi": ocm, "og_multi": ogm, "ou_multi": oum}
	if _, err := m.RegisterCallback(func(_ context.Context, o metric.Observer) error {
		for name, inst := range multi {
			for a, v := range cur[name] {
				o.ObserveInt64(inst, v, metric.WithAttributes(attribute.Int("a", a)))
			}
		}
		return nil
	}, ocm, ogm, oum); err != nil {
		k.Violate("instrument-creation-error", "RegisterCallback", err.Error(), nil)
		return
	}
	total := map[int]int64{}
	for cyc := 0; cyc < 1+r.Intn(4); cyc++ {
		for i := r.Intn(10); i > 0; i-- {
			a, v := r.Intn(3), int64(1+r.Intn(50))
			c.Add(ctx, v, metric.WithAttributes(attribute.Int("a", a)))
			total[a] += v
		}
		for name := range kindOf {
			if name == "c" {
				continue
			}
			cur[name] = map[int]int64{}
			for a := 0; a < 3; a++ {
				if r.Bool() {
					cur[name][a] = int64(1 + cyc*100 + r.Intn(50))
				}
			}
		}
		for _, rd := range []*sdkmetric.ManualReader{dropping, keeping} {
			var rm metricdata.ResourceMetrics
			if err := rd.Collect(ctx, &rm); err != nil {
				k.Violate("collect-error", "readers disagreeing about drop", err.Error(), nil)
				return
			}
			got, probs := read(&rm)
			for _, p := range probs {
				k.Violate("malformed-collection", "readers disagreeing about drop", p, nil)
			}
			for name, kd := range kindOf {
				want := map[string]int64{}
				if !(rd == dropping && dropKinds[kd]) {
					src := cur[name]
					if name == "c" {
						src = total
					}
					for a, v := range src {
						want[fmt.Sprintf("a=%d", a)] = v
					}
				}
				bad := len(got[name]) != len(want)
				for set, v := range want {
					if g, ok := got[name][set]; !ok || int64(g.v) != v {
						bad = true
					}
				}
				if bad {
					who := map[bool]string{true: "the reader that drops", false: "the reader that keeps everything"}[rd == dropping]
					k.Violate("reader-disagreement", fmt.Sprintf("%s, kind %v", who, kd), fmt.Sprintf("dropped kinds for the other reader: %v; cycle %d: %s reports %v, want %v", dropKinds, cyc, name, got[name], want), nil)
					return
				}
				k.C.Count("disagreeing_reader_streams_compared", 1)
			}
		}
	}
	k.C.Count("disagreeing_reader_histories", 1)
	k.C.Sig(fmt.Sprintf("disagree|%d", len(dropKinds)))
}

func main() {
	vf.Main("C12", "exploration", func(c *vf.Ctx) {
		c.Rule = "seeded histories of 1-8 cycles with OTEL_GO_X_CARDINALITY_LIMIT in {unset,0,1,2,3,10,100,-1,-50,abc}, streams of 1-400 distinct two-attribute sets in adversarial orders (all new, repeats around the L-1 boundary, reversed between cycles, random, the literal overflow set used as a normal set), delta and cumulative ManualReaders, sync counter/up-down/histogram/gauge and observable counter/gauge, eight view configurations (none, allow filter, deny filter, rename, re-aggregation incl. drop, two views to different streams, two views to the same stream, two instruments renamed onto one stream); every reported stream is compared point by point with a reference first-seen limiter + ledger; concurrent variant under -race asserting the bound and conserved totals; view configuration 12 (value-dependent filter); disagree family (one reader drops random kinds, the other reports sync adds, instrument callbacks and RegisterCallback observations exactly); filters built from scratch key slices; attribute-filter view in the concurrent variant. distinct = distinct (limit, view configuration, limit crossed, cycles class) signatures"
		c.Assume = []string{"for asynchronous instruments with delta temporality only the point bound is asserted (the delta baseline is kept per reported identity, which the limiter reassigns between cycles)", "OTEL_GO_X_CARDINALITY_LIMIT is read when an aggregator is created; it is set before instruments are created, one history at a time per process"}
		otel.SetErrorHandler(otel.ErrorHandlerFunc(func(error) {}))
		otel.SetLogger(logr.Discard())
		c.Isolated("histories", c.N(3200, 40_000), vf.IsoOpts{Batch: 100, Par: 16}, runHistory)
		c.Isolated("concurrent", c.N(320, 4000), vf.IsoOpts{Batch: 20, Par: 16}, runConcurrent)
		c.Floor("concurrent_collections_racing_recorders", 3000)
		c.Isolated("disagree", c.N(600, 8000), vf.IsoOpts{Batch: 100, Par: 16}, runDisagree)
		c.Floor("disagreeing_reader_histories", 300)
		c.Floor("streams_compared", 50_000)
		c.Floor("histories_crossing_the_limit", 500)
		c.Floor("overflow_points_seen", 1000)
		c.Floor("filtered_measurements", 10_000)
		c.Floor("concurrent_cases", 200)
	})
}
