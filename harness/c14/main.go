// C14 — OTLP export retries only retryable failures, honouring throttling and deadlines.
package main

import (
	"bytes"
	"context"
	"fmt"
	"net"
	"net/http"
	"net/url"
	"strings"
	"sync"
	"sync/atomic"
	"time"

	"github.com/go-logr/logr"
	"go.opentelemetry.io/otel"
	"go.opentelemetry.io/otel/attribute"
	"go.opentelemetry.io/otel/exporters/otlp/otlplog/otlploggrpc"
	"go.opentelemetry.io/otel/exporters/otlp/otlplog/otlploghttp"
	"go.opentelemetry.io/otel/exporters/otlp/otlpmetric/otlpmetricgrpc"
	"go.opentelemetry.io/otel/exporters/otlp/otlpmetric/otlpmetrichttp"
	"go.opentelemetry.io/otel/exporters/otlp/otlptrace/otlptracegrpc"
	"go.opentelemetry.io/otel/exporters/otlp/otlptrace/otlptracehttp"
	"go.opentelemetry.io/otel/log"
	sdklog "go.opentelemetry.io/otel/sdk/log"
	"go.opentelemetry.io/otel/sdk/log/logtest"
	"go.opentelemetry.io/otel/sdk/metric/metricdata"
	"go.opentelemetry.io/otel/sdk/resource"
	sdktrace "go.opentelemetry.io/otel/sdk/trace"
	"go.opentelemetry.io/otel/sdk/trace/tracetest"
	"go.opentelemetry.io/otel/trace"
	"google.golang.org/genproto/googleapis/rpc/errdetails"
	"google.golang.org/grpc/codes"
	"google.golang.org/grpc/status"
	"google.golang.org/protobuf/types/known/durationpb"

	"verifharness/otlpsrv"
	"verifharness/vf"
)

var exporterKinds = []string{"otlptracegrpc", "otlptracehttp", "otlpmetricgrpc", "otlpmetrichttp", "otlploggrpc", "otlploghttp"}

type retryCfg struct {
	Enabled    bool
	MaxElapsed time.Duration // 0 = unbounded
}

type xp struct {
	kind     string
	export   func(ctx context.Context, token string) error
	shutdown func(ctx context.Context) error
}

func isHTTP(kind string) bool { return strings.HasSuffix(kind, "http") }

func newExporter(kind, addr string, rc retryCfg, timeout time.Duration, gz bool, initial time.Duration, proxy func(*http.Request) (*url.URL, error)) (*xp, error) {
	ctx := context.Background()
	maxInt := 5 * initial
	x := &xp{kind: kind}
	switch kind {
	case "otlptracegrpc":
		o := []otlptracegrpc.Option{otlptracegrpc.WithEndpoint(addr), otlptracegrpc.WithInsecure(), otlptracegrpc.WithTimeout(timeout),
			otlptracegrpc.WithRetry(otlptracegrpc.RetryConfig{Enabled: rc.Enabled, InitialInterval: initial, MaxInterval: maxInt, MaxElapsedTime: rc.MaxElapsed})}
		if gz {
			o = append(o, otlptracegrpc.WithCompressor("gzip"))
		}
		e, err := otlptracegrpc.New(ctx, o...)
		if err != nil {
			return nil, err
		}
		x.export = func(ctx context.Context, token string) error { return e.ExportSpans(ctx, spanPayload(token)) }
		x.shutdown = e.Shutdown
	case "otlptracehttp":
		o := []otlptracehttp.Option{otlptracehttp.WithEndpoint(addr), otlptracehttp.WithInsecure(), otlptracehttp.WithTimeout(timeout),
			otlptracehttp.WithRetry(otlptracehttp.RetryConfig{Enabled: rc.Enabled, InitialInterval: initial, MaxInterval: maxInt, MaxElapsedTime: rc.MaxElapsed})}
		if proxy != nil {
			o = append(o, otlptracehttp.WithProxy(proxy))
		}
		if gz {
			o = append(o, otlptracehttp.WithCompression(otlptracehttp.GzipCompression))
		}
		e, err := otlptracehttp.New(ctx, o...)
		if err != nil {
			return nil, err
		}
		x.export = func(ctx context.Context, token string) error { return e.ExportSpans(ctx, spanPayload(token)) }
		x.shutdown = e.Shutdown
	case "otlpmetricgrpc":
		o := []otlpmetricgrpc.Option{otlpmetricgrpc.WithEndpoint(addr), otlpmetricgrpc.WithInsecure(), otlpmetricgrpc.WithTimeout(timeout),
			otlpmetricgrpc.WithRetry(otlpmetricgrpc.RetryConfig{Enabled: rc.Enabled, InitialInterval: initial, MaxInterval: maxInt, MaxElapsedTime: rc.MaxElapsed})}
		if gz {
			o = append(o, otlpmetricgrpc.WithCompressor("gzip"))
		}
		e, err := otlpmetricgrpc.New(ctx, o...)
		if err != nil {
			return nil, err
		}
		x.export = func(ctx context.Context, token string) error { return e.Export(ctx, metricPayload(token)) }
		x.shutdown = e.Shutdown
	case "otlpmetrichttp":
		o := []otlpmetrichttp.Option{otlpmetrichttp.WithEndpoint(addr), otlpmetrichttp.WithInsecure(), otlpmetrichttp.WithTimeout(timeout),
			otlpmetrichttp.WithRetry(otlpmetrichttp.RetryConfig{Enabled: rc.Enabled, InitialInterval: initial, MaxInterval: maxInt, MaxElapsedTime: rc.MaxElapsed})}
		if proxy != nil {
			o = append(o, otlpmetrichttp.WithProxy(proxy))
		}
		if gz {
			o = append(o, otlpmetrichttp.WithCompression(otlpmetrichttp.GzipCompression))
		}
		e, err := otlpmetrichttp.New(ctx, o...)
		if err != nil {
			return nil, err
		}
		x.export = func(ctx context.Context, token string) error { return e.Export(ctx, metricPayload(token)) }
		x.shutdown = e.Shutdown
	case "otlploggrpc":
		o := []otlploggrpc.Option{otlploggrpc.WithEndpoint(addr), otlploggrpc.WithInsecure(), otlploggrpc.WithTimeout(timeout),
			otlploggrpc.WithRetry(otlploggrpc.RetryConfig{Enabled: rc.Enabled, InitialInterval: initial, MaxInterval: maxInt, MaxElapsedTime: rc.MaxElapsed})}
		if gz {
			o = append(o, otlploggrpc.WithCompressor("gzip"))
		}
		e, err := otlploggrpc.New(ctx, o...)
		if err != nil {
			return nil, err
		}
		x.export = func(ctx context.Context, token string) error { return e.Export(ctx, logPayload(token)) }
		x.shutdown = e.Shutdown
	case "otlploghttp":
		o := []otlploghttp.Option{otlploghttp.WithEndpoint(addr), otlploghttp.WithInsecure(), otlploghttp.WithTimeout(timeout),
			otlploghttp.WithRetry(otlploghttp.RetryConfig{Enabled: rc.Enabled, InitialInterval: initial, MaxInterval: maxInt, MaxElapsedTime: rc.MaxElapsed})}
		if proxy != nil {
			o = append(o, otlploghttp.WithProxy(proxy))
		}
		if gz {
			o = append(o, otlploghttp.WithCompression(otlploghttp.GzipCompression))
		}
		e, err := otlploghttp.New(ctx, o...)
		if err != nil {
			return nil, err
		}
		x.export = func(ctx context.Context, token string) error { return e.Export(ctx, logPayload(token)) }
		x.shutdown = e.Shutdown
	}
	return x, nil
}

var theRes = resource.NewSchemaless(attribute.String("service.name", "c14"))

func spanPayload(token string) []sdktrace.ReadOnlySpan {
	return tracetest.SpanStubs{{Name: token, SpanContext: trace.NewSpanContext(trace.SpanContextConfig{TraceID: trace.TraceID{1}, SpanID: trace.SpanID{2}, TraceFlags: 1}),
		StartTime: time.Unix(1_700_000_000, 0), EndTime: time.Unix(1_700_000_001, 0), Resource: theRes,
		Attributes: []attribute.KeyValue{attribute.String("pad", strings.Repeat(token, 20))}}}.Snapshots()
}

func metricPayload(token string) *metricdata.ResourceMetrics {
	return &metricdata.ResourceMetrics{Resource: theRes, ScopeMetrics: []metricdata.ScopeMetrics{{Metrics: []metricdata.Metrics{{Name: token, Description: strings.Repeat(token, 20),
		Data: metricdata.Gauge[int64]{DataPoints: []metricdata.DataPoint[int64]{{Value: 7, Time: time.Unix(1_700_000_000, 0)}}}}}}}}
}

func logPayload(token string) []sdklog.Record {
	return []sdklog.Record{logtest.RecordFactory{Body: log.StringValue(token), Resource: theRes, Timestamp: time.Unix(1_700_000_000, 0),
		Attributes: []log.KeyValue{log.String("pad", strings.Repeat(token, 20))}}.NewRecord()}
}

// ---------------------------------------------------------------------------------------------
// outcomes

type outcome struct {
	name      string
	resp      otlpsrv.Response
	success   bool
	retryable bool
	hint      time.Duration
	network   bool // connection closed: retryable only when the client sees a temporary error
	partial   bool
	longMsg   int  // partial success: pad the rejection message to this many bytes
	countOnly bool // partial success: a rejected count and no message at all
	msgOnly   bool // partial success: a message and a rejected count of zero (a warning)
}

func httpOutcome(code int, retryAfter int) outcome {
	o := outcome{name: fmt.Sprintf("HTTP %d", code), resp: otlpsrv.Response{Status: code}}
	switch {
	case code >= 200 && code <= 299:
		o.success = true
	case code == 429 || code == 502 || code == 503 || code == 504:
		o.retryable = true
	}
	if retryAfter > 0 {
		o.resp.Header = map[string]string{"Retry-After": fmt.Sprint(retryAfter)}
		o.hint = time.Duration(retryAfter) * time.Second
		o.name += fmt.Sprintf(" Retry-After: %d", retryAfter)
	}
	if !o.success {
		o.resp.Body = []byte("scripted failure")
	}
	return o
}

var retryableGRPC = map[codes.Code]bool{codes.Canceled: true, codes.DeadlineExceeded: true, codes.Aborted: true, codes.OutOfRange: true, codes.Unavailable: true, codes.DataLoss: true}

func grpcOutcome(code codes.Code, hint time.Duration) outcome {
	o := outcome{name: "gRPC " + code.String()}
	if code == codes.OK {
		o.success = true
		return o
	}
	st := status.New(code, "scripted failure")
	if hint > 0 {
		st, _ = st.WithDetails(&errdetails.RetryInfo{RetryDelay: durationpb.New(hint)})
		o.hint = hint
		o.name += fmt.Sprintf(" RetryInfo %v", hint)
	}
	o.resp.GRPC = st
	o.retryable = retryableGRPC[code] || (code == codes.ResourceExhausted && hint > 0)
	return o
}

// grpcZeroRetryInfo: ResourceExhausted (or any code) carrying a RetryInfo detail whose delay is zero or
// unset. It does carry retry info, so ResourceExhausted is retryable; there is just nothing to wait for.
func grpcZeroRetryInfo(code codes.Code, unset bool) outcome {
	o := outcome{name: "gRPC " + code.String() + " RetryInfo 0s"}
	ri := &errdetails.RetryInfo{RetryDelay: durationpb.New(0)}
	if unset {
		ri = &errdetails.RetryInfo{}
		o.name = "gRPC " + code.String() + " RetryInfo without a delay"
	}
	st, _ := status.New(code, "scripted failure").WithDetails(ri)
	o.resp.GRPC = st
	o.retryable = retryableGRPC[code] || code == codes.ResourceExhausted
	return o
}

func partialOutcome(http bool, token string) outcome {
	o := outcome{name: "success with partial-success message", success: true, partial: true}
	o.resp.PartialMsg, o.resp.PartialN = "rejected-"+token, 3
	if http {
		o.resp.Status = 200
	}
	return o
}

func networkOutcome() outcome {
	return outcome{name: "connection reset", network: true, resp: otlpsrv.Response{CloseConn: true}}
}

// ---------------------------------------------------------------------------------------------

type handled struct {
	mu   sync.Mutex
	msgs []string
}

func (h *handled) Handle(err error) {
	h.mu.Lock()
	if len(h.msgs) < 100000 {
		h.msgs = append(h.msgs, err.Error())
	}
	h.mu.Unlock()
}
func (h *handled) has(token string) bool {
	h.mu.Lock()
	defer h.mu.Unlock()
	for _, m := range h.msgs {
		if strings.Contains(m, token) {
			return true
		}
	}
	return false
}

var theHandler = &handled{}

type row struct {
	kind         string
	seq          []outcome
	rc           retryCfg
	gz           bool
	cancel       string // "", "before", "during-delay", "during-backoff", "shutdown-during-backoff"
	table        string
	longBackoff  bool
	noTimeout    bool          // WithTimeout(0): no per-export deadline, only cancellation can end a wait
	age          time.Duration // let the exporter exist this long before the export (longer than MaxElapsedTime)
	tempNetErrs  int           // HTTP: this many round trips fail with a temporary (not timeout) network error before one gets through
	deadShutdown bool          // the Shutdown call carries a context that is already cancelled
}

func (rw row) String() string {
	var names []string
	for _, o := range rw.seq {
		names = append(names, o.name)
	}
	return fmt.Sprintf("%s table=%s retry={enabled=%v maxElapsed=%v} gzip=%v cancel=%q timeout-disabled=%v exporter-age=%v temporary-network-errors=%d shutdown-context-cancelled=%v responses=[%s]", rw.kind, rw.table, rw.rc.Enabled, rw.rc.MaxElapsed, rw.gz, rw.cancel, rw.noTimeout, rw.age, rw.tempNetErrs, rw.deadShutdown, strings.Join(names, " ; "))
}

func runRow(k *vf.Case, rw row) {
	token := fmt.Sprintf("tok%dx%d", k.Index, k.R.Intn(1_000_000))
	seq := rw.seq
	rejectedN := int64(7_000_000 + (k.Index%2000)*1000 + k.R.Intn(1000)) // recognisable in the handler's messages
	script := func(r *otlpsrv.Request) otlpsrv.Response {
		if r.N <= len(seq) {
			resp := seq[r.N-1].resp
			if seq[r.N-1].partial {
				resp.PartialMsg = "rejected-" + token
				if n := seq[r.N-1].longMsg; n > 0 {
					resp.PartialMsg += " " + strings.Repeat("x", n)
				}
				if seq[r.N-1].countOnly {
					resp.PartialMsg, resp.PartialN = "", rejectedN
				}
				if seq[r.N-1].msgOnly {
					resp.PartialN = 0
				}
			}
			if rw.cancel == "shutdown-during-delay" && r.N == 1 {
				resp.Delay = 2 * time.Second // the attempt stays in flight for 2 s unless it is aborted
			}
			if rw.cancel == "during-delay" && r.N == 1 {
				resp.HoldUntilClientGone = true
			}
			return resp
		}
		return otlpsrv.Response{Status: 200}
	}
	var srv *otlpsrv.Server
	var err error
	if isHTTP(rw.kind) {
		srv, err = otlpsrv.NewHTTP(rw.kind, script)
	} else {
		srv, err = otlpsrv.NewGRPC(rw.kind, script)
	}
	if err != nil {
		k.C.Inconclusive("cannot start collector: " + err.Error())
		return
	}
	defer srv.Close()
	initial := time.Millisecond
	if rw.longBackoff {
		initial = 5 * time.Second // the wait after a retryable response is the (randomised) backoff: >= 2.5 s
	}
	exportTimeout := 10 * time.Second
	if rw.noTimeout {
		exportTimeout = 0
	}
	var proxy func(*http.Request) (*url.URL, error)
	if rw.tempNetErrs > 0 {
		var n atomic.Int32
		proxy = func(*http.Request) (*url.URL, error) {
			if int(n.Add(1)) <= rw.tempNetErrs {
				return nil, &net.DNSError{Err: "temporary failure in name resolution", Name: "collector.invalid", IsTemporary: true}
			}
			return nil, nil
		}
	}
	x, err := newExporter(rw.kind, srv.Addr, rw.rc, exportTimeout, rw.gz, initial, proxy)
	if err != nil {
		k.Violate("exporter-constructor-error", rw.kind, err.Error(), nil)
		return
	}
	if rw.age > 0 {
		time.Sleep(rw.age)
	}
	fail := func(class, key, detail string) {
		var tl []string
		reqs := srv.Requests()
		for i, r := range reqs {
			tl = append(tl, fmt.Sprintf("#%d at +%v", i+1, r.At.Sub(reqs[0].At).Round(100*time.Microsecond)))
		}
		k.Violate(class, rw.kind+" "+key, fmt.Sprintf("%s\n%s\nrequests: %s", rw, detail, strings.Join(tl, ", ")), nil)
	}
	var shutdownMu sync.Mutex
	var shutdownRet, cancelledAt time.Time
	ctx, cancel := context.WithCancel(context.Background())
	defer cancel()
	switch rw.cancel {
	case "before":
		cancel()
	case "during-delay":
		go func() {
			for i := 0; i < 2000 && srv.Count() == 0; i++ {
				time.Sleep(time.Millisecond)
			}
			time.Sleep(5 * time.Millisecond)
			cancel()
		}()
	case "during-backoff":
		go func() {
			for i := 0; i < 2000 && srv.Count() == 0; i++ {
				time.Sleep(time.Millisecond)
			}
			time.Sleep(20 * time.Millisecond)
			cancel()
		}()
	case "during-long-hint":
		// the budget is unbounded (MaxElapsedTime 0) and the collector asks for 90 s: the export keeps waiting
		// until its context is cancelled 400 ms after the first attempt - it must not have given up before
		go func() {
			for i := 0; i < 2000 && srv.Count() == 0; i++ {
				time.Sleep(time.Millisecond)
			}
			time.Sleep(400 * time.Millisecond)
			shutdownMu.Lock()
			cancelledAt = time.Now()
			shutdownMu.Unlock()
			cancel()
		}()
	case "shutdown-during-backoff", "shutdown-during-delay":
		go func() {
			for i := 0; i < 2000 && srv.Count() == 0; i++ {
				time.Sleep(time.Millisecond)
			}
			time.Sleep(20 * time.Millisecond)
			// the gRPC exporters serialise a Shutdown with a live context behind in-flight exports by
			// design; with an expiring context they must abort them
			sctx, scancel := context.WithTimeout(context.Background(), 100*time.Millisecond)
			if rw.deadShutdown {
				scancel()
			}
			x.shutdown(sctx)
			scancel()
			shutdownMu.Lock()
			shutdownRet = time.Now()
			shutdownMu.Unlock()
		}()
	}
	var exportErr error
	start := time.Now()
	finished, _, desc := vf.Watch(60*time.Second, time.Second, func() { exportErr = x.export(ctx, token) })
	took := time.Since(start)
	if !finished {
		fail("export-did-not-return", rw.cancel, desc)
		return
	}
	returnedAt := time.Now()
	// quiet afterwards: nothing may arrive once Export has returned
	n0 := srv.Count()
	time.Sleep(30 * time.Millisecond)
	if !strings.HasPrefix(rw.cancel, "shutdown-") {
		sctx, scancel := context.WithTimeout(context.Background(), 5*time.Second)
		x.shutdown(sctx)
		scancel()
	}
	time.Sleep(10 * time.Millisecond)
	reqs := srv.Requests()
	if len(reqs) != n0 {
		fail("request-after-export-returned", rw.cancel, fmt.Sprintf("%d requests when Export returned (%v), %d later", n0, returnedAt.Sub(start), len(reqs)))
	}
	// identical payload on every attempt
	for i := 1; i < len(reqs); i++ {
		if reqs[i].DecodeErr != "" || !bytes.Equal(reqs[i].Canon, reqs[0].Canon) {
			fail("retry-payload-differs", "", fmt.Sprintf("attempt %d differs from attempt 1 (decode error %q)", i+1, reqs[i].DecodeErr))
		}
	}
	if len(reqs) > 0 && (reqs[0].DecodeErr != "" || !bytes.Contains(reqs[0].Canon, []byte(token))) {
		fail("payload-malformed", "", reqs[0].DecodeErr)
	}
	// ---- Shutdown while an Export waits: the metric and log exporters (and the gRPC trace client with
	// a live context) serialise Shutdown behind the in-flight Export by design, so the clause is: once
	// Shutdown has returned no request arrives and the in-flight Export has returned (or does so at once).
	if strings.HasPrefix(rw.cancel, "shutdown-") {
		for i := 0; i < 5000; i++ {
			shutdownMu.Lock()
			done := !shutdownRet.IsZero()
			shutdownMu.Unlock()
			if done {
				break
			}
			time.Sleep(time.Millisecond)
		}
		shutdownMu.Lock()
		sr := shutdownRet
		shutdownMu.Unlock()
		if sr.IsZero() {
			fail("shutdown-did-not-return", rw.cancel, "")
		} else {
			for i, rq := range reqs {
				if rq.At.After(sr) {
					fail("request-after-shutdown-returned", rw.cancel, fmt.Sprintf("request #%d arrived %v after Shutdown had returned", i+1, rq.At.Sub(sr)))
				}
			}
			if returnedAt.Sub(sr) > time.Second {
				fail("export-outlives-shutdown", rw.cancel, fmt.Sprintf("Export returned %v after Shutdown had returned", returnedAt.Sub(sr)))
			}
			// the two trace exporters do abort: their Stop cancels every in-flight export (otlptracehttp at
			// once, otlptracegrpc when Stop's context expires), so the 5 s wait must end without a retry
			if strings.HasPrefix(rw.kind, "otlptrace") {
				if len(reqs) != 1 {
					fail("retry-after-shutdown", rw.cancel, fmt.Sprintf("%d requests although the exporter was stopped during a wait of at least 2.5 s", len(reqs)))
				}
				limit := 3 * time.Second
				if rw.cancel == "shutdown-during-delay" {
					limit = 1500 * time.Millisecond // the collector answers after 2 s: an aborted attempt returns well before
				}
				if took > limit {
					fail("export-blocked-beyond-shutdown", rw.cancel, took.String())
				}
			}
		}
		k.C.Count("rows_cancellation", 1)
		k.C.Sig(fmt.Sprintf("%s|cancel|%s|%d|%v", rw.kind, rw.cancel, len(reqs), rw.noTimeout))
		return
	}
	// ---- cancellation rows
	if rw.cancel != "" {
		if exportErr == nil {
			fail("export-nil-after-cancellation", rw.cancel, "")
		}
		if rw.cancel == "before" && len(reqs) > 1 {
			fail("request-after-cancellation", rw.cancel, fmt.Sprintf("%d requests", len(reqs)))
		}
		if rw.cancel == "during-long-hint" {
			shutdownMu.Lock()
			ca := cancelledAt
			shutdownMu.Unlock()
			if ca.IsZero() || returnedAt.Before(ca) {
				fail("gave-up-although-budget-unbounded", rw.cancel, fmt.Sprintf("retry enabled with MaxElapsedTime 0 (no limit), the collector answered Unavailable with RetryInfo 90 s, the context was still alive: Export returned after %v with %v", took.Round(time.Millisecond), exportErr))
			}
			if len(reqs) != 1 {
				fail("retry-after-cancellation", rw.cancel, fmt.Sprintf("%d requests", len(reqs)))
			}
			k.C.Count("rows_unbounded_budget_long_hint", 1)
		}
		if (rw.cancel == "during-backoff" || rw.cancel == "shutdown-during-backoff") && len(reqs) != 1 {
			fail("retry-after-cancellation", rw.cancel, fmt.Sprintf("%d requests although cancelled/shut down during a wait of at least 2.5 s (5 s hint / 5 s initial backoff)", len(reqs)))
		}
		if took > 3*time.Second {
			fail("export-blocked-beyond-cancellation", rw.cancel, took.String())
		}
		k.C.Count("rows_cancellation", 1)
		k.C.Sig(fmt.Sprintf("%s|cancel|%s", rw.kind, rw.cancel))
		return
	}
	// ---- expected attempts
	// expectMax: the attempt after which the exporter MUST stop (success, terminal outcome, retry
	// disabled, or the hints already waited plus the new hint exceed the budget — a hard rule, since the
	// real elapsed time is at least the sum of the hints waited). expectMin: the attempt before which it
	// may not stop; once real elapsed time matters (budget below 1 s, or more than half of it used by
	// hints) it may legitimately give up at any retryable outcome from there on.
	expectMin, expectMax := 1, 1
	finalSuccess := false
	var sumHints time.Duration
	mayGiveUpFrom := 0 // 0 = never
	stopped := false
	for i, o := range seq {
		expectMax = i + 1
		if o.success {
			finalSuccess = true
			stopped = true
			break
		}
		if o.network {
			if len(reqs) == i+1 { // surfaced as EOF (terminal) this time
				stopped = true
				break
			}
			continue
		}
		if !o.retryable || !rw.rc.Enabled {
			stopped = true
			break
		}
		sumHints += o.resp.Delay // the collector held this attempt for that long: it is part of the elapsed time
		if rw.rc.MaxElapsed != 0 {
			if sumHints+o.hint > rw.rc.MaxElapsed {
				stopped = true
				break
			}
			if mayGiveUpFrom == 0 && (rw.rc.MaxElapsed < time.Second || sumHints+o.hint > rw.rc.MaxElapsed/2) {
				mayGiveUpFrom = i + 1
			}
		}
		sumHints += o.hint
	}
	if !stopped {
		expectMax = len(seq) + 1 // every scripted outcome was retryable: the collector then answers 200
		finalSuccess = true
	}
	expectMin = expectMax
	if rw.rc.MaxElapsed != 0 && took > rw.rc.MaxElapsed/2 && mayGiveUpFrom == 0 {
		mayGiveUpFrom = 1 // this Export call itself ran for a good part of the budget (load): giving up is legitimate
	}
	if mayGiveUpFrom != 0 && mayGiveUpFrom < expectMin {
		expectMin = mayGiveUpFrom
	}
	if len(reqs) < expectMin || len(reqs) > expectMax {
		class := "retried-after-terminal-outcome"
		if len(reqs) < expectMin {
			class = "no-retry-after-retryable-outcome"
		}
		fail(class, seqKey(seq, len(reqs), expectMin), fmt.Sprintf("%d requests, expected %d..%d", len(reqs), expectMin, expectMax))
	} else if expectMin == expectMax {
		if finalSuccess && exportErr != nil {
			fail("export-error-after-success", "", exportErr.Error())
		}
		if !finalSuccess && exportErr == nil {
			fail("export-nil-after-failure", seq[min(len(reqs), len(seq))-1].name, "")
		}
	}
	// throttle hints: the next request must not arrive before the hint has passed
	srvAnswered := srv.AnsweredAt
	for i := 0; i+1 < len(reqs) && i < len(seq); i++ {
		if seq[i].hint > 0 && i < len(srvAnswered) {
			gap := reqs[i+1].At.Sub(srvAnswered[i])
			if gap < seq[i].hint {
				fail("throttle-hint-not-honoured", hintKind(rw.kind), fmt.Sprintf("response %d (%s) asked for %v, next request after %v", i+1, seq[i].name, seq[i].hint, gap.Round(100*time.Microsecond)))
			}
			k.C.Count("hints_checked", 1)
		}
	}
	// partial success: delivered, reported to the error handler
	for i, o := range seq {
		if o.partial && i < len(reqs) && i == len(reqs)-1 {
			if exportErr != nil {
				fail("partial-success-returned-as-error", "", exportErr.Error())
			}
			time.Sleep(2 * time.Millisecond)
			if o.countOnly {
				if !theHandler.has(fmt.Sprint(rejectedN)) {
					fail("partial-success-not-reported", "rejected count without a message", fmt.Sprintf("the collector rejected %d items (no error message): nothing about it reached the ErrorHandler", rejectedN))
				}
			} else if !theHandler.has("rejected-" + token) {
				fail("partial-success-not-reported", "", "the rejection message never reached the ErrorHandler")
			}
			k.C.Count("partial_success_rows", 1)
		}
	}
	k.C.Count("rows", 1)
	k.C.Count("attempts_observed", int64(len(reqs)))
	k.C.Sig(fmt.Sprintf("%s|%s|%s|%d", rw.kind, rw.table, seqKey(seq, len(reqs), expectMin), len(reqs)))
	if k.C.NeedSample() {
		k.C.Sample(map[string]any{"row": rw.String(), "attempts": len(reqs), "export_error": fmt.Sprint(exportErr)})
	}
}

func hintKind(kind string) string {
	if isHTTP(kind) {
		return "HTTP Retry-After"
	}
	return "gRPC RetryInfo"
}

func seqKey(seq []outcome, got, want int) string {
	i := min(max(got, want), len(seq)) - 1
	if i < 0 {
		i = 0
	}
	return "after " + seq[i].name
}

// concurrent exports through one exporter, each first answered by a retryable failure: every retry
// must re-send its own payload (request bodies may not be shared between exports).
func runConcurrentRetry(k *vf.Case, kind string) {
	r := k.R
	gz := r.Chance(3, 4)
	var mu sync.Mutex
	seen := map[string][][]byte{}
	var undecodable []string
	script := func(rq *otlpsrv.Request) otlpsrv.Response {
		tok := ""
		if rq.DecodeErr == "" {
			if i := bytes.Index(rq.Canon, []byte("ctok")); i >= 0 {
				j := i
				for j < len(rq.Canon) && rq.Canon[j] != 'z' {
					j++
				}
				tok = string(rq.Canon[i:j])
			}
		}
		mu.Lock()
		defer mu.Unlock()
		if tok == "" {
			undecodable = append(undecodable, rq.DecodeErr)
			return otlpsrv.Response{Status: 400, GRPC: status.New(codes.InvalidArgument, "undecodable")}
		}
		seen[tok] = append(seen[tok], rq.Canon)
		if len(seen[tok]) == 1 {
			if isHTTP(kind) {
				return otlpsrv.Response{Status: 503}
			}
			return otlpsrv.Response{GRPC: status.New(codes.Unavailable, "try again")}
		}
		return otlpsrv.Response{Status: 200}
	}
	var srv *otlpsrv.Server
	var err error
	if isHTTP(kind) {
		srv, err = otlpsrv.NewHTTP(kind, script)
	} else {
		srv, err = otlpsrv.NewGRPC(kind, script)
	}
	if err != nil {
		k.C.Inconclusive("cannot start collector: " + err.Error())
		return
	}
	defer srv.Close()
	x, err := newExporter(kind, srv.Addr, retryCfg{Enabled: true}, 10*time.Second, gz, time.Millisecond, nil)
	if err != nil {
		k.Violate("exporter-constructor-error", kind, err.Error(), nil)
		return
	}
	var wg sync.WaitGroup
	var emu sync.Mutex
	var errs []string
	G := 8
	for g := 0; g < G; g++ {
		wg.Add(1)
		go func(g int) {
			defer wg.Done()
			for i := 0; i < 5; i++ {
				tok := fmt.Sprintf("ctok%dx%dx%dz", k.Index, g, i)
				// payload sizes differ so that pooled buffers of different capacity get mixed
				if err := x.export(context.Background(), tok+strings.Repeat("p", (g*37+i*11)%200)); err != nil {
					emu.Lock()
					errs = append(errs, tok+": "+err.Error())
					emu.Unlock()
				}
			}
		}(g)
	}
	finished, _, desc := vf.Watch(60*time.Second, time.Second, wg.Wait)
	if !finished {
		k.Violate("export-did-not-return", kind+" concurrent", desc, nil)
		return
	}
	x.shutdown(context.Background())
	cfg := fmt.Sprintf("%s gzip=%v, %d goroutines x 5 exports, every first attempt answered by a retryable failure", kind, gz, G)
	mu.Lock()
	defer mu.Unlock()
	for _, u := range undecodable {
		k.Violate("retry-payload-differs", kind+" concurrent: undecodable request", cfg+"\n"+u, nil)
	}
	for _, e := range errs {
		k.Violate("export-error-after-success", kind+" concurrent", cfg+"\n"+e, nil)
	}
	for tok, bodies := range seen {
		if len(bodies) != 2 {
			k.Violate("retry-payload-differs", kind+" concurrent: attempts", fmt.Sprintf("%s\n%s was received %d times (expected failure + retry)", cfg, tok, len(bodies)), nil)
			continue
		}
		if !bytes.Equal(bodies[0], bodies[1]) {
			k.Violate("retry-payload-differs", kind+" concurrent", cfg+"\n"+tok, nil)
		}
	}
	if len(seen) != G*5 {
		k.Violate("retry-payload-differs", kind+" concurrent: payloads lost", fmt.Sprintf("%s\n%d distinct payloads arrived, %d exported", cfg, len(seen), G*5), nil)
	}
	k.C.Count("concurrent_retry_cases", 1)
	k.C.Sig(fmt.Sprintf("%s|concurrent|%v", kind, gz))
}

// ---------------------------------------------------------------------------------------------
// tables

var httpCodes = []int{200, 202, 204, 400, 401, 403, 404, 408, 413, 429, 500, 501, 502, 503, 504, 505, 507, 511, 599} // everything above 504 is as terminal as 500
var grpcCodes = []codes.Code{codes.OK, codes.Canceled, codes.Unknown, codes.InvalidArgument, codes.DeadlineExceeded, codes.NotFound, codes.AlreadyExists, codes.PermissionDenied,
	codes.ResourceExhausted, codes.FailedPrecondition, codes.Aborted, codes.OutOfRange, codes.Unimplemented, codes.Internal, codes.Unavailable, codes.DataLoss, codes.Unauthenticated}

func tableA() []row {
	var rows []row
	on := retryCfg{Enabled: true, MaxElapsed: 0}
	for _, kind := range exporterKinds {
		if isHTTP(kind) {
			for _, c := range httpCodes {
				rows = append(rows, row{kind: kind, seq: []outcome{httpOutcome(c, 0)}, rc: on, table: "A"})
			}
			rows = append(rows, row{kind: kind, seq: []outcome{httpOutcome(503, 1)}, rc: on, table: "A"})
			rows = append(rows, row{kind: kind, seq: []outcome{httpOutcome(429, 1)}, rc: on, table: "A", gz: true})
			rows = append(rows, row{kind: kind, seq: []outcome{networkOutcome()}, rc: on, table: "A"})
			rows = append(rows, row{kind: kind, seq: []outcome{partialOutcome(true, "")}, rc: on, table: "A"})
			for v := 0; v < 2; v++ {
				po := partialOutcome(true, "")
				po.countOnly, po.msgOnly = v == 0, v == 1
				po.name += map[int]string{0: " (rejected count, empty message)", 1: " (message, rejected count 0)"}[v]
				rows = append(rows, row{kind: kind, seq: []outcome{po}, rc: on, table: "A"})
			}
			ch := partialOutcome(true, "")
			ch.resp.Chunked = true
			ch.name += " (chunked, no Content-Length)"
			rows = append(rows, row{kind: kind, seq: []outcome{ch}, rc: on, table: "A"})
			rows = append(rows, row{kind: kind, seq: []outcome{httpOutcome(503, 0), ch}, rc: on, table: "A"})
			for _, n := range []int{5000, 70000} {
				lp := partialOutcome(true, "")
				lp.longMsg = n
				lp.name += fmt.Sprintf(" of %d bytes", n)
				rows = append(rows, row{kind: kind, seq: []outcome{lp}, rc: on, table: "A", gz: n > 10000})
			}
			rows = append(rows, row{kind: kind, seq: []outcome{httpOutcome(503, 0)}, rc: retryCfg{Enabled: false}, table: "A"})
			// a temporary network error that is not a timeout (resolver hiccup) is retryable
			rows = append(rows, row{kind: kind, seq: []outcome{httpOutcome(200, 0)}, rc: on, table: "A", tempNetErrs: 2})
		} else {
			for _, c := range grpcCodes {
				rows = append(rows, row{kind: kind, seq: []outcome{grpcOutcome(c, 0)}, rc: on, table: "A"})
				if c != codes.OK {
					rows = append(rows, row{kind: kind, seq: []outcome{grpcOutcome(c, 40*time.Millisecond)}, rc: on, table: "A"})
				}
			}
			rows = append(rows, row{kind: kind, seq: []outcome{partialOutcome(false, "")}, rc: on, table: "A"})
			for v := 0; v < 2; v++ {
				po := partialOutcome(false, "")
				po.countOnly, po.msgOnly = v == 0, v == 1
				po.name += map[int]string{0: " (rejected count, empty message)", 1: " (message, rejected count 0)"}[v]
				rows = append(rows, row{kind: kind, seq: []outcome{po}, rc: on, table: "A"})
			}
			for _, n := range []int{5000, 70000} {
				lp := partialOutcome(false, "")
				lp.longMsg = n
				lp.name += fmt.Sprintf(" of %d bytes", n)
				rows = append(rows, row{kind: kind, seq: []outcome{lp}, rc: on, table: "A"})
			}
			// budget rows: after two waits of h the third hint no longer fits into 2.5*h: give up after 3 attempts
			for _, h := range []time.Duration{100 * time.Millisecond, 160 * time.Millisecond} {
				o := grpcOutcome(codes.Unavailable, h)
				rows = append(rows, row{kind: kind, seq: []outcome{o, o, o, o, o}, rc: retryCfg{Enabled: true, MaxElapsed: h * 5 / 2}, table: "A"})
			}
			rows = append(rows, row{kind: kind, seq: []outcome{grpcOutcome(codes.Unavailable, 0)}, rc: retryCfg{Enabled: false}, table: "A"})
			for _, unset := range []bool{false, true} {
				z := grpcZeroRetryInfo(codes.ResourceExhausted, unset)
				rows = append(rows, row{kind: kind, seq: []outcome{z}, rc: on, table: "A"})
				rows = append(rows, row{kind: kind, seq: []outcome{z, z}, rc: on, table: "A"})
				rows = append(rows, row{kind: kind, seq: []outcome{grpcZeroRetryInfo(codes.InvalidArgument, unset)}, rc: on, table: "A"})
			}
		}
		// slow attempts count against the budget: every answer comes after 300 ms, the budget is 1 s, so the
		// fourth failed attempt ends at >= 1.2 s and there is no fifth
		{
			slow := httpOutcome(503, 0)
			if !isHTTP(kind) {
				slow = grpcOutcome(codes.Unavailable, 0)
			}
			slow.resp.Delay = 300 * time.Millisecond
			slow.name += " answered after 300ms"
			rows = append(rows, row{kind: kind, seq: []outcome{slow, slow, slow, slow, slow, slow, slow, slow}, rc: retryCfg{Enabled: true, MaxElapsed: time.Second}, table: "A"})
		}
		// an exporter that has existed for longer than MaxElapsedTime: the budget is per export, so a retryable
		// outcome followed by success must still be retried
		{
			first := httpOutcome(503, 0)
			if !isHTTP(kind) {
				first = grpcOutcome(codes.Unavailable, 0)
			}
			rows = append(rows, row{kind: kind, seq: []outcome{first}, rc: retryCfg{Enabled: true, MaxElapsed: 1500 * time.Millisecond}, table: "A", age: 1700 * time.Millisecond})
		}
	}
	return rows
}

func tableC() []row {
	var rows []row
	on := retryCfg{Enabled: true}
	for _, kind := range exporterKinds {
		slow := httpOutcome(503, 5)
		if !isHTTP(kind) {
			slow = grpcOutcome(codes.Unavailable, 5*time.Second)
		}
		ok := httpOutcome(200, 0)
		if !isHTTP(kind) {
			ok = grpcOutcome(codes.OK, 0)
		}
		rows = append(rows, row{kind: kind, seq: []outcome{ok}, rc: on, cancel: "before", table: "C"})
		if !isHTTP(kind) {
			rows = append(rows, row{kind: kind, seq: []outcome{grpcOutcome(codes.Unavailable, 90*time.Second)}, rc: retryCfg{Enabled: true, MaxElapsed: 0}, cancel: "during-long-hint", table: "C"})
			rows = append(rows, row{kind: kind, seq: []outcome{grpcOutcome(codes.ResourceExhausted, 61*time.Second)}, rc: retryCfg{Enabled: true, MaxElapsed: 0}, cancel: "during-long-hint", table: "C", noTimeout: true})
		}
		rows = append(rows, row{kind: kind, seq: []outcome{ok}, rc: on, cancel: "during-delay", table: "C"})
		rows = append(rows, row{kind: kind, seq: []outcome{slow}, rc: on, cancel: "during-backoff", table: "C", longBackoff: true})
		rows = append(rows, row{kind: kind, seq: []outcome{slow}, rc: on, cancel: "shutdown-during-backoff", table: "C", longBackoff: true})
		rows = append(rows, row{kind: kind, seq: []outcome{ok}, rc: on, cancel: "shutdown-during-delay", table: "C"})
		if strings.HasPrefix(kind, "otlptrace") {
			// the trace exporters stop in-flight exports even when Shutdown's own context is already done
			rows = append(rows, row{kind: kind, seq: []outcome{slow}, rc: on, cancel: "shutdown-during-backoff", table: "C", longBackoff: true, deadShutdown: true})
			rows = append(rows, row{kind: kind, seq: []outcome{slow}, rc: on, cancel: "shutdown-during-backoff", table: "C", longBackoff: true, deadShutdown: true, noTimeout: true})
		}
		// the same with the per-export timeout switched off: cancellation is then the only way out of a wait
		rows = append(rows, row{kind: kind, seq: []outcome{ok}, rc: on, cancel: "during-delay", table: "C", noTimeout: true})
		rows = append(rows, row{kind: kind, seq: []outcome{slow}, rc: on, cancel: "during-backoff", table: "C", longBackoff: true, noTimeout: true})
		rows = append(rows, row{kind: kind, seq: []outcome{slow}, rc: on, cancel: "shutdown-during-backoff", table: "C", longBackoff: true, noTimeout: true})
	}
	return rows
}

func genSeq(r *vf.RNG, kind string) row {
	rw := row{kind: kind, table: "B", gz: r.Bool()}
	rw.rc = vf.Pick(r, []retryCfg{{Enabled: false}, {Enabled: true, MaxElapsed: 0}, {Enabled: true, MaxElapsed: 0}, {Enabled: true, MaxElapsed: 50 * time.Millisecond}, {Enabled: true, MaxElapsed: 2 * time.Second}})
	n := 1 + r.Intn(6)
	for i := 0; i < n; i++ {
		var o outcome
		if isHTTP(kind) {
			switch r.Intn(8) {
			case 0:
				o = httpOutcome(vf.Pick(r, []int{200, 202}), 0)
			case 1:
				o = httpOutcome(vf.Pick(r, []int{400, 404, 500, 501}), 0)
			case 2:
				o = networkOutcome()
			default:
				o = httpOutcome(vf.Pick(r, []int{429, 502, 503, 504}), 0)
			}
		} else {
			switch r.Intn(8) {
			case 0:
				o = grpcOutcome(codes.OK, 0)
			case 1:
				o = grpcOutcome(vf.Pick(r, []codes.Code{codes.Internal, codes.InvalidArgument, codes.ResourceExhausted, codes.Unknown}), 0)
			case 2, 3:
				o = grpcOutcome(vf.Pick(r, []codes.Code{codes.Unavailable, codes.ResourceExhausted, codes.Aborted}), time.Duration(20+r.Intn(60))*time.Millisecond)
			default:
				o = grpcOutcome(vf.Pick(r, []codes.Code{codes.Unavailable, codes.Canceled, codes.DeadlineExceeded, codes.Aborted, codes.OutOfRange, codes.DataLoss}), 0)
			}
		}
		rw.seq = append(rw.seq, o)
	}
	return rw
}

func main() {
	vf.Main("C14", "fault_enumeration", func(c *vf.Ctx) {
		c.Rule = "scripted loopback collectors for the six OTLP exporters. Table A (enumerated completely): every single-response outcome followed by success - HTTP 200/202/204/400/401/403/404/408/413/429/500/501/502/503/504, Retry-After, connection reset, partial success, retry disabled; all 17 gRPC codes with and without RetryInfo, partial success, retry disabled. Table B (seeded): sequences of 1-6 outcomes mixing retryable, throttled, terminal and network outcomes under retry configs {disabled, unbounded, 50 ms, 2 s}, gzip on/off. Table C: cancellation before the first attempt, while the collector holds the request, during the wait for a 5 s throttle hint, and exporter Shutdown during that wait; partial success with count only / message only; RetryInfo with zero or unset delay; attempts answered after 300 ms against a 1 s budget; 90 s hints under an unbounded budget. distinct = distinct (exporter, table, deciding outcome, attempts) signatures"
		c.Assume = []string{"lower bounds on waits are hard (timers never fire early); attempt counts are decided on the logical budget (sum of hints vs MaxElapsedTime) with a factor-2 margin where real elapsed time matters", "a closed connection may surface as a temporary error (retried) or as EOF (terminal): both are accepted", "backoff InitialInterval 1 ms so that backoff is negligible next to throttle hints"}
		otel.SetErrorHandler(theHandler)
		otel.SetLogger(logr.Discard())
		a := tableA()
		c.Cases("table-A", len(a), 32, func(k *vf.Case) {
			runRow(k, a[k.Index])
		})
		nB := c.N(60, 800) * len(exporterKinds)
		c.Cases("table-B", nB, 32, func(k *vf.Case) { runRow(k, genSeq(k.R, exporterKinds[k.Index%len(exporterKinds)])) })
		cc := tableC()
		c.Cases("table-C", len(cc), 24, func(k *vf.Case) { runRow(k, cc[k.Index]) })
		nC := c.N(10, 100) * len(exporterKinds)
		c.Cases("concurrent-retry", nC, 16, func(k *vf.Case) { runConcurrentRetry(k, exporterKinds[k.Index%len(exporterKinds)]) })
		c.Exhaustive(true)
		c.Extra("table_A_rows", len(a))
		c.Extra("table_C_rows", len(cc))
		c.Floor("rows", int64(len(a)+nB)*8/10)
		c.Floor("rows_cancellation", int64(len(cc))*8/10)
		c.Floor("hints_checked", 50)
		c.Floor("concurrent_retry_cases", int64(nC)*8/10)
	})
}
