// C04 — exported span equals a reference model of the operations applied to it.
package main

import (
	"context"
	"errors"
	"fmt"
	"math"
	"sort"
	"strings"
	"sync"
	"time"

	"go.opentelemetry.io/otel/attribute"
	"go.opentelemetry.io/otel/codes"
	sdktrace "go.opentelemetry.io/otel/sdk/trace"
	"go.opentelemetry.io/otel/trace"

	"verifharness/vf"
)

// ---------------------------------------------------------------------------------------------
// recording processor

type recorder struct {
	mu    sync.Mutex
	ended map[trace.SpanID][]sdktrace.ReadOnlySpan
}

func (r *recorder) OnStart(context.Context, sdktrace.ReadWriteSpan) {}
func (r *recorder) OnEnd(s sdktrace.ReadOnlySpan) {
	r.mu.Lock()
	r.ended[s.SpanContext().SpanID()] = append(r.ended[s.SpanContext().SpanID()], s)
	r.mu.Unlock()
}
func (r *recorder) Shutdown(context.Context) error   { return nil }
func (r *recorder) ForceFlush(context.Context) error { return nil }

// ---------------------------------------------------------------------------------------------
// model

type mevent struct {
	name    string
	attrs   []attribute.KeyValue
	dropped int
	ts      time.Time // zero = not fixed by the program
	hasST   bool      // a stack trace attribute is expected somewhere (presence only)
}

type mlink struct {
	sc      trace.SpanContext
	attrs   []attribute.KeyValue
	dropped int
}

type model struct {
	lim           sdktrace.SpanLimits
	name          string
	kind          trace.SpanKind
	start         time.Time
	end           time.Time
	keys          []string
	attrs         map[string]attribute.Value // original (untruncated) values
	dropped       int
	events        []mevent
	droppedEvents int
	links         []mlink
	droppedLinks  int
	status        sdktrace.Status
	ended         bool
	// evidence
	hitAttrLimit, overCapPath, updatedWhileFull, truncated, evictedEvents, evictedLinks bool
	rawLen                                                                              int
}

func valid(kv attribute.KeyValue) bool {
	return kv.Key != "" && kv.Value.Type() != attribute.INVALID
}

func (m *model) setAttributes(kvs []attribute.KeyValue) {
	if m.ended || len(kvs) == 0 {
		return
	}
	limit := m.lim.AttributeCountLimit
	if limit == 0 {
		m.dropped += len(kvs)
		m.hitAttrLimit = true
		return
	}
	for _, kv := range kvs {
		if !valid(kv) {
			m.dropped++
			continue
		}
		k := string(kv.Key)
		if _, ok := m.attrs[k]; ok {
			if limit > 0 && len(m.keys) >= limit {
				m.updatedWhileFull = true
			}
			m.attrs[k] = kv.Value
			continue
		}
		if limit > 0 && len(m.keys) >= limit {
			m.dropped++
			m.hitAttrLimit = true
			continue
		}
		m.keys = append(m.keys, k)
		m.attrs[k] = kv.Value
	}
}

func capAttrs(limit int, attrs []attribute.KeyValue) ([]attribute.KeyValue, int) {
	if limit == 0 {
		return nil, len(attrs)
	}
	if limit > 0 && len(attrs) > limit {
		return attrs[:limit], len(attrs) - limit
	}
	return attrs, 0
}

func (m *model) addEvent(e mevent) {
	if m.ended {
		return
	}
	e.attrs, e.dropped = capAttrs(m.lim.AttributePerEventCountLimit, e.attrs)
	c := m.lim.EventCountLimit
	if c == 0 {
		m.droppedEvents++
		m.evictedEvents = true
		return
	}
	if c > 0 && len(m.events) == c {
		m.events = m.events[1:]
		m.droppedEvents++
		m.evictedEvents = true
	}
	m.events = append(m.events, e)
}

func (m *model) addLink(l trace.Link) {
	if !l.SpanContext.IsValid() && len(l.Attributes) == 0 && l.SpanContext.TraceState().Len() == 0 {
		return
	}
	if m.ended {
		return
	}
	ml := mlink{sc: l.SpanContext}
	ml.attrs, ml.dropped = capAttrs(m.lim.AttributePerLinkCountLimit, l.Attributes)
	c := m.lim.LinkCountLimit
	if c == 0 {
		m.droppedLinks++
		m.evictedLinks = true
		return
	}
	if c > 0 && len(m.links) == c {
		m.links = m.links[1:]
		m.droppedLinks++
		m.evictedLinks = true
	}
	m.links = append(m.links, ml)
}

func (m *model) setStatus(code codes.Code, desc string) {
	if m.ended || m.status.Code > code {
		return
	}
	st := sdktrace.Status{Code: code}
	if code == codes.Error {
		st.Description = desc
	}
	m.status = st
}

// ---------------------------------------------------------------------------------------------
// generators

var keyPool = []string{"a", "b", "c", "d", "e", "f", "g", "h", "k1", "k2", "http.method", "日本", "x y", ""}

var limitChoices = []int{-1, 0, 1, 2, 3, 5, 128, -2, math.MinInt} // every negative value means "unlimited", not only -1

func genString(r *vf.RNG, limit int) string {
	// lengths around the limit, in bytes and in runes
	n := r.Intn(8)
	if limit > 0 && r.Bool() {
		n = limit - 1 + r.Intn(3)
		if n < 0 {
			n = 0
		}
	}
	switch r.Intn(8) {
	case 0:
		return r.ASCIIFrom("abcdefghij", n)
	case 1:
		return strings.Repeat("�", r.Intn(3)) + r.ASCIIFrom("ab", n)
	case 2:
		return r.HostileString(n)
	case 3:
		return r.UTF8String(n)
	case 4:
		return r.ASCIIFrom("ab", n/2) + vf.Pick(r, []string{"\xff", "\xc3", "\xe2\x82", "\xf0\x9f\x98", "\x80", "\xed\xa0\x80"}) + r.UTF8String(n/2+1)
	case 5:
		return strings.Repeat(vf.Pick(r, []string{"é", "世", "😀", "�"}), n)
	case 6:
		return r.ASCIIFrom("ab", r.Intn(3)) + "\xff�" + r.UTF8String(n) // invalid byte then literal U+FFFD
	default:
		return r.HostileString(n + r.Intn(4))
	}
}

func genValue(r *vf.RNG, limit int) attribute.Value {
	switch r.Intn(6) {
	case 0, 1, 2:
		return attribute.StringValue(genString(r, limit))
	case 3:
		n := r.Intn(4)
		ss := make([]string, n)
		for i := range ss {
			ss[i] = genString(r, limit)
		}
		return attribute.StringSliceValue(ss)
	default:
		v := r.AttrValue()
		if r.Chance(1, 40) {
			return attribute.Value{}
		}
		return v
	}
}

func genKVs(r *vf.RNG, lim int, n int) []attribute.KeyValue {
	kvs := make([]attribute.KeyValue, n)
	for i := range kvs {
		kvs[i] = attribute.KeyValue{Key: attribute.Key(vf.Pick(r, keyPool)), Value: genValue(r, lim)}
	}
	return kvs
}

func genSC(r *vf.RNG) trace.SpanContext {
	if r.Chance(1, 6) {
		return trace.SpanContext{}
	}
	var tid trace.TraceID
	var sid trace.SpanID
	copy(tid[:], r.Bytes(16))
	copy(sid[:], r.Bytes(8))
	cfg := trace.SpanContextConfig{TraceID: tid, SpanID: sid, TraceFlags: trace.TraceFlags(r.Intn(2)), Remote: r.Bool()}
	if r.Chance(1, 4) {
		cfg.TraceState, _ = trace.ParseTraceState("vendor=" + r.ASCIIFrom("abc", 3))
	}
	return trace.NewSpanContext(cfg)
}

type myErr struct{ msg string }

func (e myErr) Error() string { return e.msg }

// ---------------------------------------------------------------------------------------------

func snapshotString(s sdktrace.ReadOnlySpan) string {
	var sb strings.Builder
	fmt.Fprintf(&sb, "name=%q kind=%v start=%d end=%d status=%v/%q dropped=%d/%d/%d child=%d\n", s.Name(), s.SpanKind(),
		s.StartTime().UnixNano(), s.EndTime().UnixNano(), s.Status().Code, s.Status().Description, s.DroppedAttributes(), s.DroppedEvents(), s.DroppedLinks(), s.ChildSpanCount())
	at := append([]attribute.KeyValue(nil), s.Attributes()...)
	sort.SliceStable(at, func(i, j int) bool { return at[i].Key < at[j].Key })
	sb.WriteString("attrs: " + vf.CanonKVs(at) + "\n")
	for _, e := range s.Events() {
		fmt.Fprintf(&sb, "event %q t=%d dropped=%d %s\n", e.Name, e.Time.UnixNano(), e.DroppedAttributeCount, vf.CanonKVs(e.Attributes))
	}
	for _, l := range s.Links() {
		fmt.Fprintf(&sb, "link %s-%s ts=%s dropped=%d %s\n", l.SpanContext.TraceID(), l.SpanContext.SpanID(), l.SpanContext.TraceState().String(), l.DroppedAttributeCount, vf.CanonKVs(l.Attributes))
	}
	return sb.String()
}

func compareAttrValue(limit int, orig, got attribute.Value) (bool, string) {
	if orig.Type() != got.Type() {
		return false, fmt.Sprintf("type %v != %v", got.Type(), orig.Type())
	}
	switch orig.Type() {
	case attribute.STRING:
		return vf.TruncOK(limit, orig.AsString(), got.AsString())
	case attribute.STRINGSLICE:
		o, g := orig.AsStringSlice(), got.AsStringSlice()
		if len(o) != len(g) {
			return false, "slice length changed"
		}
		for i := range o {
			if ok, why := vf.TruncOK(limit, o[i], g[i]); !ok {
				return false, fmt.Sprintf("element %d: %s", i, why)
			}
		}
		return true, ""
	}
	if vf.Canon(orig) != vf.Canon(got) {
		return false, "value differs"
	}
	return true, ""
}

func main() {
	vf.Main("C04", "exploration", func(c *vf.Ctx) {
		c.Rule = "seeded programs of 0-60 span API calls (Start options, SetAttributes with duplicate/empty/invalid keys over 8 types, AddEvent, AddLink incl. the ignored empty link, RecordError, SetStatus, SetName, End with/without timestamp, post-End calls) under limit vectors drawn from {-1,0,1,2,3,5,128}^6, strings around the length limit in bytes and runes with invalid bytes and literal U+FFFD; event attribute options are prefixes of caller-owned arrays with canaries behind them. distinct = distinct (limit vector class, paths taken: hit-limit/over-cap/update-while-full/truncated/evicted) signatures"
		c.Assume = []string{"attribute order is unspecified and not asserted", "value-length limit asserted for span attributes only (event/link attribute values are not truncated by design)", "exception.stacktrace checked for presence only"}

		c.Cases("programs", c.N(60_000, 1_000_000), 0, func(k *vf.Case) {
			r := k.R
			lim := sdktrace.SpanLimits{
				AttributeValueLengthLimit:   vf.Pick(r, []int{-1, -1, 0, 1, 2, 3, 5, 8, 128}),
				AttributeCountLimit:         vf.Pick(r, limitChoices),
				EventCountLimit:             vf.Pick(r, limitChoices),
				LinkCountLimit:              vf.Pick(r, limitChoices),
				AttributePerEventCountLimit: vf.Pick(r, limitChoices),
				AttributePerLinkCountLimit:  vf.Pick(r, limitChoices),
			}
			rec := &recorder{ended: map[trace.SpanID][]sdktrace.ReadOnlySpan{}}
			tp := sdktrace.NewTracerProvider(sdktrace.WithRawSpanLimits(lim), sdktrace.WithSampler(sdktrace.AlwaysSample()), sdktrace.WithSpanProcessor(rec))
			tr := tp.Tracer("c04")
			m := &model{lim: lim, attrs: map[string]attribute.Value{}}
			base := time.Unix(1_700_000_000, 0)
			var prog []string
			logf := func(f string, a ...any) { prog = append(prog, fmt.Sprintf(f, a...)) }

			// ---- Start
			var sopts []trace.SpanStartOption
			m.name = vf.Pick(r, []string{"span", "", "名前", "a b"})
			if r.Bool() {
				m.start = base.Add(time.Duration(r.Intn(1000)) * time.Millisecond)
				sopts = append(sopts, trace.WithTimestamp(m.start))
			}
			if r.Bool() {
				m.kind = trace.SpanKind(r.Intn(7)) // incl. invalid 6 -> Internal
				sopts = append(sopts, trace.WithSpanKind(m.kind))
			}
			var startLinks []trace.Link
			if r.Chance(1, 3) {
				for i := r.Intn(4); i > 0; i-- {
					startLinks = append(startLinks, trace.Link{SpanContext: genSC(r), Attributes: genKVs(r, lim.AttributeValueLengthLimit, r.Intn(4))})
				}
				sopts = append(sopts, trace.WithLinks(startLinks...))
			}
			var startAttrs []attribute.KeyValue
			if r.Chance(1, 2) {
				startAttrs = genKVs(r, lim.AttributeValueLengthLimit, r.Intn(7))
				sopts = append(sopts, trace.WithAttributes(startAttrs...))
			}
			logf("Start(name=%q, links=%d, attrs=%s)", m.name, len(startLinks), vf.CanonKVs(startAttrs))
			_, span := tr.Start(context.Background(), m.name, sopts...)
			for _, l := range startLinks {
				m.addLink(l)
			}
			m.setAttributes(startAttrs)
			sid := span.SpanContext().SpanID()

			nops := r.Intn(40)
			if r.Chance(1, 5) {
				nops = r.Intn(8)
			}
			endAt := nops
			if r.Chance(1, 2) {
				endAt = r.Intn(nops + 1) // post-End ops follow
			}
			var endSnapshot string
			doEnd := func() {
				var eopts []trace.SpanEndOption
				var ts time.Time
				if r.Bool() {
					ts = base.Add(time.Duration(2000+r.Intn(1000)) * time.Millisecond)
					eopts = append(eopts, trace.WithTimestamp(ts))
				}
				logf("End(ts=%v)", !ts.IsZero())
				span.End(eopts...)
				if !m.ended {
					m.ended = true
					m.end = ts
				}
				if endSnapshot == "" {
					rec.mu.Lock()
					ss := rec.ended[sid]
					rec.mu.Unlock()
					if len(ss) == 1 {
						endSnapshot = snapshotString(ss[0])
					}
				}
			}
			opCount := map[string]int{}
			for i := 0; i < nops; i++ {
				if i == endAt {
					doEnd()
				}
				switch r.Intn(12) {
				case 0, 1, 2, 3:
					n := 1 + r.Intn(6)
					if lim.AttributeCountLimit > 0 && r.Chance(1, 3) {
						// straddle len+len == limit
						n = lim.AttributeCountLimit - len(m.keys) + r.Intn(3) - 1
						if n < 0 {
							n = 0
						}
						if n > 14 {
							n = 14
						}
					}
					kvs := genKVs(r, lim.AttributeValueLengthLimit, n)
					logf("SetAttributes(%s)", vf.CanonKVs(kvs))
					if lim.AttributeCountLimit > 0 && !m.ended && len(m.keys)+len(kvs) > lim.AttributeCountLimit {
						m.overCapPath = true
					}
					span.SetAttributes(append([]attribute.KeyValue(nil), kvs...)...)
					m.setAttributes(kvs)
					opCount["SetAttributes"]++
				case 4, 5:
					name := vf.Pick(r, []string{"ev", "", "e2"})
					var eo []trace.EventOption
					var ev mevent
					ev.name = name
					if r.Chance(4, 5) {
						ev.ts = base.Add(time.Duration(r.Intn(5000)) * time.Millisecond)
						eo = append(eo, trace.WithTimestamp(ev.ts))
					}
					// the attribute lists are prefixes of a larger array the caller keeps using: an option must not
					// write behind what it was given
					var canaries [][]attribute.KeyValue
					for j := r.Intn(3); j > 0; j-- {
						kvs := genKVs(r, lim.AttributeValueLengthLimit, r.Intn(5))
						ev.attrs = append(ev.attrs, kvs...)
						backing := make([]attribute.KeyValue, len(kvs), len(kvs)+3)
						copy(backing, kvs)
						rest := backing[len(kvs) : len(kvs)+3]
						for ci := range rest {
							rest[ci] = attribute.String("caller-owned", "untouched")
						}
						canaries = append(canaries, rest)
						eo = append(eo, trace.WithAttributes(backing...))
					}
					logf("AddEvent(%q, %s)", name, vf.CanonKVs(ev.attrs))
					span.AddEvent(name, eo...)
					for _, rest := range canaries {
						for _, kv := range rest {
							if kv.Key != "caller-owned" || kv.Value.AsString() != "untouched" {
								k.Violate("callers-array-written", "AddEvent attribute option", fmt.Sprintf("an element behind the slice passed to WithAttributes now holds %s=%s\nprogram:\n%s", kv.Key, kv.Value.Emit(), strings.Join(prog, "\n")), nil)
							}
						}
					}
					m.addEvent(ev)
					opCount["AddEvent"]++
				case 6:
					l := trace.Link{SpanContext: genSC(r), Attributes: genKVs(r, lim.AttributeValueLengthLimit, r.Intn(5))}
					if r.Chance(1, 5) {
						l = trace.Link{} // ignored empty link
					}
					logf("AddLink(valid=%v, %s)", l.SpanContext.IsValid(), vf.CanonKVs(l.Attributes))
					span.AddLink(l)
					m.addLink(l)
					opCount["AddLink"]++
				case 7:
					var err error
					typ := ""
					switch r.Intn(4) {
					case 0:
						err, typ = errors.New("boom "+r.ASCIIFrom("xyz", 2)), "*errors.errorString"
					case 1:
						err, typ = myErr{"custom"}, "main.myErr"
					case 2:
						err, typ = &myErr{"ptr"}, "*main.myErr"
					default:
						err = nil
					}
					var eo []trace.EventOption
					var ev mevent
					ev.name = "exception"
					if r.Chance(4, 5) {
						ev.ts = base.Add(time.Duration(r.Intn(5000)) * time.Millisecond)
						eo = append(eo, trace.WithTimestamp(ev.ts))
					}
					if r.Bool() {
						kvs := genKVs(r, lim.AttributeValueLengthLimit, r.Intn(3))
						ev.attrs = append(ev.attrs, kvs...)
						eo = append(eo, trace.WithAttributes(kvs...))
					}
					st := r.Chance(1, 4)
					if st {
						eo = append(eo, trace.WithStackTrace(true))
					}
					logf("RecordError(%v, stack=%v, %s)", err, st, vf.CanonKVs(ev.attrs))
					span.RecordError(err, eo...)
					if err != nil {
						ev.attrs = append(ev.attrs, attribute.String("exception.type", typ), attribute.String("exception.message", err.Error()))
						if st {
							ev.attrs = append(ev.attrs, attribute.String("exception.stacktrace", "<any>"))
							ev.hasST = true
						}
						m.addEvent(ev)
					}
					opCount["RecordError"]++
				case 8, 9:
					code := codes.Code(r.Intn(3))
					desc := vf.Pick(r, []string{"", "d1", "d2"})
					logf("SetStatus(%v,%q)", code, desc)
					span.SetStatus(code, desc)
					m.setStatus(code, desc)
					opCount["SetStatus"]++
				case 10:
					n := vf.Pick(r, []string{"renamed", "", "n2"})
					logf("SetName(%q)", n)
					span.SetName(n)
					if !m.ended {
						m.name = n
					}
					opCount["SetName"]++
				default:
					rec := span.IsRecording()
					if rec == m.ended {
						k.Violate("isrecording-mismatch", "", fmt.Sprintf("IsRecording=%v ended=%v\n%s", rec, m.ended, strings.Join(prog, "\n")), nil)
					}
					opCount["IsRecording"]++
				}
			}
			postEnd := m.ended
			if !m.ended {
				doEnd()
			}
			if postEnd && r.Bool() {
				doEnd() // second End
			}

			// ---- compare
			rec.mu.Lock()
			ss := rec.ended[sid]
			rec.mu.Unlock()
			fail := func(class, key, detail string) {
				k.Violate(class, key, fmt.Sprintf("%s\nlimits=%+v\nprogram:\n%s\nexported:\n%s", detail, lim, strings.Join(prog, "\n"), func() string {
					if len(ss) > 0 {
						return snapshotString(ss[0])
					}
					return "(none)"
				}()), nil)
			}
			if len(ss) != 1 {
				fail("onend-count", "", fmt.Sprintf("OnEnd called %d times", len(ss)))
				return
			}
			s := ss[0]
			if s.Name() != m.name {
				fail("name-mismatch", "", fmt.Sprintf("name %q want %q", s.Name(), m.name))
			}
			wantKind := trace.ValidateSpanKind(m.kind)
			if s.SpanKind() != wantKind {
				fail("kind-mismatch", "", "")
			}
			if !m.start.IsZero() && !s.StartTime().Equal(m.start) {
				fail("start-time-mismatch", "", "")
			}
			if !m.end.IsZero() && !s.EndTime().Equal(m.end) {
				fail("end-time-mismatch", "", fmt.Sprintf("end %v want %v", s.EndTime(), m.end))
			}
			if s.EndTime().IsZero() {
				fail("end-time-zero", "", "")
			}
			if s.Status() != m.status {
				fail("status-mismatch", "", fmt.Sprintf("status %+v want %+v", s.Status(), m.status))
			}
			// attributes
			got := s.Attributes()
			seen := map[attribute.Key]bool{}
			for _, kv := range got {
				if seen[kv.Key] {
					fail("duplicate-attribute-key", "", string(kv.Key))
				}
				seen[kv.Key] = true
				orig, ok := m.attrs[string(kv.Key)]
				if !ok {
					fail("unexpected-attribute", "", fmt.Sprintf("key %q not in model (model keys %q)", kv.Key, m.keys))
					continue
				}
				if ok2, why := compareAttrValue(lim.AttributeValueLengthLimit, orig, kv.Value); !ok2 {
					cls := "attribute-value-mismatch"
					if orig.Type() == attribute.STRING || orig.Type() == attribute.STRINGSLICE {
						cls = "truncation"
					}
					fail(cls, why, fmt.Sprintf("key %q: %s\n orig %s\n got  %s (limit %d)", kv.Key, why, vf.Canon(orig), vf.Canon(kv.Value), lim.AttributeValueLengthLimit))
				} else if vf.Canon(orig) != vf.Canon(kv.Value) {
					m.truncated = true
				}
			}
			if len(got) != len(m.keys) {
				fail("attribute-count-mismatch", "", fmt.Sprintf("%d attributes, model %d (%q)", len(got), len(m.keys), m.keys))
			}
			if lim.AttributeCountLimit >= 0 && len(got) > lim.AttributeCountLimit {
				fail("attribute-limit-exceeded", "", "")
			}
			if s.DroppedAttributes() != m.dropped {
				fail("dropped-attributes-mismatch", "", fmt.Sprintf("dropped %d want %d", s.DroppedAttributes(), m.dropped))
			}
			// events
			ge := s.Events()
			if len(ge) != len(m.events) || s.DroppedEvents() != m.droppedEvents {
				fail("events-mismatch", "count", fmt.Sprintf("%d events dropped %d; want %d dropped %d", len(ge), s.DroppedEvents(), len(m.events), m.droppedEvents))
			} else {
				for i, e := range ge {
					me := m.events[i]
					if e.Name != me.name || e.DroppedAttributeCount != me.dropped || len(e.Attributes) != len(me.attrs) || (!me.ts.IsZero() && !e.Time.Equal(me.ts)) || e.Time.IsZero() {
						fail("events-mismatch", "event", fmt.Sprintf("event %d: got %q dropped=%d attrs=%d; want %q dropped=%d attrs=%d", i, e.Name, e.DroppedAttributeCount, len(e.Attributes), me.name, me.dropped, len(me.attrs)))
						break
					}
					for j := range e.Attributes {
						if e.Attributes[j].Key == "exception.stacktrace" && me.attrs[j].Key == "exception.stacktrace" {
							if e.Attributes[j].Value.AsString() == "" {
								fail("events-mismatch", "stacktrace", "empty stack trace")
							}
							continue
						}
						if e.Attributes[j].Key != me.attrs[j].Key || vf.Canon(e.Attributes[j].Value) != vf.Canon(me.attrs[j].Value) {
							fail("events-mismatch", "attrs", fmt.Sprintf("event %d attr %d: got %s want %s", i, j, vf.CanonKVs(e.Attributes[j:j+1]), vf.CanonKVs(me.attrs[j:j+1])))
							break
						}
					}
				}
			}
			// links
			gl := s.Links()
			if len(gl) != len(m.links) || s.DroppedLinks() != m.droppedLinks {
				fail("links-mismatch", "count", fmt.Sprintf("%d links dropped %d; want %d dropped %d", len(gl), s.DroppedLinks(), len(m.links), m.droppedLinks))
			} else {
				for i, l := range gl {
					ml := m.links[i]
					if !l.SpanContext.Equal(ml.sc) || l.DroppedAttributeCount != ml.dropped || vf.CanonKVs(l.Attributes) != vf.CanonKVs(ml.attrs) {
						fail("links-mismatch", "link", fmt.Sprintf("link %d", i))
						break
					}
				}
			}
			// post-End stability
			if endSnapshot != "" && snapshotString(s) != endSnapshot {
				fail("snapshot-changed-after-end", "", fmt.Sprintf("at End:\n%s\nlater:\n%s", endSnapshot, snapshotString(s)))
			}
			if span.IsRecording() {
				fail("isrecording-mismatch", "after end", "")
			}

			// evidence
			for op, n := range opCount {
				k.C.Count("ops_"+op, int64(n))
			}
			flag := func(b bool, name string) string {
				if b {
					k.C.Count("programs_"+name, 1)
					return "1"
				}
				return "0"
			}
			sig := flag(m.hitAttrLimit, "hit_attr_limit") + flag(m.overCapPath, "overcap_path") + flag(m.updatedWhileFull, "updated_while_full") +
				flag(m.truncated, "truncated_value") + flag(m.evictedEvents, "evicted_events") + flag(m.evictedLinks, "evicted_links") + flag(postEnd, "post_end_ops")
			limClass := func(v int) string {
				switch {
				case v < 0:
					return "u"
				case v == 0:
					return "0"
				case v < 10:
					return "s"
				}
				return "L"
			}
			k.C.Sig(sig + "|" + limClass(lim.AttributeValueLengthLimit) + limClass(lim.AttributeCountLimit) + limClass(lim.EventCountLimit) + limClass(lim.LinkCountLimit) + limClass(lim.AttributePerEventCountLimit) + limClass(lim.AttributePerLinkCountLimit))
			if k.Index < 2 {
				k.C.Sample(map[string]any{"limits": fmt.Sprintf("%+v", lim), "program": prog, "exported": snapshotString(s)})
			}
		})

		// direct truncation sweep through the span API (one attribute per span) — many more strings
		c.Cases("truncate", c.N(300_000, 3_000_000), 0, func(k *vf.Case) {
			r := k.R
			limit := vf.Pick(r, []int{0, 1, 2, 3, 4, 5, 7, 10})
			rec := &recorder{ended: map[trace.SpanID][]sdktrace.ReadOnlySpan{}}
			lim := sdktrace.NewSpanLimits()
			lim.AttributeValueLengthLimit = limit
			tp := sdktrace.NewTracerProvider(sdktrace.WithRawSpanLimits(lim), sdktrace.WithSpanProcessor(rec))
			_, span := tp.Tracer("t").Start(context.Background(), "s")
			in := genString(r, limit)
			span.SetAttributes(attribute.String("k", in))
			span.End()
			ss := rec.ended[span.SpanContext().SpanID()]
			if len(ss) != 1 || len(ss[0].Attributes()) != 1 {
				k.Violate("truncate-harness", "", "no span/attribute", nil)
				return
			}
			got := ss[0].Attributes()[0].Value.AsString()
			if ok, why := vf.TruncOK(limit, in, got); !ok {
				k.Violate("truncation", why, fmt.Sprintf("limit %d\n in  %s\n got %s\n%s", limit, vf.Quote(in), vf.Quote(got), why), []any{limit, in})
			}
			vr, inv := vf.ValidRunes(in)
			cls := "within"
			if len(in) > limit {
				cls = "cut"
				if inv > 0 {
					cls = "cut+invalid"
					k.C.Count("truncations_with_invalid_bytes", 1)
				}
				k.C.Count("truncations", 1)
			}
			k.C.Sig(fmt.Sprintf("tr|%d|%s|%d|%d", limit, cls, min(len(vr), 12), min(inv, 4)))
		})

		c.Floor("programs_hit_attr_limit", 1000)
		c.Floor("programs_overcap_path", 1000)
		c.Floor("programs_updated_while_full", 300)
		c.Floor("programs_truncated_value", 1000)
		c.Floor("programs_evicted_events", 1000)
		c.Floor("programs_post_end_ops", 1000)
		c.Floor("truncations_with_invalid_bytes", 1000)
	})
}
