// C05 — attribute sets are canonical: sorted, de-duplicated, order-insensitive identity.
package main

import (
	"encoding/json"
	"fmt"
	"math"
	"sort"
	"strconv"
	"strings"

	"go.opentelemetry.io/otel/attribute"

	"verifharness/vf"
)

var keyPool = []string{"", "a", "b", "c", "a.b", "a_b", "A", "aa", "ab", "k0", "k1", "k2", "k3", "k4", "k5", "k6", "k7", "k8",
	"k9", "k10", "k11", "k12", "zz", "é", "a\x00", "a=b", "a,b", "a\\b", "日本", "\xff\xfe", strings.Repeat("long", 64)}

func genKVs(r *vf.RNG) []attribute.KeyValue {
	n := 0
	switch r.Intn(10) {
	case 0:
		n = 0
	case 1:
		n = 9 + r.Intn(4) // 9..12 (fixed-array vs reflective storage boundary at 10)
	case 2:
		n = 20 + r.Intn(21)
	default:
		n = r.Intn(16)
	}
	nk := 1 + r.Intn(len(keyPool))
	keys := append([]string{}, keyPool...)
	vf.Shuffle(r, keys)
	keys = keys[:nk]
	kvs := make([]attribute.KeyValue, n)
	for i := range kvs {
		kvs[i] = attribute.KeyValue{Key: attribute.Key(vf.Pick(r, keys)), Value: r.AttrValue()}
	}
	return kvs
}

func clone(kvs []attribute.KeyValue) []attribute.KeyValue {
	return append([]attribute.KeyValue(nil), kvs...)
}

// equalityClass: whether two models must be equal ("eq"), must differ ("ne") or are left undecided
// ("amb": differ only in NaN payloads / sign of zero, which the statement does not settle).
func compareModels(a, b vf.AttrModel) string {
	if len(a) != len(b) {
		return "ne"
	}
	amb := false
	for k, va := range a {
		vb, ok := b[k]
		if !ok {
			return "ne"
		}
		if va.Type() != vb.Type() {
			return "ne"
		}
		if vf.Canon(va) == vf.Canon(vb) {
			continue
		}
		switch va.Type() {
		case attribute.FLOAT64:
			fa, fb := va.AsFloat64(), vb.AsFloat64()
			if (fa != fa && fb != fb) || (fa == 0 && fb == 0) {
				amb = true
				continue
			}
			return "ne"
		case attribute.FLOAT64SLICE:
			sa, sb := va.AsFloat64Slice(), vb.AsFloat64Slice()
			if len(sa) != len(sb) {
				return "ne"
			}
			for i := range sa {
				if sa[i] == sb[i] || (sa[i] != sa[i] && sb[i] != sb[i]) {
					continue
				}
				return "ne"
			}
			amb = true
		default:
			return "ne"
		}
	}
	if amb {
		return "amb"
	}
	return "eq"
}

func hasNaNSlice(m vf.AttrModel) bool {
	for _, v := range m {
		if vf.SliceHasNaN(v) {
			return true
		}
	}
	return false
}

func nanKey(m vf.AttrModel, base string) string {
	if hasNaNSlice(m) {
		return base + " [FLOAT64SLICE containing NaN]"
	}
	return base
}

// permuteKeepingLast builds another input with the same last-wins model: the model's entries in a
// random order, with superseded duplicates inserted before the deciding occurrence.
func permuteKeepingLast(r *vf.RNG, m vf.AttrModel) []attribute.KeyValue {
	keys := m.Keys()
	vf.Shuffle(r, keys)
	var out []attribute.KeyValue
	for _, k := range keys {
		out = append(out, attribute.KeyValue{Key: attribute.Key(k), Value: rebuild(r, m[k])})
	}
	// insert superseded duplicates at positions before the last occurrence of their key
	nd := r.Intn(4)
	for d := 0; d < nd && len(out) > 0; d++ {
		j := r.Intn(len(out))
		dup := attribute.KeyValue{Key: out[j].Key, Value: r.AttrValue()}
		// find the last index of this key and insert at a position <= it
		last := j
		for i := range out {
			if out[i].Key == dup.Key {
				last = i
			}
		}
		pos := r.Intn(last + 1)
		out = append(out[:pos], append([]attribute.KeyValue{dup}, out[pos:]...)...)
	}
	return out
}

// rebuild constructs the same typed value through another public constructor (the identity of a Set
// must not depend on which constructor produced a value).
func rebuild(r *vf.RNG, v attribute.Value) attribute.Value {
	var out attribute.Value
	switch v.Type() {
	case attribute.BOOL:
		out = attribute.Bool("k", v.AsBool()).Value
	case attribute.INT64:
		i := v.AsInt64()
		switch r.Intn(3) {
		case 0:
			out = attribute.IntValue(int(i))
		case 1:
			out = attribute.Key("k").Int64(i).Value
		default:
			out = attribute.Int("k", int(i)).Value
		}
	case attribute.FLOAT64:
		out = attribute.Key("k").Float64(v.AsFloat64()).Value
	case attribute.STRING:
		if r.Bool() {
			out = attribute.Stringer("k", strer(v.AsString())).Value
		} else {
			out = attribute.Key("k").String(v.AsString()).Value
		}
	case attribute.BOOLSLICE:
		out = attribute.BoolSlice("k", spare(r, v.AsBoolSlice(), true)).Value
	case attribute.INT64SLICE:
		is := v.AsInt64Slice()
		if r.Bool() {
			ints := make([]int, len(is))
			for i := range is {
				ints[i] = int(is[i])
			}
			ints = spare(r, ints, -77)
			if r.Bool() {
				out = attribute.IntSliceValue(ints)
			} else {
				out = attribute.IntSlice("k", ints).Value
			}
		} else {
			out = attribute.Key("k").Int64Slice(spare(r, is, int64(-77))).Value
		}
	case attribute.FLOAT64SLICE:
		out = attribute.Float64Slice("k", spare(r, v.AsFloat64Slice(), 7.5)).Value
	case attribute.STRINGSLICE:
		out = attribute.Key("k").StringSlice(spare(r, v.AsStringSlice(), "garbage")).Value
	default:
		return v
	}
	if vf.Canon(out) != vf.Canon(v) {
		// the typed value a constructor yields must not depend on which constructor was used, nor on the
		// spare capacity / contents behind the length of the slice it was given
		panic(fmt.Sprintf("constructor-value-differs: %s built again through another public constructor (slices presented with spare capacity) reads back as %s", vf.Canon(v), vf.Canon(out)))
	}
	return out
}

// spare returns s, half of the time as a prefix of a larger caller-owned array whose tail holds junk: a
// slice value is the elements up to len, whatever lies behind them.
func spare[T any](r *vf.RNG, s []T, junk T) []T {
	if r.Bool() {
		return s
	}
	extra := 1 + r.Intn(4)
	buf := make([]T, len(s), len(s)+extra)
	copy(buf, s)
	tail := buf[len(s):cap(buf)]
	for i := range tail {
		if r.Bool() {
			tail[i] = junk
		}
	}
	return buf
}

type strer string

func (s strer) String() string { return string(s) }

func checkSetAgainstModel(k *vf.Case, what string, s *attribute.Set, m vf.AttrModel) bool {
	sl := s.ToSlice()
	ok := true
	if len(sl) != len(m) || s.Len() != len(m) {
		k.Violate("set-size", what, fmt.Sprintf("%s: ToSlice len %d, Len %d, model %d\nset=%s\nmodel=%s", what, len(sl), s.Len(), len(m), vf.CanonKVs(sl), m.Canon()), nil)
		return false
	}
	for i, kv := range sl {
		if i > 0 && !(sl[i-1].Key < kv.Key) {
			k.Violate("set-not-strictly-sorted", what, vf.CanonKVs(sl), nil)
			ok = false
		}
		mv, in := m[string(kv.Key)]
		if !in || vf.Canon(mv) != vf.Canon(kv.Value) {
			k.Violate("set-value-not-last", what, fmt.Sprintf("%s: key %q holds %s, model %v %s", what, kv.Key, vf.Canon(kv.Value), in, vf.Canon(mv)), nil)
			ok = false
		}
	}
	return ok
}

// emitModel is the harness's own rendering of a non-string value in the default encoding: scalars by strconv /
// fmt, bool slices by fmt, the other slices as JSON arrays. A float64 slice holding NaN or an infinity has no
// JSON form; there the library's text is taken as long as it is not empty and names the non-finite elements.
func emitModel(v attribute.Value) string {
	switch v.Type() {
	case attribute.BOOL:
		return strconv.FormatBool(v.AsBool())
	case attribute.INT64:
		return strconv.FormatInt(v.AsInt64(), 10)
	case attribute.FLOAT64:
		return fmt.Sprint(v.AsFloat64())
	case attribute.BOOLSLICE:
		return fmt.Sprint(v.AsBoolSlice())
	case attribute.INT64SLICE:
		j, _ := json.Marshal(v.AsInt64Slice())
		return string(j)
	case attribute.STRINGSLICE:
		j, _ := json.Marshal(v.AsStringSlice())
		return string(j)
	case attribute.FLOAT64SLICE:
		fs := v.AsFloat64Slice()
		if j, err := json.Marshal(fs); err == nil {
			return string(j)
		}
		got := v.Emit()
		ok := got != ""
		for _, f := range fs {
			if math.IsNaN(f) && !strings.Contains(got, "NaN") {
				ok = false
			}
			if math.IsInf(f, 0) && !strings.Contains(got, "Inf") {
				ok = false
			}
		}
		if ok {
			return got
		}
		return "<a non-empty text naming the non-finite elements of " + fmt.Sprint(fs) + ">"
	}
	return v.Emit()
}

func encodeModel(m vf.AttrModel) string {
	esc := func(s string) string {
		var sb strings.Builder
		for _, ch := range s {
			if ch == '=' || ch == ',' || ch == '\\' {
				sb.WriteRune('\\')
			}
			sb.WriteRune(ch)
		}
		return sb.String()
	}
	var p []string
	for _, key := range m.Keys() {
		v := m[key]
		if v.Type() == attribute.STRING {
			p = append(p, esc(key)+"="+esc(v.AsString()))
		} else {
			p = append(p, esc(key)+"="+emitModel(v))
		}
	}
	return strings.Join(p, ",")
}

// keyEncoder is a second Encoder with an identity of its own: it writes the keys only.
type keyEncoder struct{ id attribute.EncoderID }

func (e keyEncoder) Encode(it attribute.Iterator) string {
	var p []string
	for it.Next() {
		p = append(p, "<"+string(it.Attribute().Key)+">")
	}
	return strings.Join(p, "")
}
func (e keyEncoder) ID() attribute.EncoderID { return e.id }

var theKeyEncoder = keyEncoder{id: attribute.NewEncoderID()}

func main() {
	vf.Main("C05", "exploration", func(c *vf.Ctx) {
		c.Rule = "seeded slices of 0-40 key-values over a small hostile key alphabet and all eight value types (NaN payloads, signed zeros, empty and 1000-element slices); each slice is rebuilt in model-preserving permutations/duplications and in single-entry mutations; filters of allow/deny/arbitrary-predicate shape; lookups of present keys, the empty key and every present key's neighbours; scalars family (constructors and sets hand back the bits they were given); slices rebuilt with spare capacity and junk behind len; filter key slices reused by the caller; the caller's slice used for construction repeatedly. distinct = distinct (size class, value types present, filter branch, equality class) signatures"
		c.Assume = []string{"sets differing only in NaN payload / sign of zero are not asserted equal or unequal (statement does not settle which notion of 'same value' applies)"}

		// what a constructor is given is what the value (and a Set built from it) hands back, bit for bit:
		// the harness keeps the Go values it passed in, the library's own read-back is not the reference here
		c.Cases("scalars", c.N(20_000, 200_000), 0, func(k *vf.Case) {
			r := k.R
			f := r.InterestingFloat()
			switch r.Intn(6) {
			case 0:
				f = math.Copysign(0, -1)
			case 1:
				f = math.Float64frombits(0x7ff8000000000000 | uint64(r.Intn(1<<20)))
			case 2:
				f = 0
			}
			i := r.InterestingInt64()
			str := r.HostileString(r.Intn(6))
			b := r.Bool()
			for name, kv := range map[string]attribute.KeyValue{"Float64": attribute.Float64("f", f), "Key.Float64": attribute.Key("f").Float64(f), "Float64Value": {Key: "f", Value: attribute.Float64Value(f)}} {
				if got := kv.Value.AsFloat64(); math.Float64bits(got) != math.Float64bits(f) || kv.Value.Type() != attribute.FLOAT64 {
					k.Violate("constructor-value-differs", name, fmt.Sprintf("given %016x (%v), holds %016x (%v)", math.Float64bits(f), f, math.Float64bits(got), got), nil)
				}
				set := attribute.NewSet(attribute.String("a", "x"), kv, attribute.Int("z", 1))
				if v, ok := set.Value("f"); !ok || math.Float64bits(v.AsFloat64()) != math.Float64bits(f) {
					k.Violate("set-value-not-last", "float64 bits", fmt.Sprintf("given %016x (%v), the set holds %016x", math.Float64bits(f), f, math.Float64bits(v.AsFloat64())), nil)
				}
				if want := "f=" + strconv.FormatFloat(f, 'g', -1, 64); !strings.Contains(set.Encoded(attribute.DefaultEncoder()), want) && f == f {
					k.Violate("encoded-mismatch", "float64", fmt.Sprintf("encoding %q lacks %q", set.Encoded(attribute.DefaultEncoder()), want), nil)
				}
			}
			if v := attribute.Int64Value(i); v.AsInt64() != i || v.Type() != attribute.INT64 {
				k.Violate("constructor-value-differs", "Int64Value", fmt.Sprintf("given %d holds %d", i, v.AsInt64()), nil)
			}
			if v := attribute.StringValue(str); v.AsString() != str || v.Type() != attribute.STRING {
				k.Violate("constructor-value-differs", "StringValue", fmt.Sprintf("given %q holds %q", str, v.AsString()), nil)
			}
			if v := attribute.BoolValue(b); v.AsBool() != b || v.Type() != attribute.BOOL {
				k.Violate("constructor-value-differs", "BoolValue", "", nil)
			}
			fs := []float64{f, -f, 0, math.Copysign(0, -1)}
			if got := attribute.Float64SliceValue(fs).AsFloat64Slice(); len(got) != 4 || math.Float64bits(got[0]) != math.Float64bits(f) || math.Float64bits(got[3]) != math.Float64bits(fs[3]) || math.Float64bits(got[2]) != 0 {
				k.Violate("constructor-value-differs", "Float64SliceValue", fmt.Sprintf("given %v holds %v", fs, got), nil)
			}
			k.C.Count("scalar_cases", 1)
			k.C.Sig(fmt.Sprintf("scalars|%v|%v|%v", f == 0, f != f, math.Signbit(f)))
		})

		c.Cases("sets", c.N(80_000, 1_200_000), 0, func(k *vf.Case) {
			r := k.R
			in := genKVs(r)
			m := vf.ModelOf(in)
			before := vf.MultisetKVs(in)

			work := clone(in)
			s := attribute.NewSet(work...)
			if got := vf.MultisetKVs(work); got != before {
				k.Violate("caller-slice-lost-values", "NewSet", fmt.Sprintf("before %s\nafter  %s", before, got), nil)
			}
			// the same caller-owned slice (now rearranged in place) used for construction again, and again: the
			// value supplied last still wins every time
			for again := 0; again < 2; again++ {
				sAgain := attribute.NewSet(work...)
				if !checkSetAgainstModel(k, "NewSet on the same slice again", &sAgain, m) {
					return
				}
			}
			if !checkSetAgainstModel(k, "NewSet", &s, m) {
				return
			}
			// lookups
			keys := m.Keys()
			for i, key := range keys {
				kv, ok := s.Get(i)
				if !ok || string(kv.Key) != key {
					k.Violate("get-mismatch", "", fmt.Sprintf("Get(%d)=%q,%v want %q", i, kv.Key, ok, key), nil)
				}
				v, ok := s.Value(attribute.Key(key))
				if !ok || vf.Canon(v) != vf.Canon(m[key]) || !s.HasValue(attribute.Key(key)) {
					k.Violate("value-lookup-mismatch", "", fmt.Sprintf("Value(%q)=%s,%v want %s", key, vf.Canon(v), ok, vf.Canon(m[key])), nil)
				}
			}
			if _, ok := s.Get(len(keys)); ok {
				k.Violate("get-mismatch", "out of range", "", nil)
			}
			if _, ok := s.Get(-1); ok {
				k.Violate("get-mismatch", "negative", "", nil)
			}
			absents := []string{"", "nope", "a.", "k", "\x00", "zzz", "\xff\xff"}
			for _, key := range keys { // neighbours of the keys that are there: a prefix, an extension, the next string
				absents = append(absents, key+"\x00", key+"0")
				if len(key) > 0 {
					absents = append(absents, key[:len(key)-1])
				}
			}
			for _, absent := range absents {
				if _, in := m[absent]; in {
					continue
				}
				if _, ok := s.Value(attribute.Key(absent)); ok || s.HasValue(attribute.Key(absent)) {
					k.Violate("value-lookup-mismatch", "absent key found", absent, nil)
				}
			}
			// iteration
			it := s.Iter()
			if it.Len() != len(m) {
				k.Violate("iter-mismatch", "len", "", nil)
			}
			i := 0
			for it.Next() {
				idx, kv := it.IndexedAttribute()
				if idx != i || i >= len(keys) || string(kv.Key) != keys[i] || vf.Canon(kv.Value) != vf.Canon(m[keys[i]]) {
					k.Violate("iter-mismatch", "", fmt.Sprintf("at %d", i), nil)
					break
				}
				i++
			}
			if i != len(m) {
				k.Violate("iter-mismatch", "count", fmt.Sprintf("%d of %d", i, len(m)), nil)
			}
			// an iterator's ToSlice always gives the whole set, wherever the iterator stands
			{
				it2 := s.Iter()
				adv := r.Intn(len(m) + 2)
				for j := 0; j < adv; j++ {
					it2.Next()
				}
				sl := it2.ToSlice()
				ok := len(sl) == len(m)
				for j := 0; ok && j < len(sl); j++ {
					ok = string(sl[j].Key) == keys[j] && vf.Canon(sl[j].Value) == vf.Canon(m[keys[j]])
				}
				if !ok {
					k.Violate("iter-mismatch", "ToSlice of an advanced iterator", fmt.Sprintf("after %d Next calls on a set of %d: %d elements", adv, len(m), len(sl)), nil)
				}
				if sl2 := s.ToSlice(); len(sl2) != len(m) {
					k.Violate("iter-mismatch", "Set.ToSlice", "", nil)
				}
			}
			// encoding
			if got, want := s.Encoded(attribute.DefaultEncoder()), encodeModel(m); got != want {
				k.Violate("encoded-mismatch", "", fmt.Sprintf("got  %s\nwant %s", vf.Quote(got), vf.Quote(want)), nil)
			}
			// another encoder right after the default one on the same set, and the default one again: each call
			// gives that encoder's own text
			if got, want := s.Encoded(theKeyEncoder), theKeyEncoder.Encode(s.Iter()); got != want {
				k.Violate("encoded-mismatch", "second encoder", fmt.Sprintf("got  %s\nwant %s", vf.Quote(got), vf.Quote(want)), nil)
			}
			if got, want := s.Encoded(attribute.DefaultEncoder()), encodeModel(m); got != want {
				k.Violate("encoded-mismatch", "default encoder after another one", fmt.Sprintf("got  %s\nwant %s", vf.Quote(got), vf.Quote(want)), nil)
			}

			// identity: self, rebuild, permutations
			if !s.Equals(&s) || s.Equivalent() != s.Equivalent() {
				k.Violate("set-not-equal-to-itself", nanKey(m, ""), m.Canon(), nil)
			}
			distinctMap := map[attribute.Distinct]int{}
			distinctMap[s.Equivalent()]++
			nperm := 3
			for p := 0; p < nperm; p++ {
				var other []attribute.KeyValue
				if p == 0 {
					other = clone(in)
				} else {
					other = permuteKeepingLast(r, m)
				}
				if compareModels(vf.ModelOf(other), m) != "eq" {
					panic("harness: permutation changed the model")
				}
				s2 := attribute.NewSet(other...)
				if !checkSetAgainstModel(k, "permuted", &s2, m) {
					continue
				}
				k.C.Count("pairs_equal_expected", 1)
				if !s.Equals(&s2) || !s2.Equals(&s) || s.Equivalent() != s2.Equivalent() {
					k.Violate("equal-sets-not-equal", nanKey(m, ""), fmt.Sprintf("same mapping, Equals=false\nmodel=%s", m.Canon()), nil)
				}
				distinctMap[s2.Equivalent()]++
			}
			if len(distinctMap) != 1 {
				k.Violate("equal-sets-distinct-map-keys", nanKey(m, ""), fmt.Sprintf("%d map entries for one mapping: %s", len(distinctMap), m.Canon()), nil)
			}
			// inequality: mutate one entry
			if len(m) > 0 || r.Bool() {
				m2 := vf.AttrModel{}
				for kk, v := range m {
					m2[kk] = v
				}
				switch r.Intn(3) {
				case 0: // change a value
					if len(keys) > 0 {
						m2[vf.Pick(r, keys)] = r.AttrValue()
					}
				case 1: // remove a key
					if len(keys) > 0 {
						delete(m2, vf.Pick(r, keys))
					}
				default: // add a key
					m2["extra-"+r.ASCIIFrom("xyz", 2)] = r.AttrValue()
				}
				var o []attribute.KeyValue
				for kk, v := range m2 {
					o = append(o, attribute.KeyValue{Key: attribute.Key(kk), Value: v})
				}
				s3 := attribute.NewSet(o...)
				switch compareModels(m, m2) {
				case "ne":
					k.C.Count("pairs_unequal_expected", 1)
					if s.Equals(&s3) || s.Equivalent() == s3.Equivalent() {
						k.Violate("different-sets-equal", "", fmt.Sprintf("a=%s\nb=%s", m.Canon(), m2.Canon()), nil)
					}
				case "eq":
					k.C.Count("pairs_equal_expected", 1)
					if !s.Equals(&s3) {
						k.Violate("equal-sets-not-equal", nanKey(m, ""), m.Canon(), nil)
					}
				default:
					k.C.Count("pairs_ambiguous_skipped", 1)
				}
			}

			// filters
			var filter attribute.Filter
			fkind := r.Intn(6)
			var sel map[string]bool
			switch fkind {
			case 0, 1:
				var ks []attribute.Key
				sel = map[string]bool{}
				for _, key := range keyPool {
					if r.Chance(1, 3) {
						ks = append(ks, attribute.Key(key))
						sel[key] = true
					}
				}
				if fkind == 0 {
					filter = attribute.NewAllowKeysFilter(ks...)
				} else {
					filter = attribute.NewDenyKeysFilter(ks...)
					inv := map[string]bool{}
					for _, key := range keyPool {
						if !sel[key] {
							inv[key] = true
						}
					}
					for key := range m {
						if !sel[key] {
							inv[key] = true
						}
					}
					sel = inv
				}
				// the filter belongs to the keys it was built from: the caller's slice is reused afterwards
				for i := range ks {
					ks[i] = attribute.Key("scribbled-" + string(ks[i]))
				}
				if r.Bool() {
					ks = append(ks[:0], "zz-reused")
				}
			case 2: // drop only the first
				sel = map[string]bool{}
				for i, key := range keys {
					sel[key] = i != 0
				}
			case 3: // drop only the last
				sel = map[string]bool{}
				for i, key := range keys {
					sel[key] = i != len(keys)-1
				}
			case 4: // alternate
				sel = map[string]bool{}
				for i, key := range keys {
					sel[key] = i%2 == 0
				}
			default: // by value type
				sel = map[string]bool{}
				for key, v := range m {
					sel[key] = v.Type() == attribute.STRING || v.Type() == attribute.INT64
				}
			}
			if filter == nil {
				ss := sel
				filter = func(kv attribute.KeyValue) bool { return ss[string(kv.Key)] }
			}
			kept, dropped := vf.AttrModel{}, vf.AttrModel{}
			for key, v := range m {
				if sel[key] {
					kept[key] = v
				} else {
					dropped[key] = v
				}
			}
			// Set.Filter
			pre := vf.CanonKVs(s.ToSlice())
			preEq := s.Equivalent()
			fs, fd := s.Filter(filter)
			if vf.CanonKVs(s.ToSlice()) != pre || (!hasNaNSlice(m) && s.Equivalent() != preEq) {
				k.Violate("filter-altered-receiver", "", fmt.Sprintf("before %s\nafter %s", pre, vf.CanonKVs(s.ToSlice())), nil)
			}
			checkSetAgainstModel(k, "Set.Filter kept", &fs, kept)
			if vf.MultisetKVs(fd) != vf.MultisetKVs(modelSlice(dropped)) {
				k.Violate("filter-dropped-mismatch", "Set.Filter", fmt.Sprintf("dropped %s\nwant %s", vf.MultisetKVs(fd), vf.MultisetKVs(modelSlice(dropped))), nil)
			}
			branch := "none"
			switch {
			case len(dropped) == 0:
				branch = "none-dropped"
			case len(dropped) == 1 && len(keys) > 0 && !sel[keys[0]]:
				branch = "first-only"
			case len(kept) == 0:
				branch = "all-dropped"
			default:
				branch = "general"
			}
			k.C.Count("filter_branch_"+branch, 1)
			// NewSetWithFiltered on the raw input: nothing lost
			work2 := clone(in)
			ns, nd := attribute.NewSetWithFiltered(work2, filter)
			checkSetAgainstModel(k, "NewSetWithFiltered kept", &ns, kept)
			if vf.MultisetKVs(nd) != vf.MultisetKVs(modelSlice(dropped)) {
				k.Violate("filter-dropped-mismatch", "NewSetWithFiltered", fmt.Sprintf("dropped %s\nwant %s", vf.MultisetKVs(nd), vf.MultisetKVs(modelSlice(dropped))), nil)
			}
			if got := vf.MultisetKVs(work2); got != before {
				k.Violate("caller-slice-lost-values", "NewSetWithFiltered", fmt.Sprintf("before %s\nafter  %s", before, got), nil)
			}
			if compareModels(kept, vf.ModelOf(fs.ToSlice())) == "eq" && !hasNaNSlice(kept) && !fs.Equals(&ns) {
				k.Violate("equal-sets-not-equal", "Filter vs NewSetWithFiltered", kept.Canon(), nil)
			}

			// merge iterator
			in2 := genKVs(r)
			mB := vf.ModelOf(in2)
			sB := attribute.NewSet(clone(in2)...)
			mi := attribute.NewMergeIterator(&s, &sB)
			var merged []attribute.KeyValue
			for mi.Next() {
				merged = append(merged, mi.Attribute())
			}
			union := vf.AttrModel{}
			for kk, v := range mB {
				union[kk] = v
			}
			for kk, v := range m {
				union[kk] = v
			}
			if vf.CanonKVs(merged) != vf.CanonKVs(modelSlice(union)) {
				k.Violate("merge-iterator-mismatch", "", fmt.Sprintf("got  %s\nwant %s", vf.CanonKVs(merged), vf.CanonKVs(modelSlice(union))), nil)
			}

			// evidence
			types := map[attribute.Type]bool{}
			for _, v := range m {
				types[v.Type()] = true
			}
			var ts []string
			for t := range types {
				ts = append(ts, t.String())
			}
			sort.Strings(ts)
			sizeClass := len(m)
			if sizeClass > 12 {
				sizeClass = 13
			}
			k.C.Count(fmt.Sprintf("set_size_%02d", sizeClass), 1)
			if len(in) != len(m) {
				k.C.Count("inputs_with_duplicates", 1)
			}
			if hasNaNSlice(m) {
				k.C.Count("sets_with_nan_slice", 1)
			}
			k.C.Sig(fmt.Sprintf("%d|%s|%s|%v", sizeClass, strings.Join(ts, ","), branch, len(in) != len(m)))
			if k.Index < 3 {
				k.C.Sample(map[string]any{"input": vf.CanonKVs(in), "set": vf.CanonKVs(s.ToSlice()), "filter_branch": branch})
			}
		})
		c.Floor("pairs_equal_expected", 10000)
		c.Floor("pairs_unequal_expected", 10000)
		c.Floor("set_size_10", 100)
		c.Floor("set_size_11", 100)
		c.Floor("filter_branch_first-only", 100)
		c.Floor("filter_branch_general", 1000)
	})
}

func modelSlice(m vf.AttrModel) []attribute.KeyValue {
	var out []attribute.KeyValue
	for _, k := range m.Keys() {
		out = append(out, attribute.KeyValue{Key: attribute.Key(k), Value: m[k]})
	}
	return out
}
