// C20 — configuration precedence is uniform and bad values never crash the host.
package main

import (
	"net/http"
	"net/url"

	"context"
	"fmt"
	"google.golang.org/grpc"
	"google.golang.org/grpc/credentials/insecure"
	"os"
	"reflect"
	"sort"
	"strconv"
	"strings"
	"sync"
	"sync/atomic"
	"time"

	"github.com/go-logr/logr"
	"go.opentelemetry.io/otel"
	"go.opentelemetry.io/otel/attribute"
	"go.opentelemetry.io/otel/exporters/otlp/otlplog/otlploggrpc"
	"go.opentelemetry.io/otel/exporters/otlp/otlplog/otlploghttp"
	"go.opentelemetry.io/otel/exporters/otlp/otlpmetric/otlpmetricgrpc"
	"go.opentelemetry.io/otel/exporters/otlp/otlpmetric/otlpmetrichttp"
	"go.opentelemetry.io/otel/exporters/otlp/otlptrace/otlptracegrpc"
	"go.opentelemetry.io/otel/exporters/otlp/otlptrace/otlptracehttp"
	"go.opentelemetry.io/otel/log"
	sdklog "go.opentelemetry.io/otel/sdk/log"
	"go.opentelemetry.io/otel/sdk/log/logtest"
	"go.opentelemetry.io/otel/sdk/metric/metricdata"
	"go.opentelemetry.io/otel/sdk/resource"
	sdktrace "go.opentelemetry.io/otel/sdk/trace"
	"go.opentelemetry.io/otel/sdk/trace/tracetest"
	"go.opentelemetry.io/otel/trace"

	"verifharness/otlpsrv"
	"verifharness/vf"
)

var exporterKinds = []string{"otlptracegrpc", "otlptracehttp", "otlpmetricgrpc", "otlpmetrichttp", "otlploggrpc", "otlploghttp"}

func isHTTP(kind string) bool { return strings.HasSuffix(kind, "http") }
func signalOf(kind string) string {
	switch {
	case strings.Contains(kind, "trace"):
		return "TRACES"
	case strings.Contains(kind, "metric"):
		return "METRICS"
	}
	return "LOGS"
}
func signalPath(kind string) string {
	return "/v1/" + strings.ToLower(signalOf(kind))
}

func clearEnv() {
	for _, kv := range os.Environ() {
		if strings.HasPrefix(kv, "OTEL_") {
			os.Unsetenv(strings.SplitN(kv, "=", 2)[0])
		}
	}
}

// ---------------------------------------------------------------------------------------------
// generic exporter construction from a list of "option atoms"

type optAtoms struct {
	endpoint    string // host:port
	endpointURL string
	insecure    bool
	urlPath     string
	headers     map[string]string
	gzip        *bool
	timeout     time.Duration
	noRetry     bool
	dialConn    bool // gRPC: the caller dials the connection itself and hands it over (WithGRPCConn)
	proxy       bool // HTTP: a proxy function is configured (it answers "no proxy"), which makes the client clone its transport
}

type exp struct {
	export   func(ctx context.Context) error
	shutdown func(ctx context.Context) error
}

var theRes = resource.NewSchemaless(attribute.String("service.name", "c20"))

func build(kind string, a optAtoms) (*exp, error) {
	ctx := context.Background()
	switch kind {
	case "otlptracegrpc":
		var o []otlptracegrpc.Option
		if a.dialConn {
			conn, cerr := grpc.NewClient(a.endpoint, grpc.WithTransportCredentials(insecure.NewCredentials()))
			if cerr != nil {
				return nil, cerr
			}
			o = append(o, otlptracegrpc.WithGRPCConn(conn))
		} else if a.endpoint != "" {
			o = append(o, otlptracegrpc.WithEndpoint(a.endpoint))
		}
		if a.endpointURL != "" {
			o = append(o, otlptracegrpc.WithEndpointURL(a.endpointURL))
		}
		if a.insecure {
			o = append(o, otlptracegrpc.WithInsecure())
		}
		if a.headers != nil {
			o = append(o, otlptracegrpc.WithHeaders(a.headers))
		}
		if a.gzip != nil {
			if *a.gzip {
				o = append(o, otlptracegrpc.WithCompressor("gzip"))
			}
		}
		if a.timeout > 0 {
			o = append(o, otlptracegrpc.WithTimeout(a.timeout))
		}
		if a.noRetry {
			o = append(o, otlptracegrpc.WithRetry(otlptracegrpc.RetryConfig{Enabled: false}))
		}
		e, err := otlptracegrpc.New(ctx, o...)
		if err != nil {
			return nil, err
		}
		return &exp{func(ctx context.Context) error {
			return e.ExportSpans(ctx, tracetest.SpanStubs{{Name: "s", SpanContext: trace.NewSpanContext(trace.SpanContextConfig{TraceID: trace.TraceID{1}, SpanID: trace.SpanID{2}}), Resource: theRes}}.Snapshots())
		}, e.Shutdown}, nil
	case "otlptracehttp":
		var o []otlptracehttp.Option
		if a.proxy {
			o = append(o, otlptracehttp.WithProxy(func(*http.Request) (*url.URL, error) { return nil, nil }))
		}
		if a.endpoint != "" {
			o = append(o, otlptracehttp.WithEndpoint(a.endpoint))
		}
		if a.endpointURL != "" {
			o = append(o, otlptracehttp.WithEndpointURL(a.endpointURL))
		}
		if a.insecure {
			o = append(o, otlptracehttp.WithInsecure())
		}
		if a.urlPath != "" {
			o = append(o, otlptracehttp.WithURLPath(a.urlPath))
		}
		if a.headers != nil {
			o = append(o, otlptracehttp.WithHeaders(a.headers))
		}
		if a.gzip != nil {
			if *a.gzip {
				o = append(o, otlptracehttp.WithCompression(otlptracehttp.GzipCompression))
			} else {
				o = append(o, otlptracehttp.WithCompression(otlptracehttp.NoCompression))
			}
		}
		if a.timeout > 0 {
			o = append(o, otlptracehttp.WithTimeout(a.timeout))
		}
		if a.noRetry {
			o = append(o, otlptracehttp.WithRetry(otlptracehttp.RetryConfig{Enabled: false}))
		}
		e, err := otlptracehttp.New(ctx, o...)
		if err != nil {
			return nil, err
		}
		return &exp{func(ctx context.Context) error {
			return e.ExportSpans(ctx, tracetest.SpanStubs{{Name: "s", SpanContext: trace.NewSpanContext(trace.SpanContextConfig{TraceID: trace.TraceID{1}, SpanID: trace.SpanID{2}}), Resource: theRes}}.Snapshots())
		}, e.Shutdown}, nil
	case "otlpmetricgrpc":
		var o []otlpmetricgrpc.Option
		if a.dialConn {
			conn, cerr := grpc.NewClient(a.endpoint, grpc.WithTransportCredentials(insecure.NewCredentials()))
			if cerr != nil {
				return nil, cerr
			}
			o = append(o, otlpmetricgrpc.WithGRPCConn(conn))
		} else if a.endpoint != "" {
			o = append(o, otlpmetricgrpc.WithEndpoint(a.endpoint))
		}
		if a.endpointURL != "" {
			o = append(o, otlpmetricgrpc.WithEndpointURL(a.endpointURL))
		}
		if a.insecure {
			o = append(o, otlpmetricgrpc.WithInsecure())
		}
		if a.headers != nil {
			o = append(o, otlpmetricgrpc.WithHeaders(a.headers))
		}
		if a.gzip != nil && *a.gzip {
			o = append(o, otlpmetricgrpc.WithCompressor("gzip"))
		}
		if a.timeout > 0 {
			o = append(o, otlpmetricgrpc.WithTimeout(a.timeout))
		}
		if a.noRetry {
			o = append(o, otlpmetricgrpc.WithRetry(otlpmetricgrpc.RetryConfig{Enabled: false}))
		}
		e, err := otlpmetricgrpc.New(ctx, o...)
		if err != nil {
			return nil, err
		}
		return &exp{func(ctx context.Context) error { return e.Export(ctx, metricPayload()) }, e.Shutdown}, nil
	case "otlpmetrichttp":
		var o []otlpmetrichttp.Option
		if a.proxy {
			o = append(o, otlpmetrichttp.WithProxy(func(*http.Request) (*url.URL, error) { return nil, nil }))
		}
		if a.endpoint != "" {
			o = append(o, otlpmetrichttp.WithEndpoint(a.endpoint))
		}
		if a.endpointURL != "" {
			o = append(o, otlpmetrichttp.WithEndpointURL(a.endpointURL))
		}
		if a.insecure {
			o = append(o, otlpmetrichttp.WithInsecure())
		}
		if a.urlPath != "" {
			o = append(o, otlpmetrichttp.WithURLPath(a.urlPath))
		}
		if a.headers != nil {
			o = append(o, otlpmetrichttp.WithHeaders(a.headers))
		}
		if a.gzip != nil {
			if *a.gzip {
				o = append(o, otlpmetrichttp.WithCompression(otlpmetrichttp.GzipCompression))
			} else {
				o = append(o, otlpmetrichttp.WithCompression(otlpmetrichttp.NoCompression))
			}
		}
		if a.timeout > 0 {
			o = append(o, otlpmetrichttp.WithTimeout(a.timeout))
		}
		if a.noRetry {
			o = append(o, otlpmetrichttp.WithRetry(otlpmetrichttp.RetryConfig{Enabled: false}))
		}
		e, err := otlpmetrichttp.New(ctx, o...)
		if err != nil {
			return nil, err
		}
		return &exp{func(ctx context.Context) error { return e.Export(ctx, metricPayload()) }, e.Shutdown}, nil
	case "otlploggrpc":
		var o []otlploggrpc.Option
		if a.dialConn {
			conn, cerr := grpc.NewClient(a.endpoint, grpc.WithTransportCredentials(insecure.NewCredentials()))
			if cerr != nil {
				return nil, cerr
			}
			o = append(o, otlploggrpc.WithGRPCConn(conn))
		} else if a.endpoint != "" {
			o = append(o, otlploggrpc.WithEndpoint(a.endpoint))
		}
		if a.endpointURL != "" {
			o = append(o, otlploggrpc.WithEndpointURL(a.endpointURL))
		}
		if a.insecure {
			o = append(o, otlploggrpc.WithInsecure())
		}
		if a.headers != nil {
			o = append(o, otlploggrpc.WithHeaders(a.headers))
		}
		if a.gzip != nil && *a.gzip {
			o = append(o, otlploggrpc.WithCompressor("gzip"))
		}
		if a.timeout > 0 {
			o = append(o, otlploggrpc.WithTimeout(a.timeout))
		}
		if a.noRetry {
			o = append(o, otlploggrpc.WithRetry(otlploggrpc.RetryConfig{Enabled: false}))
		}
		e, err := otlploggrpc.New(ctx, o...)
		if err != nil {
			return nil, err
		}
		return &exp{func(ctx context.Context) error { return e.Export(ctx, logPayload()) }, e.Shutdown}, nil
	default:
		var o []otlploghttp.Option
		if a.proxy {
			o = append(o, otlploghttp.WithProxy(func(*http.Request) (*url.URL, error) { return nil, nil }))
		}
		if a.endpoint != "" {
			o = append(o, otlploghttp.WithEndpoint(a.endpoint))
		}
		if a.endpointURL != "" {
			o = append(o, otlploghttp.WithEndpointURL(a.endpointURL))
		}
		if a.insecure {
			o = append(o, otlploghttp.WithInsecure())
		}
		if a.urlPath != "" {
			o = append(o, otlploghttp.WithURLPath(a.urlPath))
		}
		if a.headers != nil {
			o = append(o, otlploghttp.WithHeaders(a.headers))
		}
		if a.gzip != nil {
			if *a.gzip {
				o = append(o, otlploghttp.WithCompression(otlploghttp.GzipCompression))
			} else {
				o = append(o, otlploghttp.WithCompression(otlploghttp.NoCompression))
			}
		}
		if a.timeout > 0 {
			o = append(o, otlploghttp.WithTimeout(a.timeout))
		}
		if a.noRetry {
			o = append(o, otlploghttp.WithRetry(otlploghttp.RetryConfig{Enabled: false}))
		}
		e, err := otlploghttp.New(ctx, o...)
		if err != nil {
			return nil, err
		}
		return &exp{func(ctx context.Context) error { return e.Export(ctx, logPayload()) }, e.Shutdown}, nil
	}
}

func metricPayload() *metricdata.ResourceMetrics {
	return &metricdata.ResourceMetrics{Resource: theRes, ScopeMetrics: []metricdata.ScopeMetrics{{Metrics: []metricdata.Metrics{{Name: "m",
		Data: metricdata.Gauge[int64]{DataPoints: []metricdata.DataPoint[int64]{{Value: 7, Time: time.Unix(1_700_000_000, 0)}}}}}}}}
}

func logPayload() []sdklog.Record {
	return []sdklog.Record{logtest.RecordFactory{Body: log.StringValue("l"), Resource: theRes}.NewRecord()}
}

func newSrv(kind, name string, script otlpsrv.Script) (*otlpsrv.Server, error) {
	if isHTTP(kind) {
		return otlpsrv.NewHTTP(name, script)
	}
	return otlpsrv.NewGRPC(name, script)
}

// ---------------------------------------------------------------------------------------------
// Part A: exporter rows

type xrow struct {
	kind, setting  string
	opt, spec, gen byte // 'a' absent, 'v' valid, 'i' invalid
	invalidVariant int
	dir            byte // compression rows: 0 = specific gzip / generic none, 1 = specific none / generic gzip
	transport      byte // 0 = the exporter dials for itself; 'c' = gRPC connection supplied by the caller; 'p' = HTTP client with a proxy function
}

func (r xrow) String() string {
	d := ""
	if r.setting == "compression" {
		d = fmt.Sprintf(" direction=%d", r.dir)
	}
	if r.transport != 0 {
		d += fmt.Sprintf(" transport=%c", r.transport)
	}
	return fmt.Sprintf("%s %s option=%c specific-env=%c generic-env=%c%s", r.kind, r.setting, r.opt, r.spec, r.gen, d)
}

func exporterRows() []xrow {
	var rows []xrow
	for _, kind := range exporterKinds {
		for _, setting := range []string{"endpoint", "headers", "compression", "timeout"} {
			opts := []byte{'a', 'v'}
			if setting == "endpoint" {
				opts = []byte{'a', 'v', 'e', 'u', 'i'}
			}
			// a variable that is set to the empty string is an unset variable
			for _, sg := range [][2]byte{{'e', 'a'}, {'e', 'v'}, {'a', 'e'}, {'v', 'e'}} {
				rows = append(rows, xrow{kind: kind, setting: setting, opt: 'a', spec: sg[0], gen: sg[1]})
				if setting == "compression" {
					rows = append(rows, xrow{kind: kind, setting: setting, opt: 'a', spec: sg[0], gen: sg[1], dir: 1})
				}
			}
			for _, o := range opts {
				for _, s := range []byte{'a', 'v', 'i'} {
					for _, g := range []byte{'a', 'v', 'i'} {
						rows = append(rows, xrow{kind: kind, setting: setting, opt: o, spec: s, gen: g})
						if setting == "compression" {
							rows = append(rows, xrow{kind: kind, setting: setting, opt: o, spec: s, gen: g, dir: 1})
						}
					}
				}
			}
		}
	}
	// the same settings when the transport is not the stock one: a connection the caller dialled (gRPC), a
	// client whose transport was cloned for a proxy function (HTTP). Only connection options are overridden by
	// such a transport; headers and timeout still come from the highest-precedence source
	for _, kind := range exporterKinds {
		tr := byte('c')
		if isHTTP(kind) {
			tr = 'p'
		}
		for _, setting := range []string{"headers", "timeout"} {
			for _, osg := range [][3]byte{{'v', 'a', 'a'}, {'a', 'v', 'a'}, {'a', 'a', 'v'}, {'a', 'v', 'v'}, {'a', 'a', 'a'}} {
				rows = append(rows, xrow{kind: kind, setting: setting, opt: osg[0], spec: osg[1], gen: osg[2], transport: tr})
			}
		}
	}
	return rows
}

func winner(r xrow) string {
	switch {
	case r.opt != 'a' && r.opt != 'i':
		return "option"
	case r.spec == 'v':
		return "specific"
	case r.gen == 'v':
		return "generic"
	}
	return "default"
}

// lenient: accept the built-in default whenever some source holds an invalid value (off: an invalid value
// is exactly as if the source were absent, which is what "the highest-precedence source that provides it" says)
const lenient = false

var invalidEndpoints = []string{"http://[::1", "%zz://bad", "://nohost", "http://host:notaport"}
var invalidHeaders = []string{"novalue", "=v", "k=%zz"}
var invalidCompression = []string{"xz", "GZIP ", "1"}
var invalidTimeout = []string{"abc", "-5", "1.5", "99999999999999999999", " "}

func runExporterRow(k *vf.Case, r xrow) {
	r.invalidVariant = k.R.Intn(1 << 24)
	pathVariant := k.Index*7 + int(k.C.Seed) // every URL shape comes up in every pass, whatever the seed
	clearEnv()
	defer clearEnv()
	sig := signalOf(r.kind)
	specKey := func(s string) string { return "OTEL_EXPORTER_OTLP_" + sig + "_" + s }
	genKey := func(s string) string { return "OTEL_EXPORTER_OTLP_" + s }
	fail := func(class, key, detail string) {
		var envs []string
		for _, kv := range os.Environ() {
			if strings.HasPrefix(kv, "OTEL_") {
				envs = append(envs, kv)
			}
		}
		k.Violate(class, r.kind+" "+key, fmt.Sprintf("%s\nenv: %s\n%s", r, strings.Join(envs, " "), detail), nil)
	}
	exportOnce := func(e *exp, d time.Duration) (error, bool) {
		ctx, cancel := context.WithTimeout(context.Background(), d)
		defer cancel()
		var err error
		finished, _, _ := vf.Watch(d+20*time.Second, time.Second, func() { err = e.export(ctx) })
		return err, finished
	}
	want := winner(r)
	applyEmpty := func(name string) {
		if r.spec == 'e' {
			os.Setenv(specKey(name), "")
		}
		if r.gen == 'e' {
			os.Setenv(genKey(name), "")
		}
	}
	a := optAtoms{noRetry: true}
	switch r.setting {
	case "endpoint":
		sOpt, e1 := newSrv(r.kind, "option", nil)
		sSpec, e2 := newSrv(r.kind, "specific", nil)
		sGen, e3 := newSrv(r.kind, "generic", nil)
		if e1 != nil || e2 != nil || e3 != nil {
			k.C.Inconclusive("cannot start collectors")
			return
		}
		defer sOpt.Close()
		defer sSpec.Close()
		defer sGen.Close()
		a.timeout = 500 * time.Millisecond
		http := isHTTP(r.kind)
		specPath, genBase := "", ""
		wantSpecPath, wantGenPath := "/spec/path", "/gen/base"+signalPath(r.kind)
		if http { // a gRPC target has no URL path
			specPath, genBase = "/spec/path", "/gen/base"
			switch pathVariant % 3 {
			case 1: // no path part: the root path is used
				specPath, wantSpecPath = "", "/"
			case 2:
				specPath, wantSpecPath = "/spec/path/", "/spec/path/"
			}
			switch (pathVariant / 3) % 6 {
			case 4: // a base path that itself ends in the signal path: the signal path is appended all the same
				genBase, wantGenPath = signalPath(r.kind), signalPath(r.kind)+signalPath(r.kind)
			case 5:
				genBase, wantGenPath = "/tenant-a"+signalPath(r.kind)+"/", "/tenant-a"+signalPath(r.kind)+signalPath(r.kind)
			case 1:
				genBase = "/gen/base/"
			case 2:
				genBase, wantGenPath = "", signalPath(r.kind)
			case 3:
				genBase, wantGenPath = "/", signalPath(r.kind)
			}
		}
		switch r.opt {
		case 'v': // host:port and, for HTTP, the URL path
			a.endpoint, a.insecure = sOpt.Addr, true
			if http {
				a.urlPath = "/opt/path"
			}
		case 'e': // host:port only: the URL path is a separate setting and comes from the next source
			a.endpoint, a.insecure = sOpt.Addr, true
		case 'i': // a URL that does not parse: ignored
			a.endpointURL = invalidEndpoints[(r.invalidVariant/9)%len(invalidEndpoints)]
		case 'u': // a complete URL
			a.endpointURL = "http://" + sOpt.Addr
			if http {
				a.endpointURL += "/opt/url"
			}
		}
		switch r.spec {
		case 'v':
			os.Setenv(specKey("ENDPOINT"), "http://"+sSpec.Addr+specPath)
		case 'i':
			os.Setenv(specKey("ENDPOINT"), invalidEndpoints[r.invalidVariant%len(invalidEndpoints)])
		}
		switch r.gen {
		case 'v':
			os.Setenv(genKey("ENDPOINT"), "http://"+sGen.Addr+genBase)
		case 'i':
			os.Setenv(genKey("ENDPOINT"), invalidEndpoints[(r.invalidVariant/3)%len(invalidEndpoints)])
		}
		applyEmpty("ENDPOINT")
		e, err := build(r.kind, a)
		if err != nil {
			fail("exporter-constructor-error", r.setting, err.Error())
			return
		}
		exportOnce(e, 2*time.Second)
		e.shutdown(context.Background())
		got := "nobody"
		var gotReq *otlpsrv.Request
		n := 0
		for name, s := range map[string]*otlpsrv.Server{"option": sOpt, "specific": sSpec, "generic": sGen} {
			if rs := s.Requests(); len(rs) > 0 {
				got, gotReq = name, rs[0]
				n++
			}
		}
		if n > 1 {
			fail("request-sent-to-several-endpoints", r.setting, "")
		}
		wantGot := want
		if want == "default" {
			wantGot = "nobody" // the default endpoint (localhost:4317/4318) is not one of ours
		}
		accept := map[string]bool{wantGot: true}
		if lenient && want != "option" && (r.spec == 'i' || r.gen == 'i' || r.opt == 'i') {
			accept["nobody"] = true // an invalid value may also fall back to the default
		}
		if !accept[got] {
			fail("setting-from-wrong-source", r.setting, fmt.Sprintf("request received by %q, expected the %q source (highest-precedence source with a valid value)", got, want))
		} else if gotReq != nil && http {
			envPath := func() map[string]bool {
				m := map[string]bool{}
				switch {
				case r.spec == 'v':
					m[wantSpecPath] = true
				case r.gen == 'v':
					m[wantGenPath] = true
				default:
					m[signalPath(r.kind)] = true
				}
				if lenient && (r.spec == 'i' || r.gen == 'i') {
					m[signalPath(r.kind)] = true
				}
				return m
			}
			var okPaths map[string]bool
			switch {
			case got != "option":
				okPaths = map[string]bool{map[string]string{"specific": wantSpecPath, "generic": wantGenPath}[got]: true}
			case r.opt == 'v':
				okPaths = map[string]bool{"/opt/path": true}
			case r.opt == 'u':
				okPaths = map[string]bool{"/opt/url": true}
			default:
				okPaths = envPath()
			}
			if !okPaths[gotReq.Path] {
				var exp []string
				for p := range okPaths {
					exp = append(exp, p)
				}
				sort.Strings(exp)
				fail("url-path", fmt.Sprintf("source=%s expected=%s sent=%s", got, strings.Join(exp, "|"), gotReq.Path), fmt.Sprintf("source %s: request path %q, expected one of %v", got, gotReq.Path, exp))
			}
		}
	case "headers", "compression":
		srv, err := newSrv(r.kind, "s", nil)
		if err != nil {
			k.C.Inconclusive("cannot start collector")
			return
		}
		defer srv.Close()
		a.endpoint, a.insecure, a.timeout = srv.Addr, true, 2*time.Second
		a.dialConn, a.proxy = r.transport == 'c', r.transport == 'p'
		valSpec, valGen := "", ""
		expected := map[string]string{}
		if r.setting == "headers" {
			if r.opt == 'v' {
				a.headers = map[string]string{"src": "option", "only-opt": "1"}
			}
			// spellings of a valid list: OWS, order, percent escapes, and values that themselves contain '=' (base64 padding)
			valSpec = []string{"src=specific,only-spec=1", " src = specific ,only-spec=1", "only-spec=1,src=sp%65cific", "auth=Basic%20dXNlcjpwYXNz==,src=specific,only-spec=1"}[(k.Index+int(k.C.Seed))%4]
			valGen = []string{"src=generic,only-gen=1", "only-gen=1, src=generic", "src=gen%65ric,only-gen=1", "src=generic,only-gen=1,tok=a=b"}[(k.Index/4+int(k.C.Seed))%4]
			if r.spec == 'i' {
				valSpec = invalidHeaders[r.invalidVariant%len(invalidHeaders)]
			}
			if r.gen == 'i' {
				valGen = invalidHeaders[(r.invalidVariant/3)%len(invalidHeaders)]
			}
			expected = map[string]string{"option": "option", "specific": "specific", "generic": "generic", "default": ""}
			if r.spec != 'a' {
				os.Setenv(specKey("HEADERS"), valSpec)
			}
			if r.gen != 'a' {
				os.Setenv(genKey("HEADERS"), valGen)
			}
		} else {
			// both directions are enumerated so that every pair of adjacent precedence levels disagrees in some row
			t, f := true, false
			valSpec, valGen = "gzip", "none"
			optWant := "gzip"
			if r.dir == 1 {
				valSpec, valGen = "none", "gzip"
			}
			if r.opt == 'v' {
				a.gzip = &t
				if r.dir == 1 && isHTTP(r.kind) {
					a.gzip, optWant = &f, "" // an explicit "no compression" option over gzip in the environment
				}
			}
			if r.spec == 'i' {
				valSpec = invalidCompression[r.invalidVariant%len(invalidCompression)]
			}
			if r.gen == 'i' {
				valGen = invalidCompression[(r.invalidVariant/3)%len(invalidCompression)]
			}
			comp := func(v string) string {
				if v == "gzip" {
					return "gzip"
				}
				return ""
			}
			expected = map[string]string{"option": optWant, "specific": comp(valSpec), "generic": comp(valGen), "default": ""}
			if r.spec != 'a' {
				os.Setenv(specKey("COMPRESSION"), valSpec)
			}
			if r.gen != 'a' {
				os.Setenv(genKey("COMPRESSION"), valGen)
			}
		}
		applyEmpty(map[string]string{"headers": "HEADERS", "compression": "COMPRESSION"}[r.setting])
		e, err := build(r.kind, a)
		if err != nil {
			fail("exporter-constructor-error", r.setting, err.Error())
			return
		}
		if err, _ := exportOnce(e, 5*time.Second); err != nil && !(r.setting == "compression" && (r.spec == 'i' || r.gen == 'i')) {
			fail("export-error", r.setting, err.Error())
		}
		e.shutdown(context.Background())
		rs := srv.Requests()
		if len(rs) == 0 {
			if r.setting == "compression" && (r.spec == 'i' || r.gen == 'i') {
				k.C.Count("exporter_rows_invalid_value_blocked_export", 1)
				k.C.Count("exporter_rows", 1)
				return
			}
			fail("no-request", r.setting, "")
			return
		}
		got := ""
		if r.setting == "headers" {
			if v := rs[0].Header["Src"]; len(v) > 0 {
				got = v[0]
			}
			if v := rs[0].Header["src"]; len(v) > 0 {
				got = v[0]
			}
		} else {
			got = rs[0].Compression
			if got == "identity" {
				got = ""
			}
		}
		if r.setting == "headers" {
			// the header list as a whole comes from one source: a key that only a lower-precedence source
			// carries must not be sent along
			hv := func(name string) bool {
				for hk := range rs[0].Header {
					if strings.EqualFold(hk, name) {
						return true
					}
				}
				return false
			}
			marker := map[string]string{"option": "only-opt", "specific": "only-spec", "generic": "only-gen"}
			for src, mk := range marker {
				if hv(mk) && src != got && got != "" {
					fail("headers-merged-across-sources", r.setting, fmt.Sprintf("the request carries %q (from the %s source) next to src=%q", mk, src, got))
				}
			}
		}
		accept := map[string]bool{expected[want]: true}
		// an all-invalid header list is an empty list and an unknown compression name is "none" for the trace and
		// metric exporters (entries are skipped one by one): both coincide with the default, which is accepted here
		if r.spec == 'i' || r.gen == 'i' {
			accept[expected["default"]] = true
		}
		if !accept[got] {
			fail("setting-from-wrong-source", r.setting, fmt.Sprintf("observed %q, expected %q from the %q source", got, expected[want], want))
		}
	case "timeout":
		// Each source carries a distinct timeout, growing as precedence falls, so that taking the value
		// from a lower-precedence source always shows as a LONGER timeout. gRPC: the handler reads the
		// deadline the client sent (load can only shorten it). HTTP: the collector holds the request and
		// the time the client keeps it open is measured (load can only lengthen it). The side load cannot
		// move is decided at once; the other side only after four attempts agree.
		http := isHTTP(r.kind)
		vals := map[string]time.Duration{"option": 300 * time.Millisecond, "specific": 1200 * time.Millisecond, "generic": 3600 * time.Millisecond, "default": 10 * time.Second}
		order := []string{"option", "specific", "generic", "default"}
		const holdMax = 4600 * time.Millisecond
		accept := map[string]bool{want: true}
		if lenient && (r.spec == 'i' || r.gen == 'i') {
			accept["default"] = true
		}
		// a negative number of milliseconds parses; taken literally it means "no timeout at all", which the
		// property (no crash, no hang of the constructor) does not exclude: the caller's context still bounds the call
		negSpec := r.spec == 'i' && invalidTimeout[r.invalidVariant%len(invalidTimeout)] == "-5"
		negGen := r.gen == 'i' && invalidTimeout[(r.invalidVariant/3)%len(invalidTimeout)] == "-5"
		negative := r.opt != 'v' && (negSpec || (r.spec != 'v' && negGen))
		if negative && http {
			accept["default"] = true // a held request cannot tell "10 s" from "never": both outlast the hold
		}
		var lastObserved time.Duration
		verdict := ""
		for attempt := 0; attempt < 4; attempt++ {
			clearEnv()
			srv, err := newSrv(r.kind, "s", func(*otlpsrv.Request) otlpsrv.Response {
				if !http {
					return otlpsrv.Response{}
				}
				return otlpsrv.Response{HoldUntilClientGone: true, HoldMax: holdMax}
			})
			if err != nil {
				k.C.Inconclusive("cannot start collector")
				return
			}
			a := optAtoms{noRetry: true, endpoint: srv.Addr, insecure: true, dialConn: r.transport == 'c', proxy: r.transport == 'p'}
			if r.opt == 'v' {
				a.timeout = vals["option"]
			}
			switch r.spec {
			case 'v':
				os.Setenv(specKey("TIMEOUT"), "1200")
			case 'i':
				os.Setenv(specKey("TIMEOUT"), invalidTimeout[r.invalidVariant%len(invalidTimeout)])
			}
			switch r.gen {
			case 'v':
				os.Setenv(genKey("TIMEOUT"), "3600")
			case 'i':
				os.Setenv(genKey("TIMEOUT"), invalidTimeout[(r.invalidVariant/3)%len(invalidTimeout)])
			}
			applyEmpty("TIMEOUT")
			e, err := build(r.kind, a)
			if err != nil {
				srv.Close()
				fail("exporter-constructor-error", r.setting, err.Error())
				return
			}
			start := time.Now()
			_, finished := exportOnce(e, 15*time.Second)
			took := time.Since(start)
			e.shutdown(context.Background())
			rs := srv.Requests()
			srv.Close()
			if !finished {
				fail("export-did-not-return", r.setting, "")
				return
			}
			if len(rs) == 0 {
				fail("no-request", r.setting, "")
				return
			}
			if !http && !rs[0].HasDeadline {
				fail("no-deadline-sent", r.setting, "the gRPC request carries no deadline")
				return
			}
			// which sources is the observation consistent with?
			consistent := map[string]bool{}
			if http {
				lastObserved = took
				for i, name := range order {
					lo := vals[name]
					if name == "default" {
						lo = holdMax
					}
					_ = i
					if took >= lo-30*time.Millisecond {
						consistent[name] = true // the client waited at least this long
					}
				}
				// the longest consistent candidate is what an unloaded run shows; shorter ones need load
				best := ""
				for _, name := range order {
					if consistent[name] {
						best = name
					}
				}
				if best == "" {
					fail("timeout-shorter-than-any-source", r.setting, took.String())
					return
				}
				okNow := accept[best]
				early := true // gave up before every accepted candidate: load cannot explain it
				for name := range accept {
					if consistent[name] {
						early = false
					}
				}
				if early {
					fail("setting-from-wrong-source", r.setting, fmt.Sprintf("the client gave up after %v, earlier than the expected %q source's timeout (%v)", took.Round(time.Millisecond), want, vals[want]))
					return
				}
				if okNow {
					verdict = "ok"
				}
			} else {
				d := rs[0].Deadline
				lastObserved = d
				// smallest candidate the deadline does not exceed
				best := ""
				for i := len(order) - 1; i >= 0; i-- {
					if d <= vals[order[i]]+5*time.Millisecond {
						best = order[i]
					}
				}
				if best == "" && negative && want != "option" {
					k.C.Count("timeout_rows_negative_value_means_no_timeout", 1)
					verdict = "ok"
					break
				}
				if best == "" {
					fail("setting-from-wrong-source", r.setting, fmt.Sprintf("deadline %v exceeds every candidate", d))
					return
				}
				late := true // longer than every accepted candidate: load cannot explain it
				for name := range accept {
					if d <= vals[name]+5*time.Millisecond {
						late = false
					}
				}
				if late {
					fail("setting-from-wrong-source", r.setting, fmt.Sprintf("the request carried a deadline of %v (the %q source's value or longer), expected the %q source (%v)", d.Round(time.Millisecond), best, want, vals[want]))
					return
				}
				if accept[best] {
					verdict = "ok"
				}
			}
			if verdict == "ok" {
				break
			}
			k.C.Count("timeout_attempts_repeated", 1)
		}
		if verdict != "ok" {
			if http {
				// four attempts in a row kept the request open at least as long as the next candidate
				fail("setting-from-wrong-source", r.setting, fmt.Sprintf("the client kept the held request open for %v in each of 4 attempts, expected the %q source's timeout (%v)", lastObserved.Round(time.Millisecond), want, vals[want]))
			} else {
				k.C.Count("timeout_rows_ambiguous", 1)
				return
			}
		}
	}
	k.C.Count("exporter_rows", 1)
	k.C.Count("exporter_rows_"+r.setting, 1)
	k.C.Sig(fmt.Sprintf("%s i=%d p=%d", r, r.invalidVariant%60, pathVariant%12))
	if k.C.NeedSample() && k.Index%50 == 7 {
		k.C.Sample(map[string]any{"row": r.String(), "expected_source": want})
	}
}

// ---------------------------------------------------------------------------------------------
// Part B: SDK components

type srow struct {
	comp, key string
	env       string // "" = absent
	envValid  bool
	option    bool
	optBad    bool   // the option is given with a negative value
	env2      string // span limits: value of the generic OTEL_ATTRIBUTE_* variable set next to the span-specific one ("" = absent)
}

func (r srow) String() string {
	g := ""
	if r.env2 != "" {
		g = fmt.Sprintf(" generic-env=%q", r.env2)
	}
	return fmt.Sprintf("%s %s env=%q%s option=%v option-negative=%v", r.comp, r.key, r.env, g, r.option, r.optBad)
}

var badInts = []string{"abc", "1.5", "-1", "-2147483649", "99999999999999999999", "0x10", " 5 ", "0"}

func sdkRows() []srow {
	var rows []srow
	add := func(comp, key string, valid string) {
		for _, opt := range []bool{false, true} {
			rows = append(rows, srow{comp, key, "", false, opt, false, ""})
			rows = append(rows, srow{comp, key, valid, true, opt, false, ""})
			for _, b := range badInts {
				rows = append(rows, srow{comp, key, b, false, opt, false, ""})
			}
		}
		if comp == "spanlimits" && strings.Contains(key, "_COUNT_LIMIT") && !strings.Contains(key, "EVENT_ATTRIBUTE") && !strings.Contains(key, "LINK_ATTRIBUTE") {
			// the raw limits option with every field zero ("retain nothing"): still an option, it beats the variables
			rows = append(rows, srow{comp, key, "", false, true, true, ""})
			rows = append(rows, srow{comp, key, valid, true, true, true, ""})
		}
		if comp == "spanlimits" || comp == "loglimits" {
			// the largest int64: a limit that is never reached (and must not be used to size anything)
			rows = append(rows, srow{comp, key, "9223372036854775807", false, false, false, ""})
		}
		if comp == "loglimits" {
			// only the OTHER limit is given as an option: this one still comes from its variable
			rows = append(rows, srow{comp, key, valid, true, false, true, ""})
			rows = append(rows, srow{comp, key, "", false, false, true, ""})
		}
		if comp == "bsp" || comp == "blrp" {
			rows = append(rows, srow{comp, key, "", false, false, true, ""})
			rows = append(rows, srow{comp, key, valid, true, false, true, ""})
			rows = append(rows, srow{comp, key, "-1", false, false, true, ""})
			rows = append(rows, srow{comp, key, "abc", false, false, true, ""})
		}
	}
	for _, key := range []string{"OTEL_BSP_MAX_QUEUE_SIZE", "OTEL_BSP_MAX_EXPORT_BATCH_SIZE", "OTEL_BSP_SCHEDULE_DELAY", "OTEL_BSP_EXPORT_TIMEOUT"} {
		add("bsp", key, "7")
	}
	for _, key := range []string{"OTEL_BLRP_MAX_QUEUE_SIZE", "OTEL_BLRP_MAX_EXPORT_BATCH_SIZE", "OTEL_BLRP_SCHEDULE_DELAY", "OTEL_BLRP_EXPORT_TIMEOUT"} {
		add("blrp", key, "7")
	}
	for _, key := range []string{"OTEL_SPAN_ATTRIBUTE_COUNT_LIMIT", "OTEL_ATTRIBUTE_COUNT_LIMIT", "OTEL_SPAN_EVENT_COUNT_LIMIT", "OTEL_SPAN_LINK_COUNT_LIMIT", "OTEL_EVENT_ATTRIBUTE_COUNT_LIMIT", "OTEL_LINK_ATTRIBUTE_COUNT_LIMIT",
		"OTEL_SPAN_ATTRIBUTE_VALUE_LENGTH_LIMIT", "OTEL_ATTRIBUTE_VALUE_LENGTH_LIMIT"} {
		add("spanlimits", key, "7")
	}
	// both size options together, in both orders: options are taken as given, whatever the order
	for _, order := range []string{"batch-first", "queue-first"} {
		for _, env := range []string{"", "64", "100000"} {
			for _, sizes := range []string{"256/1024", "4096/8192", "7/7"} {
				rows = append(rows, srow{comp: "bsporder", key: order + " " + sizes, env: env})
			}
		}
	}
	// the span-specific variable next to the generic one (documented: the span-specific one wins when set)
	for _, key := range []string{"OTEL_SPAN_ATTRIBUTE_COUNT_LIMIT", "OTEL_SPAN_ATTRIBUTE_VALUE_LENGTH_LIMIT"} {
		dflt := "128"
		if strings.Contains(key, "VALUE_LENGTH") {
			dflt = "-1"
		}
		for _, spec := range []string{"", "7", dflt, "abc", "0"} {
			for _, gen := range []string{"2", "abc", "-1", "5"} {
				for _, opt := range []bool{false, true} {
					rows = append(rows, srow{comp: "spanlimits", key: key, env: spec, envValid: spec == "7", option: opt, env2: gen})
				}
			}
		}
	}
	for _, key := range []string{"OTEL_LOGRECORD_ATTRIBUTE_COUNT_LIMIT", "OTEL_LOGRECORD_ATTRIBUTE_VALUE_LENGTH_LIMIT"} {
		add("loglimits", key, "7")
	}
	for _, s := range []string{"always_on", "always_off", "traceidratio", "parentbased_always_on", "parentbased_always_off", "parentbased_traceidratio", "bogus", "", " ALWAYS_OFF "} {
		for _, arg := range []string{"", "0.25", "abc", "-1", "2", "1e-400", " 0.25 "} {
			for _, opt := range []bool{false, true} {
				rows = append(rows, srow{"sampler", s, arg, true, opt, false, ""})
			}
		}
	}
	return rows
}

type recSpanExp struct {
	mu          sync.Mutex
	maxBatch    int
	hasDeadline bool
	deadline    time.Duration
	spans       int
}

func (e *recSpanExp) ExportSpans(ctx context.Context, ss []sdktrace.ReadOnlySpan) error {
	e.mu.Lock()
	defer e.mu.Unlock()
	if len(ss) > e.maxBatch {
		e.maxBatch = len(ss)
	}
	e.spans += len(ss)
	if dl, ok := ctx.Deadline(); ok {
		e.deadline, e.hasDeadline = time.Until(dl), true // under load the remaining time may already be negative
	} else {
		e.hasDeadline = false
	}
	return nil
}
func (e *recSpanExp) Shutdown(context.Context) error { return nil }

type recLogExp struct {
	mu          sync.Mutex
	maxBatch    int
	hasDeadline bool
	deadline    time.Duration
	records     int
}

func (e *recLogExp) Export(ctx context.Context, rs []sdklog.Record) error {
	e.mu.Lock()
	defer e.mu.Unlock()
	if len(rs) > e.maxBatch {
		e.maxBatch = len(rs)
	}
	e.records += len(rs)
	if dl, ok := ctx.Deadline(); ok {
		e.deadline, e.hasDeadline = time.Until(dl), true // under load the remaining time may already be negative
	} else {
		e.hasDeadline = false
	}
	return nil
}
func (e *recLogExp) Shutdown(context.Context) error   { return nil }
func (e *recLogExp) ForceFlush(context.Context) error { return nil }

type capLog struct {
	rec *sdklog.Record
}

func (c *capLog) OnEmit(_ context.Context, r *sdklog.Record) error {
	cl := r.Clone()
	c.rec = &cl
	return nil
}
func (c *capLog) Shutdown(context.Context) error   { return nil }
func (c *capLog) ForceFlush(context.Context) error { return nil }

func marshalConfig(sp sdktrace.SpanProcessor) (sdktrace.BatchSpanProcessorOptions, bool) {
	ml, ok := sp.(interface{ MarshalLog() interface{} })
	if !ok {
		return sdktrace.BatchSpanProcessorOptions{}, false
	}
	v := reflect.ValueOf(ml.MarshalLog())
	f := v.FieldByName("Config")
	if !f.IsValid() {
		return sdktrace.BatchSpanProcessorOptions{}, false
	}
	o, ok := f.Interface().(sdktrace.BatchSpanProcessorOptions)
	return o, ok
}

func runSDKRow(k *vf.Case, r srow) {
	clearEnv()
	defer clearEnv()
	fail := func(class, key, detail string) { k.Violate(class, r.comp+" "+key, r.String()+"\n"+detail, nil) }
	ctx := context.Background()
	switch r.comp {
	case "bsp":
		if r.env != "" {
			os.Setenv(r.key, r.env)
		}
		var opts []sdktrace.BatchSpanProcessorOption
		if r.option {
			switch r.key {
			case "OTEL_BSP_MAX_QUEUE_SIZE":
				opts = append(opts, sdktrace.WithMaxQueueSize(33))
			case "OTEL_BSP_MAX_EXPORT_BATCH_SIZE":
				opts = append(opts, sdktrace.WithMaxExportBatchSize(5))
			case "OTEL_BSP_SCHEDULE_DELAY":
				opts = append(opts, sdktrace.WithBatchTimeout(33*time.Millisecond))
			default:
				opts = append(opts, sdktrace.WithExportTimeout(33*time.Millisecond))
			}
		}
		if r.optBad {
			neg := vf.Pick(k.R, []int{-1, -7, -1 << 31, -1 << 62})
			switch r.key {
			case "OTEL_BSP_MAX_QUEUE_SIZE":
				opts = append(opts, sdktrace.WithMaxQueueSize(neg))
			case "OTEL_BSP_MAX_EXPORT_BATCH_SIZE":
				opts = append(opts, sdktrace.WithMaxExportBatchSize(neg))
			case "OTEL_BSP_SCHEDULE_DELAY":
				opts = append(opts, sdktrace.WithBatchTimeout(time.Duration(neg)))
			default:
				opts = append(opts, sdktrace.WithExportTimeout(time.Duration(neg)))
			}
		}
		e := &recSpanExp{}
		var bsp sdktrace.SpanProcessor
		if !k.Guard("panic", "NewBatchSpanProcessor "+r.key, func() { bsp = sdktrace.NewBatchSpanProcessor(e, opts...) }) {
			return
		}
		cfg, ok := marshalConfig(bsp)
		if !ok {
			fail("cannot-observe", "MarshalLog", "")
			return
		}
		envInt := 0
		fmt.Sscan(r.env, &envInt)
		type pair struct{ def, opt, got int64 }
		var p pair
		switch r.key {
		case "OTEL_BSP_MAX_QUEUE_SIZE":
			p = pair{2048, 33, int64(cfg.MaxQueueSize)}
		case "OTEL_BSP_MAX_EXPORT_BATCH_SIZE":
			p = pair{512, 5, int64(cfg.MaxExportBatchSize)}
		case "OTEL_BSP_SCHEDULE_DELAY":
			p = pair{5000, 33, cfg.BatchTimeout.Milliseconds()}
		default:
			p = pair{30000, 33, cfg.ExportTimeout.Milliseconds()}
		}
		want := p.def
		if r.envValid {
			want = int64(envInt)
		}
		if r.option {
			want = p.opt
		}
		accept := map[int64]bool{want: true}
		if !r.envValid && r.env != "" && !r.option {
			accept[p.def] = true
			// "0" and negative numbers parse as integers: documented meaning or default are both accepted
			var iv int64
			if _, err := fmt.Sscan(strings.TrimSpace(r.env), &iv); err == nil && r.env == strings.TrimSpace(r.env) && iv >= 0 {
				accept[iv] = true
			}
		}
		if !accept[p.got] {
			fail("effective-value", r.key, fmt.Sprintf("effective value %d, expected %d (option > environment > default %d)", p.got, want, p.def))
		}
		if p.got < 0 && (strings.Contains(r.key, "SIZE")) {
			fail("negative-size-in-effect", r.key, fmt.Sprint(p.got))
		}
		// behavioural confirmation: batches never exceed the effective size; the exporter sees the timeout
		tp := sdktrace.NewTracerProvider(sdktrace.WithSpanProcessor(bsp), sdktrace.WithSampler(sdktrace.AlwaysSample()))
		tr := tp.Tracer("x")
		nsp := 30
		ok2 := k.Guard("panic", "using the processor "+r.key, func() {
			for i := 0; i < nsp; i++ {
				_, s := tr.Start(ctx, "s")
				s.End()
			}
			fctx, cancel := context.WithTimeout(ctx, 5*time.Second)
			tp.ForceFlush(fctx)
			cancel()
			sctx, cancel2 := context.WithTimeout(ctx, 5*time.Second)
			tp.Shutdown(sctx)
			cancel2()
		})
		if !ok2 {
			return
		}
		e.mu.Lock()
		if cfg.MaxExportBatchSize > 0 && e.maxBatch > cfg.MaxExportBatchSize {
			fail("batch-exceeds-effective-size", r.key, fmt.Sprintf("%d > %d", e.maxBatch, cfg.MaxExportBatchSize))
		}
		if cfg.ExportTimeout > 0 && e.spans > 0 && (!e.hasDeadline || e.deadline > cfg.ExportTimeout) {
			fail("export-deadline-differs", r.key, fmt.Sprintf("exporter saw %v, effective export timeout %v", e.deadline, cfg.ExportTimeout))
		}
		e.mu.Unlock()
	case "bsporder":
		if r.env != "" {
			os.Setenv("OTEL_BSP_MAX_QUEUE_SIZE", r.env)
		}
		var order string
		var batch, queue int
		fmt.Sscanf(r.key, "%s %d/%d", &order, &batch, &queue)
		opts := []sdktrace.BatchSpanProcessorOption{sdktrace.WithMaxExportBatchSize(batch), sdktrace.WithMaxQueueSize(queue)}
		if order == "queue-first" {
			opts[0], opts[1] = opts[1], opts[0]
		}
		var bsp sdktrace.SpanProcessor
		if !k.Guard("panic", "NewBatchSpanProcessor "+r.key, func() { bsp = sdktrace.NewBatchSpanProcessor(&recSpanExp{}, opts...) }) {
			return
		}
		cfg, ok := marshalConfig(bsp)
		if !ok {
			fail("cannot-observe", "MarshalLog", "")
			return
		}
		if cfg.MaxExportBatchSize != batch || cfg.MaxQueueSize != queue {
			fail("effective-value", "bsp size options "+order, fmt.Sprintf("WithMaxExportBatchSize(%d) and WithMaxQueueSize(%d) given (%s), OTEL_BSP_MAX_QUEUE_SIZE=%q: effective batch %d queue %d", batch, queue, order, r.env, cfg.MaxExportBatchSize, cfg.MaxQueueSize))
		}
		bsp.Shutdown(ctx)
	case "blrp":
		if r.env != "" {
			os.Setenv(r.key, r.env)
		}
		var opts []sdklog.BatchProcessorOption
		if r.option {
			switch r.key {
			case "OTEL_BLRP_MAX_QUEUE_SIZE":
				opts = append(opts, sdklog.WithMaxQueueSize(33))
			case "OTEL_BLRP_MAX_EXPORT_BATCH_SIZE":
				opts = append(opts, sdklog.WithExportMaxBatchSize(5))
			case "OTEL_BLRP_SCHEDULE_DELAY":
				opts = append(opts, sdklog.WithExportInterval(33*time.Millisecond))
			default:
				opts = append(opts, sdklog.WithExportTimeout(33*time.Millisecond))
			}
		}
		if r.optBad {
			neg := vf.Pick(k.R, []int{-1, -7, -1 << 31, -1 << 62, 0})
			switch r.key {
			case "OTEL_BLRP_MAX_QUEUE_SIZE":
				opts = append(opts, sdklog.WithMaxQueueSize(neg))
			case "OTEL_BLRP_MAX_EXPORT_BATCH_SIZE":
				opts = append(opts, sdklog.WithExportMaxBatchSize(neg))
			case "OTEL_BLRP_SCHEDULE_DELAY":
				opts = append(opts, sdklog.WithExportInterval(time.Duration(neg)))
			default:
				opts = append(opts, sdklog.WithExportTimeout(time.Duration(neg)))
			}
		}
		e := &recLogExp{}
		var bp *sdklog.BatchProcessor
		if !k.Guard("panic", "NewBatchProcessor "+r.key, func() { bp = sdklog.NewBatchProcessor(e, opts...) }) {
			return
		}
		lp := sdklog.NewLoggerProvider(sdklog.WithProcessor(bp))
		lg := lp.Logger("x")
		ok2 := k.Guard("panic", "using the processor "+r.key, func() {
			for i := 0; i < 40; i++ {
				var rc log.Record
				rc.SetBody(log.IntValue(i))
				lg.Emit(ctx, rc)
			}
			fctx, cancel := context.WithTimeout(ctx, 5*time.Second)
			lp.ForceFlush(fctx)
			cancel()
			sctx, cancel2 := context.WithTimeout(ctx, 5*time.Second)
			lp.Shutdown(sctx)
			cancel2()
		})
		if !ok2 {
			return
		}
		envInt := 0
		fmt.Sscan(r.env, &envInt)
		e.mu.Lock()
		switch r.key {
		case "OTEL_BLRP_MAX_EXPORT_BATCH_SIZE":
			want := 512
			if r.envValid {
				want = envInt
			}
			if r.option {
				want = 5
			}
			// 40 records were emitted: a batch bound below 40 is visible exactly
			if want < 40 && e.maxBatch != want && !(r.env != "" && !r.envValid && !r.option) {
				fail("effective-value", r.key, fmt.Sprintf("largest export %d records, expected batch size %d", e.maxBatch, want))
			}
			if e.maxBatch > 40 {
				fail("effective-value", r.key, "impossible batch")
			}
		case "OTEL_BLRP_EXPORT_TIMEOUT":
			want := 30 * time.Second
			if r.envValid {
				want = time.Duration(envInt) * time.Millisecond
			}
			if r.option {
				want = 33 * time.Millisecond
			}
			if e.records > 0 && (!e.hasDeadline || e.deadline > want) && !(r.env != "" && !r.envValid && !r.option) {
				fail("export-deadline-differs", r.key, fmt.Sprintf("exporter saw %v, expected export timeout %v", e.deadline, want))
			}
		}
		if e.records != 40 && r.key != "OTEL_BLRP_MAX_QUEUE_SIZE" {
			fail("records-lost", r.key, fmt.Sprintf("%d of 40 exported", e.records))
		}
		e.mu.Unlock()
	case "spanlimits":
		if r.env != "" {
			os.Setenv(r.key, r.env)
		}
		if r.env2 != "" {
			os.Setenv(strings.Replace(r.key, "OTEL_SPAN_", "OTEL_", 1), r.env2)
		}
		var popts []sdktrace.TracerProviderOption
		rec := &probeProc{}
		popts = append(popts, sdktrace.WithSpanProcessor(rec), sdktrace.WithSampler(sdktrace.AlwaysSample()))
		if r.option && r.optBad {
			popts = append(popts, sdktrace.WithRawSpanLimits(sdktrace.SpanLimits{}))
		} else if r.option {
			popts = append(popts, sdktrace.WithRawSpanLimits(sdktrace.SpanLimits{AttributeValueLengthLimit: 3, AttributeCountLimit: 3, EventCountLimit: 3, LinkCountLimit: 3, AttributePerEventCountLimit: 3, AttributePerLinkCountLimit: 3}))
		}
		var tp *sdktrace.TracerProvider
		if !k.Guard("panic", "NewTracerProvider "+r.key, func() { tp = sdktrace.NewTracerProvider(popts...) }) {
			return
		}
		ok2 := k.Guard("panic", "probe span "+r.key, func() {
			_, s := tp.Tracer("x").Start(ctx, "probe")
			var many []attribute.KeyValue
			for i := 0; i < 200; i++ {
				many = append(many, attribute.String(fmt.Sprintf("k%d", i), "0123456789"))
			}
			s.SetAttributes(many...)
			for i := 0; i < 200; i++ {
				s.AddEvent("e", trace.WithAttributes(many...))
				s.AddLink(trace.Link{SpanContext: trace.NewSpanContext(trace.SpanContextConfig{TraceID: trace.TraceID{1}, SpanID: trace.SpanID{byte(i + 1)}}), Attributes: many})
			}
			s.End()
		})
		if !ok2 || rec.span == nil {
			return
		}
		sp := rec.span
		envInt := 0
		fmt.Sscan(r.env, &envInt)
		observed := map[string]int{
			"OTEL_SPAN_ATTRIBUTE_COUNT_LIMIT": len(sp.Attributes()), "OTEL_ATTRIBUTE_COUNT_LIMIT": len(sp.Attributes()),
			"OTEL_SPAN_EVENT_COUNT_LIMIT": len(sp.Events()), "OTEL_SPAN_LINK_COUNT_LIMIT": len(sp.Links()),
		}
		if len(sp.Events()) > 0 {
			observed["OTEL_EVENT_ATTRIBUTE_COUNT_LIMIT"] = len(sp.Events()[0].Attributes)
		}
		if len(sp.Links()) > 0 {
			observed["OTEL_LINK_ATTRIBUTE_COUNT_LIMIT"] = len(sp.Links()[0].Attributes)
		}
		if len(sp.Attributes()) > 0 {
			l := len(sp.Attributes()[0].Value.AsString())
			observed["OTEL_SPAN_ATTRIBUTE_VALUE_LENGTH_LIMIT"], observed["OTEL_ATTRIBUTE_VALUE_LENGTH_LIMIT"] = l, l
		}
		got, okObs := observed[r.key]
		if !okObs {
			break
		}
		def := 128
		full := 200
		if strings.Contains(r.key, "VALUE_LENGTH") {
			def, full = 10, 10 // unlimited by default: the 10-character probe value survives
		}
		want := def
		if r.envValid {
			want = envInt
		}
		if r.option {
			want = 3
		}
		if r.option && r.optBad {
			want = 0 // WithRawSpanLimits(SpanLimits{}): zero limits, used as given
		}
		if want > full {
			want = full
		}
		meaning := func(v string) (int, bool) { // what an integer means for a limit: negative = unlimited
			iv, err := strconv.Atoi(v)
			if err != nil {
				return 0, false
			}
			if iv < 0 {
				return full, true
			}
			return min(iv, full), true
		}
		accept := map[int]bool{want: true}
		if !r.option {
			specV, specOK := meaning(r.env)
			genV, genOK := meaning(r.env2)
			switch {
			case r.env != "" && specOK: // the span-specific variable holds an integer: it decides
				accept = map[int]bool{specV: true}
			case r.env != "": // unparsable: the default, or as if absent (then the generic variable)
				accept = map[int]bool{def: true}
				if genOK {
					accept[genV] = true
				}
			case r.env2 != "" && genOK:
				accept = map[int]bool{genV: true}
			default:
				accept = map[int]bool{def: true}
			}
		}
		if !accept[got] {
			var exp []int
			for v := range accept {
				exp = append(exp, v)
			}
			sort.Ints(exp)
			fail("effective-value", r.key, fmt.Sprintf("probe span shows %d, expected one of %v (option > span-specific variable > generic variable > default)", got, exp))
		}
	case "loglimits":
		if r.env != "" {
			os.Setenv(r.key, r.env)
		}
		cp := &capLog{}
		lopts := []sdklog.LoggerProviderOption{sdklog.WithProcessor(cp)}
		if r.option {
			lopts = append(lopts, sdklog.WithAttributeCountLimit(3), sdklog.WithAttributeValueLengthLimit(3))
		}
		if r.optBad { // here: "only the other limit is an option"
			if strings.Contains(r.key, "VALUE_LENGTH") {
				lopts = append(lopts, sdklog.WithAttributeCountLimit(150))
			} else {
				lopts = append(lopts, sdklog.WithAttributeValueLengthLimit(9))
			}
		}
		var lp *sdklog.LoggerProvider
		if !k.Guard("panic", "NewLoggerProvider "+r.key, func() { lp = sdklog.NewLoggerProvider(lopts...) }) {
			return
		}
		ok2 := k.Guard("panic", "probe record "+r.key, func() {
			var rc log.Record
			for i := 0; i < 200; i++ {
				rc.AddAttributes(log.String(fmt.Sprintf("k%d", i), "0123456789"))
			}
			lp.Logger("x").Emit(ctx, rc)
		})
		if !ok2 || cp.rec == nil {
			return
		}
		envInt := 0
		fmt.Sscan(r.env, &envInt)
		got, def, full := cp.rec.AttributesLen(), 128, 200
		if strings.Contains(r.key, "VALUE_LENGTH") {
			def, full = 10, 10
			cp.rec.WalkAttributes(func(kv log.KeyValue) bool { got = len(kv.Value.AsString()); return false })
		}
		want := def
		if r.envValid {
			want = envInt
		}
		if r.option {
			want = 3
		}
		if want > full {
			want = full
		}
		accept := map[int]bool{want: true}
		if r.env != "" && !r.envValid && !r.option {
			if iv, err := strconv.Atoi(r.env); err == nil {
				delete(accept, want)
				if iv < 0 {
					accept[full] = true
				} else {
					accept[min(iv, full)] = true
					if iv == 0 && !strings.Contains(r.key, "VALUE_LENGTH") {
						accept[full] = true // count limit 0 behaves as unlimited: recorded under C17
					}
				}
			} else {
				accept[def] = true
			}
		}
		if !accept[got] {
			fail("effective-value", r.key, fmt.Sprintf("probe record shows %d, expected %d (option > environment > default)", got, want))
		}
	case "sampler":
		// r.key = OTEL_TRACES_SAMPLER value, r.env = OTEL_TRACES_SAMPLER_ARG value
		if r.key != "" {
			os.Setenv("OTEL_TRACES_SAMPLER", r.key)
		}
		if r.env != "" {
			os.Setenv("OTEL_TRACES_SAMPLER_ARG", r.env)
		}
		var popts []sdktrace.TracerProviderOption
		if r.option {
			popts = append(popts, sdktrace.WithSampler(sdktrace.NeverSample()))
		}
		var tp *sdktrace.TracerProvider
		if !k.Guard("panic", "NewTracerProvider sampler", func() { tp = sdktrace.NewTracerProvider(popts...) }) {
			return
		}
		tr := tp.Tracer("x")
		sampledRoots, sampledUnderUnsampledParent := 0, 0
		n := 400
		parent := trace.ContextWithRemoteSpanContext(ctx, trace.NewSpanContext(trace.SpanContextConfig{TraceID: trace.TraceID{9}, SpanID: trace.SpanID{9}, Remote: true}))
		for i := 0; i < n; i++ {
			_, s := tr.Start(ctx, "r")
			if s.SpanContext().IsSampled() {
				sampledRoots++
			}
			s.End()
		}
		_, s := tr.Start(parent, "c")
		if s.SpanContext().IsSampled() {
			sampledUnderUnsampledParent = 1
		}
		s.End()
		name := strings.ToLower(strings.TrimSpace(r.key))
		arg := strings.TrimSpace(r.env)
		ratio := 1.0
		argOK := true
		if arg != "" {
			var f float64
			if _, err := fmt.Sscan(arg, &f); err != nil || f < 0 || f > 1 || strings.ContainsAny(arg, " ") {
				argOK = false
			} else {
				ratio = f
			}
		}
		// expected root share and behaviour under an unsampled remote parent
		type expct struct {
			share     float64
			childOfUn int // 1 sampled, 0 not, -1 follows share
		}
		var want expct
		def := expct{1, 0} // parentbased_always_on
		switch name {
		case "always_on":
			want = expct{1, 1}
		case "always_off":
			want = expct{0, 0}
		case "traceidratio":
			want = expct{ratio, -1}
		case "parentbased_always_on":
			want = expct{1, 0}
		case "parentbased_always_off":
			want = expct{0, 0}
		case "parentbased_traceidratio":
			want = expct{ratio, 0}
		default:
			want = def
		}
		if r.option {
			want = expct{0, 0}
		}
		share := float64(sampledRoots) / float64(n)
		okShare := func(e float64) bool { return share >= e-0.12 && share <= e+0.12 }
		good := okShare(want.share) && (want.childOfUn == -1 || want.childOfUn == sampledUnderUnsampledParent)
		if !good && !r.option && !argOK && strings.Contains(name, "traceidratio") {
			// invalid argument: documented fallback is ratio 1.0; the default sampler is accepted as well
			good = okShare(1.0) || (okShare(def.share) && sampledUnderUnsampledParent == def.childOfUn)
		}
		if !good {
			fail("effective-value", "sampler", fmt.Sprintf("root spans sampled %.2f, child of unsampled remote parent sampled=%d; expected share %.2f child %d", share, sampledUnderUnsampledParent, want.share, want.childOfUn))
		}
	}
	k.C.Count("sdk_rows", 1)
	k.C.Count("sdk_rows_"+r.comp, 1)
	k.C.Sig(r.String())
	if k.C.NeedSample() && k.Index%40 == 3 {
		k.C.Sample(map[string]any{"row": r.String()})
	}
}

type probeProc struct{ span sdktrace.ReadOnlySpan }

func (p *probeProc) OnStart(context.Context, sdktrace.ReadWriteSpan) {}
func (p *probeProc) OnEnd(s sdktrace.ReadOnlySpan)                   { p.span = s }
func (p *probeProc) Shutdown(context.Context) error                  { return nil }
func (p *probeProc) ForceFlush(context.Context) error                { return nil }

var _ = atomic.AddInt32

func main() {
	vf.Main("C20", "fault_enumeration", func(c *vf.Ctx) {
		c.Rule = "child processes, one configuration row at a time (the environment is process-global). Exporter table (enumerated completely): six OTLP exporters x {endpoint(+URL path), headers, compression, timeout} x option{absent,valid} x signal-specific env{absent,valid,invalid} x generic env{absent,valid,invalid}; each source carries a distinct valid value and the effective value is observed behaviourally at loopback collectors (who received the request, URL path, header, Content-Encoding / gRPC compressor, handler deadline / client hang-up time). SDK table (enumerated completely): OTEL_BSP_* and OTEL_BLRP_* x option x {absent, valid, abc, 1.5, -1, -2147483649, 99999999999999999999, 0x10, ' 5 ', 0}, OTEL_SPAN_*/OTEL_ATTRIBUTE_*/OTEL_*_ATTRIBUTE_COUNT_LIMIT and OTEL_LOGRECORD_* limits observed on probe spans/records, OTEL_TRACES_SAMPLER x _ARG x option observed on sampling decisions; all-zero raw span limits option; header and timeout rows over a caller-supplied gRPC connection / an HTTP client with a proxy function. distinct = distinct rows"
		c.Assume = []string{"for an invalid value the accepted outcomes are: as if the source were absent, or the default (for integers that parse: also their documented meaning)", "the default OTLP endpoint (localhost:4317/4318) is observed only as 'none of the harness collectors received the request'", "HTTP timeouts are classified by the time the client keeps a held request open (hard lower bound, candidates 0.4/1.2/2.5/10 s)"}
		otel.SetErrorHandler(otel.ErrorHandlerFunc(func(error) {}))
		otel.SetLogger(logr.Discard())
		xr := exporterRows()
		passes := c.N(1, 6) // every pass draws other invalid values, URL shapes and header spellings for each row
		c.Isolated("exporters", len(xr)*passes, vf.IsoOpts{Batch: 6, Par: 24, Timeout: 10 * time.Minute}, func(k *vf.Case) { runExporterRow(k, xr[k.Index%len(xr)]) })
		sr := sdkRows()
		c.Isolated("sdk", len(sr)*passes, vf.IsoOpts{Batch: 20, Par: 16, Timeout: 10 * time.Minute}, func(k *vf.Case) { runSDKRow(k, sr[k.Index%len(sr)]) })
		c.Exhaustive(true)
		c.Extra("exporter_table_rows", len(xr))
		c.Extra("sdk_table_rows", len(sr))
		c.Floor("exporter_rows", int64(len(xr)*passes)*9/10)
		c.Floor("sdk_rows", int64(len(sr)*passes)*8/10)
	})
}
