// C02 — metric sums are conserved under concurrent recording and collection.
package main

import (
	"context"
	"errors"
	"fmt"
	"os"
	"runtime"
	"sort"
	"strings"
	"sync"
	"sync/atomic"
	"time"

	"github.com/anishathalye/porcupine"
	"go.opentelemetry.io/otel"
	"go.opentelemetry.io/otel/attribute"
	"go.opentelemetry.io/otel/metric"
	sdkmetric "go.opentelemetry.io/otel/sdk/metric"
	"go.opentelemetry.io/otel/sdk/metric/metricdata"

	"verifharness/vf"
)

var kindNames = []string{"ci", "cf", "ui", "uf"} // int64/float64 counter, int64/float64 up-down counter
var scopeNames = []string{"c02.a", "c02.b", "c02.c"}

// instrument index = scope*4 + kind; 12 instruments over three instrumentation scopes
var instNames = func() []string {
	var out []string
	for _, sc := range scopeNames {
		for _, k := range kindNames {
			out = append(out, sc+"/"+k)
		}
	}
	return out
}()

func mono(inst int) bool { return inst%4 < 2 }

// sameNameMode: in the history now running (one at a time per process) the four instruments of every scope
// are all called "same" - a conflict the SDK only warns about; each is still a stream of its own
var sameNameMode bool

type key struct {
	inst int
	sid  int
}

// tracker: per (instrument, owned set) sums of positive values and of negative magnitudes whose Add
// has been called (started) / has returned (done).
type tracker struct {
	posStarted, posDone, negStarted, negDone atomic.Int64
}

type bounds struct{ lo, hi int64 }

// extract reads all sum points of a collection into key -> value (values are small integers).
func extract(rm *metricdata.ResourceMetrics) (map[key]int64, []string) {
	out := map[key]int64{}
	var problems []string
	for _, sm := range rm.ScopeMetrics {
		for _, m := range sm.Metrics {
			inst := -1
			for i, n := range instNames {
				if n == sm.Scope.Name+"/"+m.Name {
					inst = i
				}
			}
			if sameNameMode && m.Name == "same" {
				// four instruments of one scope share the name: told apart by number type and monotonicity
				for sc, sn := range scopeNames {
					if sn != sm.Scope.Name {
						continue
					}
					switch d := m.Data.(type) {
					case metricdata.Sum[int64]:
						inst = sc*4 + map[bool]int{true: 0, false: 2}[d.IsMonotonic]
					case metricdata.Sum[float64]:
						inst = sc*4 + map[bool]int{true: 1, false: 3}[d.IsMonotonic]
					}
				}
			}
			if inst < 0 {
				problems = append(problems, "unknown metric "+m.Name)
				continue
			}
			add := func(set attribute.Set, v int64) {
				sv, ok := set.Value("sid")
				if !ok {
					problems = append(problems, "point without sid")
					return
				}
				k := key{inst, int(sv.AsInt64())}
				if _, dup := out[k]; dup {
					problems = append(problems, fmt.Sprintf("attribute set reported twice in one collection: %s sid=%d", m.Name, k.sid))
				}
				out[k] += v
			}
			switch d := m.Data.(type) {
			case metricdata.Sum[int64]:
				if d.IsMonotonic != mono(inst) {
					problems = append(problems, "monotonic flag wrong for "+m.Name)
				}
				for _, p := range d.DataPoints {
					add(p.Attributes, p.Value)
				}
			case metricdata.Sum[float64]:
				if d.IsMonotonic != mono(inst) {
					problems = append(problems, "monotonic flag wrong for "+m.Name)
				}
				for _, p := range d.DataPoints {
					if p.Value != float64(int64(p.Value)) {
						problems = append(problems, fmt.Sprintf("non-integer float sum %v", p.Value))
					}
					add(p.Attributes, int64(p.Value))
				}
			default:
				problems = append(problems, fmt.Sprintf("unexpected data %T", m.Data))
			}
		}
	}
	return out, problems
}

type collection struct {
	reader    int
	kind      string // "collect" | "export" | "shutdown-export"
	call, ret uint64 // for exports: call == ret == ticket at Export entry
	vals      map[key]int64
	lo        map[key]int64 // done-before-call bounds (collect only)
	hi        map[key]int64 // started-before-ret bounds
	hasLo     bool
}

type harness struct {
	negOnCounters bool
	trackers      map[key]*tracker
	mu            sync.Mutex
	cols          []collection
	problems      []string
}

// Sound window for the running total T of a collection that happened inside [call, ret]:
//
//	posDone(call) - negStarted(ret)  <=  T  <=  posStarted(ret) - negDone(call)
//
// sampleCall is taken before the call, sampleRet after the return.
type sample struct{ pos, neg map[key]int64 }

func (h *harness) sampleCall() sample { // completed positives / completed negatives
	s := sample{make(map[key]int64, len(h.trackers)), make(map[key]int64, len(h.trackers))}
	for k, t := range h.trackers {
		s.pos[k], s.neg[k] = t.posDone.Load(), t.negDone.Load()
	}
	return s
}

func (h *harness) sampleRet() sample { // started positives / started negatives
	s := sample{make(map[key]int64, len(h.trackers)), make(map[key]int64, len(h.trackers))}
	for k, t := range h.trackers {
		s.pos[k], s.neg[k] = t.posStarted.Load(), t.negStarted.Load()
	}
	return s
}

func window(atCall, atRet sample, hasCall bool) (lo, hi map[key]int64) {
	lo, hi = map[key]int64{}, map[key]int64{}
	for k := range atRet.pos {
		hi[k] = atRet.pos[k]
		if hasCall {
			lo[k] = atCall.pos[k] - atRet.neg[k]
			hi[k] -= atCall.neg[k]
		}
	}
	return
}

func (h *harness) record(c collection) {
	h.mu.Lock()
	h.cols = append(h.cols, c)
	h.mu.Unlock()
}

// recording exporter for periodic readers
type recExporter struct {
	h         *harness
	reader    int
	temp      metricdata.Temporality
	mode      int // 0 instant 1 slow 2 failing every k
	k         int
	calls     atomic.Int64
	shutdowns atomic.Int64
	inFlight  atomic.Int32
	overlap   atomic.Int32
	stopped   atomic.Bool
	afterStop atomic.Int32
}

func (e *recExporter) Temporality(sdkmetric.InstrumentKind) metricdata.Temporality { return e.temp }
func (e *recExporter) Aggregation(k sdkmetric.InstrumentKind) sdkmetric.Aggregation {
	return sdkmetric.DefaultAggregationSelector(k)
}
func (e *recExporter) Export(ctx context.Context, rm *metricdata.ResourceMetrics) error {
	if e.inFlight.Add(1) != 1 {
		e.overlap.Add(1)
	}
	defer e.inFlight.Add(-1)
	if e.stopped.Load() {
		e.afterStop.Add(1)
	}
	t := vf.Tick()
	_, hi := window(sample{}, e.h.sampleRet(), false)
	vals, probs := extract(rm)
	e.h.mu.Lock()
	e.h.problems = append(e.h.problems, probs...)
	e.h.mu.Unlock()
	e.h.record(collection{reader: e.reader, kind: "export", call: t, ret: t, vals: vals, hi: hi})
	n := e.calls.Add(1)
	switch e.mode {
	case 1:
		time.Sleep(300 * time.Microsecond)
	case 2:
		if n%int64(e.k) == 0 {
			return errors.New("scripted export failure")
		}
	}
	return nil
}
func (e *recExporter) ForceFlush(context.Context) error { return nil }
func (e *recExporter) Shutdown(context.Context) error {
	e.shutdowns.Add(1)
	e.stopped.Store(true)
	return nil
}

type readerSpec struct {
	// steal: user-level Collect calls are issued on this periodic reader concurrently with its
	// interval exports. The true order of such a collection relative to an interval collection is not
	// observable (only the Export entry is), so for these readers only lane-wise monotonicity and
	// the exact conservation at quiescence are asserted.
	steal    bool
	periodic bool
	temp     metricdata.Temporality
	manual   *sdkmetric.ManualReader
	per      *sdkmetric.PeriodicReader
	exp      *recExporter
}

func (r readerSpec) String() string {
	k := "manual"
	if r.periodic {
		k = "periodic"
	}
	t := "cumulative"
	if r.temp == metricdata.DeltaTemporality {
		t = "delta"
	}
	if r.steal {
		t += "+user-collect"
	}
	return k + "/" + t
}

func runHistory(k *vf.Case) {
	r := k.R
	procs := vf.Pick(r, []int{2, 4, 16})
	prev := runtime.GOMAXPROCS(procs)
	defer runtime.GOMAXPROCS(prev)
	ctx := context.Background()
	// the experimental cardinality limit: unset, or one of the spellings that mean "no limit" (negative values
	// are documented to disable it, unparsable ones are ignored) - every attribute set keeps its own sums
	if r.Chance(1, 4) {
		v := vf.Pick(r, []string{"-1", "-100", "0", "abc"})
		os.Setenv("OTEL_GO_X_CARDINALITY_LIMIT", v)
		defer os.Unsetenv("OTEL_GO_X_CARDINALITY_LIMIT")
		k.C.Count("histories_with_cardinality_limit_spelled_as_no_limit", 1)
	}
	sameNameMode = r.Chance(1, 6)
	if sameNameMode {
		k.C.Count("histories_with_same_name_instruments", 1)
	}
	h := &harness{trackers: map[key]*tracker{}}
	// the tracker table is complete before any reader (and its background goroutine) exists
	G := vf.Pick(r, []int{2, 4, 8, 16})
	perG := 200 + r.Intn(2000/G*4+1)
	setsPer := 1 + r.Intn(3)
	for g := 0; g < G; g++ {
		for inst := range instNames {
			for s := 0; s < setsPer; s++ {
				h.trackers[key{inst, g*10 + s}] = &tracker{}
			}
		}
	}
	// in one history of six the counters, too, are given negative increments now and then: the statement
	// counts every recorded measurement (monotonicity is only promised for non-negative inputs)
	negOnCounters := r.Chance(1, 6)
	h.negOnCounters = negOnCounters
	if negOnCounters {
		k.C.Count("histories_with_negative_increments_on_counters", 1)
	}
	nReaders := 1 + r.Intn(3)
	var readers []readerSpec
	var opts []sdkmetric.Option
	for i := 0; i < nReaders; i++ {
		rs := readerSpec{periodic: r.Bool(), temp: vf.Pick(r, []metricdata.Temporality{metricdata.DeltaTemporality, metricdata.CumulativeTemporality})}
		temp := rs.temp
		if rs.periodic {
			rs.steal = r.Chance(1, 3)
			rs.exp = &recExporter{h: h, reader: i, temp: temp, mode: vf.Pick(r, []int{0, 0, 1, 2}), k: 2 + r.Intn(3)}
			rs.per = sdkmetric.NewPeriodicReader(rs.exp, sdkmetric.WithInterval(time.Duration(1+r.Intn(5))*time.Millisecond),
				sdkmetric.WithTimeout(vf.Pick(r, []time.Duration{30 * time.Second, 30 * time.Second, 200 * time.Microsecond, 50 * time.Microsecond, 20 * time.Microsecond})))
			opts = append(opts, sdkmetric.WithReader(rs.per))
		} else {
			rs.manual = sdkmetric.NewManualReader(sdkmetric.WithTemporalitySelector(func(sdkmetric.InstrumentKind) metricdata.Temporality { return temp }))
			opts = append(opts, sdkmetric.WithReader(rs.manual))
		}
		readers = append(readers, rs)
	}
	if r.Chance(1, 4) {
		// a further reader that cannot aggregate sums at all (its selector asks for last-value): instrument
		// creation reports an error for it, the instrument must still feed every other reader
		broken := sdkmetric.NewManualReader(sdkmetric.WithAggregationSelector(func(k sdkmetric.InstrumentKind) sdkmetric.Aggregation {
			return sdkmetric.AggregationLastValue{}
		}))
		at := r.Intn(len(opts) + 1)
		opts = append(opts[:at], append([]sdkmetric.Option{sdkmetric.WithReader(broken)}, opts[at:]...)...)
		k.C.Count("histories_with_an_incompatible_reader", 1)
	}
	mp := sdkmetric.NewMeterProvider(opts...)
	var ci [3]metric.Int64Counter
	var cf [3]metric.Float64Counter
	var ui [3]metric.Int64UpDownCounter
	var uf [3]metric.Float64UpDownCounter
	for sc, name := range scopeNames {
		m := mp.Meter(name)
		if sameNameMode {
			ci[sc], _ = m.Int64Counter("same")
			cf[sc], _ = m.Float64Counter("same")
			ui[sc], _ = m.Int64UpDownCounter("same")
			uf[sc], _ = m.Float64UpDownCounter("same")
			continue
		}
		ci[sc], _ = m.Int64Counter("ci")
		cf[sc], _ = m.Float64Counter("cf")
		ui[sc], _ = m.Int64UpDownCounter("ui")
		uf[sc], _ = m.Float64UpDownCounter("uf")
	}
	// in a quarter of the histories each int64 counter also exists under a second spelling of its name
	// (instrument names are case-insensitive): both handles are one stream
	var ciAlias [3]metric.Int64Counter
	if r.Chance(1, 4) && !sameNameMode {
		for sc, name := range scopeNames {
			ciAlias[sc], _ = mp.Meter(name).Int64Counter("CI")
		}
		k.C.Count("histories_with_a_second_spelling_of_a_counter", 1)
	}
	var aliasTurn atomic.Uint32
	addTo := func(inst int, v int64, o metric.MeasurementOption) {
		sc := inst / 4
		switch inst % 4 {
		case 0:
			if ciAlias[sc] != nil && aliasTurn.Add(1)%2 == 0 {
				ciAlias[sc].Add(ctx, v, o.(metric.AddOption))
				return
			}
			ci[sc].Add(ctx, v, o.(metric.AddOption))
		case 1:
			cf[sc].Add(ctx, float64(v), o.(metric.AddOption))
		case 2:
			ui[sc].Add(ctx, v, o.(metric.AddOption))
		default:
			uf[sc].Add(ctx, float64(v), o.(metric.AddOption))
		}
	}
	var hotTotals [12][2]atomic.Int64
	var wg sync.WaitGroup
	release := make(chan struct{})
	var producersLeft atomic.Int32
	producersLeft.Store(int32(G))
	hotShared := r.Bool()
	sharedHot := [2][]attribute.KeyValue{
		{attribute.String("zone", "hot"), attribute.Int("sid", 999), attribute.String("a", "1"), attribute.Int("sid", 1000)},
		{attribute.String("zone", "hot"), attribute.Int("sid", 999), attribute.String("a", "1"), attribute.Int("sid", 1001)},
	}
	for g := 0; g < G; g++ {
		seed := r.U64()
		wg.Add(1)
		go func(g int) {
			defer wg.Done()
			defer producersLeft.Add(-1)
			gr := vf.NewRNG(seed)
			// pre-built options
			type target struct {
				k   key
				opt metric.MeasurementOption
				t   *tracker
			}
			var owned []target
			for inst := range instNames {
				for s := 0; s < setsPer; s++ {
					kk := key{inst, g*10 + s}
					owned = append(owned, target{kk, metric.WithAttributeSet(attribute.NewSet(attribute.Int("sid", kk.sid), attribute.String("owner", fmt.Sprint(g)))), h.trackers[kk]})
				}
			}
			hot := [2]metric.MeasurementOption{metric.WithAttributeSet(attribute.NewSet(attribute.Int("sid", 1000))), metric.WithAttributeSet(attribute.NewSet(attribute.Int("sid", 1001)))}
			hotOpt := func(hs int) metric.MeasurementOption {
				if hotShared {
					// the documented concurrent-safe shorthand: every goroutine passes the same caller-owned slice
					// (unsorted, with a default that a later element overrides)
					return metric.WithAttributes(sharedHot[hs]...)
				}
				return hot[hs]
			}
			<-release
			for i := 0; i < perG; i++ {
				if gr.Chance(1, 4) {
					inst, hs := gr.Intn(12), gr.Intn(2)
					v := int64(1 + gr.Intn(5))
					if (!mono(inst) && gr.Bool()) || (negOnCounters && gr.Chance(1, 8)) {
						v = -v
					}
					addTo(inst, v, hotOpt(hs))
					hotTotals[inst][hs].Add(v)
					continue
				}
				tg := owned[gr.Intn(len(owned))]
				v := int64(1 + gr.Intn(5))
				if (!mono(tg.k.inst) && gr.Bool()) || (negOnCounters && gr.Chance(1, 8)) {
					v = -v
				}
				if v > 0 {
					tg.t.posStarted.Add(v)
				} else {
					tg.t.negStarted.Add(-v)
				}
				addTo(tg.k.inst, v, tg.opt)
				if v > 0 {
					tg.t.posDone.Add(v)
				} else {
					tg.t.negDone.Add(-v)
				}
				if gr.Chance(1, 64) {
					runtime.Gosched()
				}
			}
		}(g)
	}
	// collectors
	type flushRec struct {
		reader    int
		call, ret uint64
		lo        map[key]int64
	}
	var flushes []flushRec
	var fmu sync.Mutex
	for ri, rs := range readers {
		ri, rs := ri, rs
		seed := r.U64()
		wg.Add(1)
		go func() {
			defer wg.Done()
			cr := vf.NewRNG(seed)
			var reuse metricdata.ResourceMetrics
			<-release
			for producersLeft.Load() > 0 {
				time.Sleep(time.Duration(cr.Intn(600)) * time.Microsecond)
				userCollect := !rs.periodic || (rs.steal && cr.Chance(1, 3))
				if userCollect {
					rm := &reuse
					if cr.Bool() {
						rm = &metricdata.ResourceMetrics{}
					}
					// Lower bounds are only sound where no background collection can be in flight: a
					// PeriodicReader's interval collection may have consumed delta data that its
					// Export has not yet shown to the harness.
					c := collection{reader: ri, kind: "collect", hasLo: !rs.periodic}
					atCall := h.sampleCall()
					c.call = vf.Tick()
					var err error
					cctx, ccancel := ctx, context.CancelFunc(func() {})
					if cr.Chance(1, 3) { // a deadline that may fall inside the collection
						cctx, ccancel = context.WithTimeout(ctx, time.Duration(1+cr.Intn(300))*time.Microsecond)
					}
					if rs.periodic {
						err = rs.per.Collect(cctx, rm)
					} else {
						err = rs.manual.Collect(cctx, rm)
					}
					ccancel()
					c.ret = vf.Tick()
					c.lo, c.hi = window(atCall, h.sampleRet(), true)
					if err != nil {
						h.mu.Lock()
						h.problems = append(h.problems, "Collect error: "+err.Error())
						h.mu.Unlock()
						continue
					}
					var probs []string
					c.vals, probs = extract(rm)
					h.mu.Lock()
					h.problems = append(h.problems, probs...)
					h.mu.Unlock()
					h.record(c)
				} else {
					f := flushRec{reader: ri}
					atCall := h.sampleCall()
					f.call = vf.Tick()
					var err error
					if cr.Bool() {
						err = rs.per.ForceFlush(ctx)
					} else {
						err = mp.ForceFlush(ctx)
					}
					f.ret = vf.Tick()
					f.lo, _ = window(atCall, h.sampleRet(), true)
					if err == nil || rs.exp.mode == 2 {
						if err == nil {
							fmu.Lock()
							flushes = append(flushes, f)
							fmu.Unlock()
						}
					}
				}
			}
		}()
	}
	finished, stuck, desc := vf.Watch(120*time.Second, 2*time.Second, func() {
		close(release)
		wg.Wait()
	})
	cfgStr := func() string {
		var rs []string
		for _, x := range readers {
			rs = append(rs, x.String())
		}
		return fmt.Sprintf("readers=%v goroutines=%d addsPerGoroutine=%d setsPerGoroutine=%d procs=%d", rs, G, perG, setsPer, procs)
	}()
	if !finished {
		if stuck {
			k.Violate("hang", "", cfgStr+"\n"+desc, nil)
		} else {
			k.C.Inconclusive("history did not finish: " + cfgStr)
		}
		return
	}
	// quiescence: final manual collections, then Shutdown (periodic readers do their final export)
	for ri, rs := range readers {
		if rs.periodic {
			continue
		}
		rm := &metricdata.ResourceMetrics{}
		c := collection{reader: ri, kind: "collect", hasLo: true}
		atCall := h.sampleCall()
		c.call = vf.Tick()
		err := rs.manual.Collect(ctx, rm)
		c.ret = vf.Tick()
		c.lo, c.hi = window(atCall, h.sampleRet(), true)
		if err != nil {
			k.Violate("collect-error", "", err.Error(), nil)
			return
		}
		c.vals, _ = extract(rm)
		h.record(c)
	}
	// sometimes a periodic reader that is not the last one registered is shut down on its own first (it does
	// its final export itself): the provider's Shutdown must still reach every other reader
	if len(readers) >= 2 && r.Chance(1, 3) {
		for ri, rs := range readers[:len(readers)-1] {
			if rs.periodic {
				rs.per.Shutdown(ctx)
				k.C.Count("histories_with_a_reader_shut_down_on_its_own", 1)
				_ = ri
				break
			}
		}
	}
	shutdownCall := vf.Tick()
	if err := mp.Shutdown(ctx); err != nil {
		// a failing scripted exporter makes the final export fail; the data was still handed over
		k.C.Count("shutdown_returned_error", 1)
	}
	shutdownRet := vf.Tick()
	_ = shutdownCall
	// post-shutdown Adds must not appear anywhere
	ci[0].Add(ctx, 1000000, metric.WithAttributeSet(attribute.NewSet(attribute.Int("sid", 0))))

	// ------------------------------------------------------------------ oracle
	fail := func(class, key, detail string) {
		k.Violate(class, key, cfgStr+"\n"+detail, nil)
	}
	for _, p := range h.problems {
		fail("malformed-collection", strings.SplitN(p, ":", 2)[0], p)
	}
	totals := map[key]int64{}
	for kk, t := range h.trackers {
		if t.posStarted.Load() != t.posDone.Load() || t.negStarted.Load() != t.negDone.Load() {
			panic("harness: producer not quiescent")
		}
		totals[kk] = t.posDone.Load() - t.negDone.Load()
	}
	for inst := 0; inst < 12; inst++ {
		for hs := 0; hs < 2; hs++ {
			totals[key{inst, 1000 + hs}] = hotTotals[inst][hs].Load()
		}
	}
	overlapping := 0
	for ri, rs := range readers {
		var cols []collection
		for _, c := range h.cols {
			if c.reader == ri {
				cols = append(cols, c)
			}
		}
		sort.Slice(cols, func(i, j int) bool { return cols[i].call < cols[j].call })
		running := map[key]int64{}
		last := map[key]int64{}
		lastLane := map[string]map[key]int64{"collect": {}, "export": {}}
		seen := map[key]bool{}
		ordered := !rs.steal
		for _, c := range cols {
			if c.call > shutdownRet {
				fail("export-after-shutdown", rs.String(), "")
			}
			for kk, v := range c.vals {
				seen[kk] = true
				if rs.temp == metricdata.DeltaTemporality {
					if mono(kk.inst) && !negOnCounters && v < 0 {
						fail("monotonic-delta-negative", rs.String(), fmt.Sprintf("%s sid=%d delta %d", instNames[kk.inst], kk.sid, v))
					}
					running[kk] += v
				} else {
					prevV := last[kk]
					if !ordered {
						prevV = lastLane[c.kind][kk] // each lane is sequential in itself
					}
					if mono(kk.inst) && !negOnCounters && v < prevV {
						fail("monotonic-sum-decreased", rs.String(), fmt.Sprintf("%s sid=%d %d after %d", instNames[kk.inst], kk.sid, v, prevV))
					}
					last[kk] = v
					lastLane[c.kind][kk] = v
					running[kk] = v
				}
			}
			if !ordered {
				continue
			}
			if rs.temp == metricdata.CumulativeTemporality {
				for kk := range seen {
					if _, ok := c.vals[kk]; !ok {
						fail("cumulative-set-disappeared", rs.String(), fmt.Sprintf("%s sid=%d", instNames[kk.inst], kk.sid))
					}
				}
			}
			// interval (linearizability) oracle on owned sets
			anyOverlap := false
			for kk := range h.trackers {
				T := running[kk]
				if c.hasLo && T < c.lo[kk] {
					fail("collection-misses-completed-adds", rs.String(), fmt.Sprintf("%s sid=%d: running total %d after %s [%d,%d] < %d recorded by Adds that returned before it was called", instNames[kk.inst], kk.sid, T, c.kind, c.call, c.ret, c.lo[kk]))
				}
				if T > c.hi[kk] {
					fail("collection-reports-more-than-recorded", rs.String(), fmt.Sprintf("%s sid=%d: running total %d after %s [%d,%d] > %d started before it returned", instNames[kk.inst], kk.sid, T, c.kind, c.call, c.ret, c.hi[kk]))
				}
				if c.hasLo && c.lo[kk] != c.hi[kk] {
					anyOverlap = true
				}
			}
			if anyOverlap {
				overlapping++
			}
		}
		// ForceFlush: afterwards the reader's exports cover everything completed before the call
		for _, f := range flushes {
			if f.reader != ri || !ordered {
				continue
			}
			run := map[key]int64{}
			straddled := false
			for _, c := range cols {
				if c.call > f.ret {
					break
				}
				if c.ret > f.ret {
					straddled = true // a user-level Collect still running when ForceFlush returned
				}
				for kk, v := range c.vals {
					if rs.temp == metricdata.DeltaTemporality {
						run[kk] += v
					} else {
						run[kk] = v
					}
				}
			}
			for kk := range h.trackers {
				if (!mono(kk.inst) || negOnCounters) && straddled {
					continue // non-monotone: neither including nor excluding the straddling collection is sound
				}
				if run[kk] < f.lo[kk] {
					fail("forceflush-misses-completed-adds", rs.String(), fmt.Sprintf("%s sid=%d: %d exported by ForceFlush return, %d recorded before it was called", instNames[kk.inst], kk.sid, run[kk], f.lo[kk]))
				}
			}
			k.C.Count("forceflush_checks", 1)
		}
		// conservation at quiescence
		for kk, want := range totals {
			if running[kk] != want {
				fail("conservation", rs.String(), fmt.Sprintf("%s sid=%d: reader total %d, recorded %d (over %d collections)", instNames[kk.inst], kk.sid, running[kk], want, len(cols)))
			}
		}
		for kk := range running {
			if _, ok := totals[kk]; !ok && running[kk] != 0 {
				fail("unknown-set-reported", rs.String(), fmt.Sprintf("%v", kk))
			}
		}
		if rs.periodic {
			if rs.exp.overlap.Load() > 0 {
				fail("metric-exporter-invoked-concurrently", "", "")
			}
			if rs.exp.shutdowns.Load() != 1 {
				fail("metric-exporter-shutdown-count", "", fmt.Sprint(rs.exp.shutdowns.Load()))
			}
			if rs.exp.afterStop.Load() > 0 {
				fail("export-after-exporter-shutdown", "", "")
			}
			k.C.Count("interval_exports", rs.exp.calls.Load())
		}
		k.C.Count("collections", int64(len(cols)))
		k.C.Count("readers_"+strings.ReplaceAll(rs.String(), "/", "_"), 1)
	}
	k.C.Count("collections_overlapping_adds", int64(overlapping))
	k.C.Count("histories", 1)
	var adds int64
	for _, t := range totals {
		_ = t
	}
	adds = int64(G * perG)
	k.C.Count("adds", adds)
	var rs []string
	for _, x := range readers {
		rs = append(rs, x.String())
	}
	sort.Strings(rs)
	k.C.Sig(fmt.Sprintf("%v|G%d|p%d|s%d|ovl=%v", rs, G, procs, setsPer, overlapping > 0))
	if k.C.NeedSample() {
		k.C.Sample(map[string]any{"config": cfgStr, "collections": len(h.cols), "collections_overlapping_adds": overlapping})
	}

	// thorough: porcupine on the hottest owned set of a delta manual reader (short projection)
	if k.C.Thorough() || os.Getenv("C02_PORCUPINE") != "" {
		porcupineCheck(k, h, readers, cfgStr)
	}
}

// ---------------------------------------------------------------------------------------------
// porcupine: the per-collection interval bounds are re-expressed as a linearizability problem over a
// counter: operations Add(v) [started,done] are not individually timestamped (that would perturb the
// hot path), so the history fed to porcupine is the sequence of collections of one reader on one
// attribute set with their [lo,hi] windows: "Observe(T)" must be explainable by some running total
// between what had completed before the call and what had started before the return.

type obsIn struct {
	Lo, Hi int64
}

func porcupineCheck(k *vf.Case, h *harness, readers []readerSpec, cfgStr string) {
	model := porcupine.Model{
		Init: func() any { return int64(0) },
		Step: func(state, in, out any) (bool, any) {
			st := state.(int64)
			o := in.(obsIn)
			T := out.(int64)
			// the observed running total must lie in the window and never go backwards for a counter
			if T < o.Lo || T > o.Hi || T < st {
				return false, st
			}
			return true, T
		},
	}
	for ri, rs := range readers {
		if rs.periodic {
			continue
		}
		for kk := range h.trackers {
			if !mono(kk.inst) || h.negOnCounters || kk.sid%10 != 0 {
				continue
			}
			var ops []porcupine.Operation
			run := int64(0)
			var cols []collection
			for _, c := range h.cols {
				if c.reader == ri && c.kind == "collect" {
					cols = append(cols, c)
				}
			}
			sort.Slice(cols, func(i, j int) bool { return cols[i].call < cols[j].call })
			for i, c := range cols {
				if rs.temp == metricdata.DeltaTemporality {
					run += c.vals[kk]
				} else {
					run = c.vals[kk]
				}
				ops = append(ops, porcupine.Operation{ClientId: i % 8, Input: obsIn{c.lo[kk], c.hi[kk]}, Call: int64(c.call), Output: run, Return: int64(c.ret)})
				if len(ops) >= 40 {
					break
				}
			}
			if len(ops) == 0 {
				continue
			}
			res := porcupine.CheckOperationsTimeout(model, ops, 30*time.Second)
			k.C.Count("porcupine_partitions", 1)
			k.C.Count("porcupine_ops", int64(len(ops)))
			switch res {
			case porcupine.Illegal:
				k.Violate("not-linearizable", rs.String(), fmt.Sprintf("%s\n%s sid=%d history %v", cfgStr, instNames[kk.inst], kk.sid, ops), nil)
			case porcupine.Unknown:
				k.C.Count("porcupine_unknown", 1)
			}
		}
	}
}

func main() {
	vf.Main("C02", "exploration", func(c *vf.Ctx) {
		c.Rule = "seeded concurrent histories: 2-16 goroutines x 200-2000 Adds of small integers on int64/float64 counters and up-down counters, own attribute sets (value stream identifiable) plus two shared hot sets; 1-3 readers mixing ManualReader and PeriodicReader (interval 1-5 ms, instant/slow/failing recording exporter) x delta/cumulative; collector goroutines call Collect (fresh and re-used ResourceMetrics), user-level PeriodicReader.Collect, ForceFlush; final manual collections then MeterProvider.Shutdown; in half of the histories the hot sets are recorded through metric.WithAttributes over one shared caller-owned unsorted slice with a duplicate key; GOMAXPROCS{2,4,16}; -race. distinct = distinct (reader mix, goroutines, procs, sets, overlap seen) signatures"
		c.Assume = []string{"an up-down counter's running total is bounded by [completed positives - started negatives, started positives - completed negatives]", "for interval exports only the upper bound (sampled at Export entry), monotonicity and the post-ForceFlush lower bound are asserted", "what the exporter is handed counts as reported"}
		otel.SetErrorHandler(otel.ErrorHandlerFunc(func(error) {}))
		n := c.N(600, 6000)
		c.Isolated("histories", n, vf.IsoOpts{Batch: 15, Par: 6, Timeout: 15 * time.Minute}, runHistory)
		c.Floor("histories", int64(n*9/10))
		c.Floor("collections_overlapping_adds", 1000)
		c.Floor("interval_exports", 200)
		c.Floor("forceflush_checks", 20)
	})
}
