// C13 — exporters encode telemetry faithfully (OTLP traces, metrics, logs; Zipkin IDs).
package main

import (
	"context"
	"encoding/hex"
	"encoding/json"
	"fmt"
	"io"
	"math"
	"net"
	"net/http"
	"regexp"
	"sort"
	"strconv"
	"strings"
	"sync"
	"time"

	"github.com/go-logr/logr"
	"go.opentelemetry.io/otel"
	"go.opentelemetry.io/otel/attribute"
	"go.opentelemetry.io/otel/codes"
	"go.opentelemetry.io/otel/exporters/otlp/otlplog/otlploggrpc"
	"go.opentelemetry.io/otel/exporters/otlp/otlplog/otlploghttp"
	"go.opentelemetry.io/otel/exporters/otlp/otlpmetric/otlpmetricgrpc"
	"go.opentelemetry.io/otel/exporters/otlp/otlpmetric/otlpmetrichttp"
	"go.opentelemetry.io/otel/exporters/otlp/otlptrace"
	"go.opentelemetry.io/otel/exporters/otlp/otlptrace/otlptracegrpc"
	"go.opentelemetry.io/otel/exporters/otlp/otlptrace/otlptracehttp"
	"go.opentelemetry.io/otel/exporters/zipkin"
	"go.opentelemetry.io/otel/log"
	"go.opentelemetry.io/otel/sdk/instrumentation"
	sdklog "go.opentelemetry.io/otel/sdk/log"
	"go.opentelemetry.io/otel/sdk/log/logtest"
	sdkmetric "go.opentelemetry.io/otel/sdk/metric"
	"go.opentelemetry.io/otel/sdk/metric/metricdata"
	"go.opentelemetry.io/otel/sdk/resource"
	sdktrace "go.opentelemetry.io/otel/sdk/trace"
	"go.opentelemetry.io/otel/sdk/trace/tracetest"
	"go.opentelemetry.io/otel/trace"
	collogpb "go.opentelemetry.io/proto/otlp/collector/logs/v1"
	colmetricpb "go.opentelemetry.io/proto/otlp/collector/metrics/v1"
	coltracepb "go.opentelemetry.io/proto/otlp/collector/trace/v1"
	cpb "go.opentelemetry.io/proto/otlp/common/v1"
	mpb "go.opentelemetry.io/proto/otlp/metrics/v1"
	rpb "go.opentelemetry.io/proto/otlp/resource/v1"

	"verifharness/otlpsrv"
	"verifharness/vf"
)

// ---------------------------------------------------------------------------------------------
// canonical rendering of attribute values from both sides

func canonAttr(v attribute.Value) string {
	switch v.Type() {
	case attribute.BOOL:
		return "B:" + strconv.FormatBool(v.AsBool())
	case attribute.INT64:
		return "I:" + strconv.FormatInt(v.AsInt64(), 10)
	case attribute.FLOAT64:
		return "F:" + strconv.FormatUint(math.Float64bits(v.AsFloat64()), 16)
	case attribute.STRING:
		return "S:" + strconv.Quote(v.AsString())
	case attribute.BOOLSLICE:
		var p []string
		for _, x := range v.AsBoolSlice() {
			p = append(p, "B:"+strconv.FormatBool(x))
		}
		return "A:[" + strings.Join(p, " ") + "]"
	case attribute.INT64SLICE:
		var p []string
		for _, x := range v.AsInt64Slice() {
			p = append(p, "I:"+strconv.FormatInt(x, 10))
		}
		return "A:[" + strings.Join(p, " ") + "]"
	case attribute.FLOAT64SLICE:
		var p []string
		for _, x := range v.AsFloat64Slice() {
			p = append(p, "F:"+strconv.FormatUint(math.Float64bits(x), 16))
		}
		return "A:[" + strings.Join(p, " ") + "]"
	case attribute.STRINGSLICE:
		var p []string
		for _, x := range v.AsStringSlice() {
			p = append(p, "S:"+strconv.Quote(x))
		}
		return "A:[" + strings.Join(p, " ") + "]"
	}
	return "S:\"INVALID\""
}

func canonAny(v *cpb.AnyValue) string {
	if v == nil {
		return "nil"
	}
	switch x := v.Value.(type) {
	case *cpb.AnyValue_BoolValue:
		return "B:" + strconv.FormatBool(x.BoolValue)
	case *cpb.AnyValue_IntValue:
		return "I:" + strconv.FormatInt(x.IntValue, 10)
	case *cpb.AnyValue_DoubleValue:
		return "F:" + strconv.FormatUint(math.Float64bits(x.DoubleValue), 16)
	case *cpb.AnyValue_StringValue:
		return "S:" + strconv.Quote(x.StringValue)
	case *cpb.AnyValue_BytesValue:
		return "Y:" + hex.EncodeToString(x.BytesValue)
	case *cpb.AnyValue_ArrayValue:
		var p []string
		if x.ArrayValue != nil {
			for _, e := range x.ArrayValue.Values {
				p = append(p, canonAny(e))
			}
		}
		return "A:[" + strings.Join(p, " ") + "]"
	case *cpb.AnyValue_KvlistValue:
		var p []string
		if x.KvlistValue != nil {
			for _, e := range x.KvlistValue.Values {
				p = append(p, strconv.Quote(e.Key)+"="+canonAny(e.Value))
			}
		}
		sort.Strings(p)
		return "M:{" + strings.Join(p, " ") + "}"
	case nil:
		return "nil"
	}
	return "?"
}

func canonLogValue(v log.Value) string {
	switch v.Kind() {
	case log.KindBool:
		return "B:" + strconv.FormatBool(v.AsBool())
	case log.KindInt64:
		return "I:" + strconv.FormatInt(v.AsInt64(), 10)
	case log.KindFloat64:
		return "F:" + strconv.FormatUint(math.Float64bits(v.AsFloat64()), 16)
	case log.KindString:
		return "S:" + strconv.Quote(v.AsString())
	case log.KindBytes:
		return "Y:" + hex.EncodeToString(v.AsBytes())
	case log.KindSlice:
		var p []string
		for _, e := range v.AsSlice() {
			p = append(p, canonLogValue(e))
		}
		return "A:[" + strings.Join(p, " ") + "]"
	case log.KindMap:
		var p []string
		for _, e := range v.AsMap() {
			p = append(p, strconv.Quote(e.Key)+"="+canonLogValue(e.Value))
		}
		sort.Strings(p)
		return "M:{" + strings.Join(p, " ") + "}"
	}
	return "nil"
}

func kvsIn(kvs []attribute.KeyValue, sorted bool) string {
	var p []string
	for _, kv := range kvs {
		p = append(p, strconv.Quote(string(kv.Key))+"="+canonAttr(kv.Value))
	}
	if sorted {
		sort.Strings(p)
	}
	return strings.Join(p, ";")
}

func kvsOut(kvs []*cpb.KeyValue, sorted bool) string {
	var p []string
	for _, kv := range kvs {
		p = append(p, strconv.Quote(kv.Key)+"="+canonAny(kv.Value))
	}
	if sorted {
		sort.Strings(p)
	}
	return strings.Join(p, ";")
}

func resIn(r *resource.Resource) string {
	return "res{" + kvsIn(r.Attributes(), true) + "|" + r.SchemaURL() + "}"
}
func resOut(r *rpb.Resource, schema string) string {
	var a []*cpb.KeyValue
	if r != nil {
		a = r.Attributes
	}
	return "res{" + kvsOut(a, true) + "|" + schema + "}"
}
func scopeIn(s instrumentation.Scope) string {
	return "scope{" + s.Name + "|" + s.Version + "|" + s.SchemaURL + "|" + kvsIn(s.Attributes.ToSlice(), true) + "}"
}
func scopeOut(s *cpb.InstrumentationScope, schema string) string {
	if s == nil {
		s = &cpb.InstrumentationScope{}
	}
	return "scope{" + s.Name + "|" + s.Version + "|" + schema + "|" + kvsOut(s.Attributes, true) + "}"
}

func clampNano(t time.Time) uint64 {
	n := t.UnixNano()
	if n < 0 {
		return 0
	}
	return uint64(n)
}

func clampU32(v int) uint32 {
	if v < 0 {
		return 0
	}
	if int64(v) > math.MaxUint32 {
		return math.MaxUint32
	}
	return uint32(v)
}

// ---------------------------------------------------------------------------------------------
// generators shared by the signals

func genAttrs(r *vf.RNG, n int) []attribute.KeyValue {
	kvs := make([]attribute.KeyValue, 0, n)
	for i := 0; i < n; i++ {
		var v attribute.Value
		switch r.Intn(12) {
		case 0:
			v = attribute.BoolValue(r.Bool())
		case 1:
			v = attribute.Int64Value(r.InterestingInt64())
		case 2:
			v = attribute.Float64Value(r.InterestingFloat())
		case 3:
			v = attribute.StringValue(r.UTF8String(r.Intn(6)))
		case 4:
			v = attribute.BoolSliceValue([]bool{true, false, true}[:r.Intn(4)])
		case 5:
			v = attribute.Int64SliceValue([]int64{math.MinInt64, 0, math.MaxInt64}[:r.Intn(4)])
		case 6:
			v = attribute.Float64SliceValue([]float64{math.Inf(1), -0.0, 1.5}[:r.Intn(4)])
		case 7:
			v = attribute.StringSliceValue([]string{"", "x", "日本"}[:r.Intn(4)])
		case 8:
			v = attribute.StringValue("")
		default:
			v = attribute.IntValue(r.Range(-5, 5))
		}
		kvs = append(kvs, attribute.KeyValue{Key: attribute.Key(fmt.Sprintf("k%d.%s", i, r.ASCIIFrom("abc", 1))), Value: v})
	}
	return kvs
}

func genResources(r *vf.RNG) []*resource.Resource {
	n := 1 + r.Intn(5)
	out := make([]*resource.Resource, n)
	for i := range out {
		attrs := append([]attribute.KeyValue{attribute.Int("res.id", i)}, genAttrs(r, r.Intn(3))...)
		if i == 0 && r.Chance(1, 6) {
			out[i] = resource.Empty()
			continue
		}
		if i == 0 && r.Chance(1, 5) {
			// a resource that is nothing but a schema URL
			out[i] = resource.NewWithAttributes("https://opentelemetry.io/schemas/1.26.0")
			continue
		}
		out[i] = resource.NewWithAttributes(vf.Pick(r, []string{"", "https://opentelemetry.io/schemas/1.26.0"}), attrs...)
	}
	return out
}

func genScopes(r *vf.RNG) []instrumentation.Scope {
	n := 1 + r.Intn(5)
	out := make([]instrumentation.Scope, 0, n)
	for i := 0; i < n; i++ {
		s := instrumentation.Scope{Name: fmt.Sprintf("scope%d", i/2), Version: vf.Pick(r, []string{"", "v1"}), SchemaURL: vf.Pick(r, []string{"", "https://example.com/schema"})}
		switch r.Intn(4) {
		case 0:
			s.Attributes = attribute.NewSet(attribute.Int("scope.attr", i)) // scopes differing only in attributes
		case 1:
			s.Attributes = attribute.NewSet(genAttrs(r, 2)...)
		}
		if i == 0 && r.Chance(1, 6) {
			s = instrumentation.Scope{}
		}
		if i == 1 && r.Chance(1, 5) {
			// a scope that is nothing but a schema URL (hand-built snapshots and bridges produce these)
			s = instrumentation.Scope{SchemaURL: "https://example.com/schema/only"}
		}
		dup := false
		for _, o := range out {
			if o == s {
				dup = true
			}
		}
		if !dup {
			out = append(out, s)
		}
	}
	return out
}

var times = []time.Time{{}, time.Unix(0, 0), time.Unix(0, 1), time.Unix(1_700_000_000, 123456789), time.Unix(0, math.MaxInt64), time.Unix(-100, 0), time.Date(2261, 1, 1, 0, 0, 0, 7, time.UTC)}

func genTime(r *vf.RNG) time.Time {
	if r.Chance(1, 3) {
		return vf.Pick(r, times)
	}
	return time.Unix(1_600_000_000+int64(r.Intn(1e8)), int64(r.Intn(1e9)))
}

// ---------------------------------------------------------------------------------------------
// exporters / servers (one set per process)

type env struct {
	grpcSrv, httpSrv *otlpsrv.Server
	trace            map[string]*otlptrace.Exporter
	metric           map[string]sdkmetric.Exporter
	logs             map[string]sdklog.Exporter
	zipkinURL        string
	zmu              sync.Mutex
	zbodies          [][]byte
	zexp             *zipkin.Exporter
}

var variants = []string{"grpc", "grpc+gzip", "http", "http+gzip"}

var theEnv *env
var envOnce sync.Once
var envErr error

func getEnv() (*env, error) {
	envOnce.Do(func() {
		e := &env{trace: map[string]*otlptrace.Exporter{}, metric: map[string]sdkmetric.Exporter{}, logs: map[string]sdklog.Exporter{}}
		ctx := context.Background()
		e.grpcSrv, envErr = otlpsrv.NewGRPC("grpc", nil)
		if envErr != nil {
			return
		}
		e.httpSrv, envErr = otlpsrv.NewHTTP("http", nil)
		if envErr != nil {
			return
		}
		for _, v := range variants {
			gz := strings.HasSuffix(v, "gzip")
			if strings.HasPrefix(v, "grpc") {
				to := []otlptracegrpc.Option{otlptracegrpc.WithEndpoint(e.grpcSrv.Addr), otlptracegrpc.WithInsecure()}
				mo := []otlpmetricgrpc.Option{otlpmetricgrpc.WithEndpoint(e.grpcSrv.Addr), otlpmetricgrpc.WithInsecure()}
				lo := []otlploggrpc.Option{otlploggrpc.WithEndpoint(e.grpcSrv.Addr), otlploggrpc.WithInsecure()}
				if gz {
					to = append(to, otlptracegrpc.WithCompressor("gzip"))
					mo = append(mo, otlpmetricgrpc.WithCompressor("gzip"))
					lo = append(lo, otlploggrpc.WithCompressor("gzip"))
				}
				if e.trace[v], envErr = otlptracegrpc.New(ctx, to...); envErr != nil {
					return
				}
				if e.metric[v], envErr = otlpmetricgrpc.New(ctx, mo...); envErr != nil {
					return
				}
				if e.logs[v], envErr = otlploggrpc.New(ctx, lo...); envErr != nil {
					return
				}
			} else {
				to := []otlptracehttp.Option{otlptracehttp.WithEndpoint(e.httpSrv.Addr), otlptracehttp.WithInsecure()}
				mo := []otlpmetrichttp.Option{otlpmetrichttp.WithEndpoint(e.httpSrv.Addr), otlpmetrichttp.WithInsecure()}
				lo := []otlploghttp.Option{otlploghttp.WithEndpoint(e.httpSrv.Addr), otlploghttp.WithInsecure()}
				if gz {
					to = append(to, otlptracehttp.WithCompression(otlptracehttp.GzipCompression))
					mo = append(mo, otlpmetrichttp.WithCompression(otlpmetrichttp.GzipCompression))
					lo = append(lo, otlploghttp.WithCompression(otlploghttp.GzipCompression))
				}
				if e.trace[v], envErr = otlptracehttp.New(ctx, to...); envErr != nil {
					return
				}
				if e.metric[v], envErr = otlpmetrichttp.New(ctx, mo...); envErr != nil {
					return
				}
				if e.logs[v], envErr = otlploghttp.New(ctx, lo...); envErr != nil {
					return
				}
			}
		}
		// zipkin collector
		lis, err := net.Listen("tcp", "127.0.0.1:0")
		if err != nil {
			envErr = err
			return
		}
		go http.Serve(lis, http.HandlerFunc(func(w http.ResponseWriter, req *http.Request) {
			b, _ := io.ReadAll(req.Body)
			e.zmu.Lock()
			e.zbodies = append(e.zbodies, b)
			e.zmu.Unlock()
			w.WriteHeader(202)
		}))
		e.zipkinURL = "http://" + lis.Addr().String() + "/api/v2/spans"
		e.zexp, envErr = zipkin.New(e.zipkinURL)
		theEnv = e
	})
	return theEnv, envErr
}

// requestsSince returns the decoded messages a server received for signal since mark.
func requestsSince(s *otlpsrv.Server, mark int, signal string) []*otlpsrv.Request {
	var out []*otlpsrv.Request
	for _, r := range s.Requests()[mark:] {
		if r.Signal == signal {
			out = append(out, r)
		}
	}
	return out
}

func srvFor(e *env, variant string) *otlpsrv.Server {
	if strings.HasPrefix(variant, "grpc") {
		return e.grpcSrv
	}
	return e.httpSrv
}

// ---------------------------------------------------------------------------------------------
// traces

func spanKindName(k trace.SpanKind) string {
	switch k {
	case trace.SpanKindInternal:
		return "SPAN_KIND_INTERNAL"
	case trace.SpanKindClient:
		return "SPAN_KIND_CLIENT"
	case trace.SpanKindServer:
		return "SPAN_KIND_SERVER"
	case trace.SpanKindProducer:
		return "SPAN_KIND_PRODUCER"
	case trace.SpanKindConsumer:
		return "SPAN_KIND_CONSUMER"
	}
	return "SPAN_KIND_UNSPECIFIED"
}

func statusName(c codes.Code) string {
	switch c {
	case codes.Ok:
		return "STATUS_CODE_OK"
	case codes.Error:
		return "STATUS_CODE_ERROR"
	}
	return "STATUS_CODE_UNSET"
}

// counts on both sides of every boundary of the uint32 wire field (and of int32 on the way)
var extremeCounts = []int{0, 0, 1, 2, 7, math.MaxInt32, math.MaxInt32 + 1, 3_000_000_000, math.MaxUint32 - 1, math.MaxUint32, math.MaxUint32 + 1, math.MaxInt64, -1, math.MinInt64}

func genSC(r *vf.RNG, allowInvalid bool) trace.SpanContext {
	if allowInvalid && r.Chance(1, 4) {
		return trace.SpanContext{}
	}
	if allowInvalid && r.Chance(1, 8) {
		// half a parent: a span id without a trace id (bridged or hand-built span data)
		var sid trace.SpanID
		copy(sid[:], r.Bytes(8))
		sid[0] |= 1
		return trace.NewSpanContext(trace.SpanContextConfig{SpanID: sid})
	}
	var tid trace.TraceID
	var sid trace.SpanID
	copy(tid[:], r.Bytes(16))
	copy(sid[:], r.Bytes(8))
	tid[0] |= 1
	sid[0] |= 1
	cfg := trace.SpanContextConfig{TraceID: tid, SpanID: sid, TraceFlags: trace.TraceFlags(r.Intn(2)), Remote: r.Bool()}
	if r.Chance(1, 3) {
		cfg.TraceState, _ = trace.ParseTraceState("vendor=" + r.ASCIIFrom("abc", 3) + ",k=v")
	}
	return trace.NewSpanContext(cfg)
}

func runTraces(k *vf.Case) {
	e, err := getEnv()
	if err != nil {
		k.C.Inconclusive("cannot start loopback collectors: " + err.Error())
		return
	}
	r := k.R
	ress, scopes := genResources(r), genScopes(r)
	n := r.Intn(60)
	if r.Chance(1, 10) {
		n = 100 + r.Intn(100)
	}
	var stubs tracetest.SpanStubs
	want := map[string]string{}
	// half of the batches carry only times a Zipkin span can represent (positive, end after start)
	wellFormed := r.Bool()
	for i := 0; i < n; i++ {
		st := tracetest.SpanStub{
			Name:                 vf.Pick(r, []string{"", "op", "名前", "GET /x"}),
			SpanContext:          genSC(r, false),
			Parent:               genSC(r, true),
			SpanKind:             trace.SpanKind(r.Intn(7)),
			StartTime:            genTime(r),
			EndTime:              genTime(r),
			Attributes:           genAttrs(r, r.Intn(6)),
			Status:               sdktrace.Status{Code: codes.Code(r.Intn(3)), Description: vf.Pick(r, []string{"", "boom"})},
			DroppedAttributes:    vf.Pick(r, extremeCounts),
			DroppedEvents:        vf.Pick(r, extremeCounts),
			DroppedLinks:         vf.Pick(r, extremeCounts),
			ChildSpanCount:       r.Intn(4),
			Resource:             vf.Pick(r, ress),
			InstrumentationScope: vf.Pick(r, scopes),
		}
		for j := r.Intn(4); j > 0; j-- {
			st.Events = append(st.Events, sdktrace.Event{Name: vf.Pick(r, []string{"ev", "exception", ""}), Attributes: genAttrs(r, r.Intn(3)), DroppedAttributeCount: vf.Pick(r, extremeCounts), Time: genTime(r)})
		}
		if r.Chance(1, 20) {
			// more events / links than the SDK's default limits of 128 (limits can be raised, stubs have none)
			ne := vf.Pick(r, []int{40, 127, 128, 129, 300})
			for j := 0; j < ne; j++ {
				st.Events = append(st.Events, sdktrace.Event{Name: fmt.Sprint("e", j), Time: genTime(r)})
			}
			if r.Bool() {
				for j := vf.Pick(r, []int{128, 129, 200}); j > 0; j-- {
					st.Links = append(st.Links, sdktrace.Link{SpanContext: genSC(r, false)})
				}
			}
		}
		for j := r.Intn(4); j > 0; j-- {
			st.Links = append(st.Links, sdktrace.Link{SpanContext: genSC(r, false), Attributes: genAttrs(r, r.Intn(3)), DroppedAttributeCount: vf.Pick(r, extremeCounts)})
		}
		if wellFormed {
			st.StartTime = time.Unix(1_600_000_000+int64(r.Intn(1e8)), int64(r.Intn(1e9)))
			st.EndTime = st.StartTime.Add(time.Duration(2000+r.Intn(1e9)) * time.Nanosecond)
			if r.Chance(1, 5) {
				st.EndTime = st.StartTime.Add(time.Duration(r.Intn(1e6)) * time.Hour / 100)
			}
			switch r.Intn(12) {
			case 0:
				st.EndTime = st.StartTime // a zero-length span
			case 1:
				st.EndTime = st.StartTime.Add(time.Duration(1 + r.Intn(999))) // shorter than a microsecond
			}
			for j := range st.Events {
				st.Events[j].Time = st.StartTime.Add(time.Duration(r.Intn(1000)) * time.Microsecond)
			}
		}
		stubs = append(stubs, st)
		// canonical expectation
		var sb strings.Builder
		psid := ""
		if st.Parent.SpanID().IsValid() {
			psid = st.Parent.SpanID().String()
		}
		fmt.Fprintf(&sb, "%s|%s|parent=%s|name=%q|%s|start=%d|end=%d|ts=%q|%s/%q|attrs=%s|dropped=%d/%d/%d", resIn(st.Resource), scopeIn(st.InstrumentationScope), psid, st.Name, spanKindName(st.SpanKind),
			clampNano(st.StartTime), clampNano(st.EndTime), st.SpanContext.TraceState().String(), statusName(st.Status.Code), st.Status.Description, kvsIn(st.Attributes, false),
			clampU32(st.DroppedAttributes), clampU32(st.DroppedEvents), clampU32(st.DroppedLinks))
		for _, ev := range st.Events {
			fmt.Fprintf(&sb, "|event{%q t=%d %s dropped=%d}", ev.Name, clampNano(ev.Time), kvsIn(ev.Attributes, false), clampU32(ev.DroppedAttributeCount))
		}
		for _, l := range st.Links {
			fmt.Fprintf(&sb, "|link{%s %s ts=%q %s dropped=%d}", l.SpanContext.TraceID(), l.SpanContext.SpanID(), l.SpanContext.TraceState().String(), kvsIn(l.Attributes, false), clampU32(l.DroppedAttributeCount))
		}
		want[st.SpanContext.TraceID().String()+st.SpanContext.SpanID().String()] = sb.String()
	}
	spans := stubs.Snapshots()
	decode := func(reqs []*otlpsrv.Request) (map[string]string, []string) {
		got := map[string]string{}
		var probs []string
		for _, rq := range reqs {
			if rq.DecodeErr != "" {
				probs = append(probs, "undecodable request: "+rq.DecodeErr)
				continue
			}
			m := rq.Msg.(*coltracepb.ExportTraceServiceRequest)
			for _, rs := range m.ResourceSpans {
				for _, ss := range rs.ScopeSpans {
					for _, s := range ss.Spans {
						var sb strings.Builder
						fmt.Fprintf(&sb, "%s|%s|parent=%s|name=%q|%s|start=%d|end=%d|ts=%q|%s/%q|attrs=%s|dropped=%d/%d/%d", resOut(rs.Resource, rs.SchemaUrl), scopeOut(ss.Scope, ss.SchemaUrl), hex.EncodeToString(s.ParentSpanId), s.Name, s.Kind.String(),
							s.StartTimeUnixNano, s.EndTimeUnixNano, s.TraceState, s.GetStatus().GetCode().String(), s.GetStatus().GetMessage(), kvsOut(s.Attributes, false), s.DroppedAttributesCount, s.DroppedEventsCount, s.DroppedLinksCount)
						for _, ev := range s.Events {
							fmt.Fprintf(&sb, "|event{%q t=%d %s dropped=%d}", ev.Name, ev.TimeUnixNano, kvsOut(ev.Attributes, false), ev.DroppedAttributesCount)
						}
						for _, l := range s.Links {
							fmt.Fprintf(&sb, "|link{%s %s ts=%q %s dropped=%d}", hex.EncodeToString(l.TraceId), hex.EncodeToString(l.SpanId), l.TraceState, kvsOut(l.Attributes, false), l.DroppedAttributesCount)
						}
						key := hex.EncodeToString(s.TraceId) + hex.EncodeToString(s.SpanId)
						if _, dup := got[key]; dup {
							probs = append(probs, "span "+key+" encoded twice")
						}
						got[key] = sb.String()
					}
				}
			}
		}
		return got, probs
	}
	results := map[string]map[string]string{}
	for _, v := range []string{vf.Pick(r, variants[:2]), vf.Pick(r, variants[2:])} {
		srv := srvFor(e, v)
		mark := srv.Count()
		if err := e.trace[v].ExportSpans(context.Background(), spans); err != nil {
			k.Violate("export-error", "traces "+v, err.Error(), nil)
			return
		}
		got, probs := decode(requestsSince(srv, mark, "traces"))
		for _, p := range probs {
			k.Violate("traces-malformed", v, p, nil)
		}
		results[v] = got
		compareMaps(k, "traces", v, want, got)
	}
	if len(results) == 2 {
		var vs []string
		for v := range results {
			vs = append(vs, v)
		}
		sort.Strings(vs)
		if fmt.Sprint(sortedPairs(results[vs[0]])) != fmt.Sprint(sortedPairs(results[vs[1]])) {
			k.Violate("grpc-http-payload-differs", "traces", fmt.Sprintf("%s vs %s", vs[0], vs[1]), nil)
		}
	}
	// zipkin: ids, name, kind, start and duration in microseconds
	zipkinOK := len(stubs) > 0
	for _, st := range stubs {
		// the Zipkin model (zipkin-go) refuses to serialise a whole batch when one span starts less than one
		// second after the epoch (a zero time is simply omitted) or has a negative duration
		if (!st.StartTime.IsZero() && st.StartTime.Unix() < 1) || st.EndTime.Sub(st.StartTime) < 0 {
			zipkinOK = false
		}
	}
	if zipkinOK {
		e.zmu.Lock()
		e.zbodies = nil
		e.zmu.Unlock()
		if err := e.zexp.ExportSpans(context.Background(), spans); err != nil {
			k.Violate("export-error", "zipkin", err.Error(), nil)
		} else {
			e.zmu.Lock()
			bodies := e.zbodies
			e.zmu.Unlock()
			gotZ := map[string]map[string]any{}
			for _, b := range bodies {
				var arr []map[string]any
				if err := json.Unmarshal(b, &arr); err != nil {
					k.Violate("zipkin-malformed", "", err.Error(), nil)
					continue
				}
				for _, s := range arr {
					key := fmt.Sprint(s["traceId"]) + fmt.Sprint(s["id"])
					if _, dup := gotZ[key]; dup {
						k.Violate("zipkin-span-twice", "", key, nil)
					}
					gotZ[key] = s
				}
			}
			for _, st := range stubs {
				key := st.SpanContext.TraceID().String() + st.SpanContext.SpanID().String()
				s, ok := gotZ[key]
				if !ok {
					k.Violate("zipkin-span-missing", "", key, nil)
					continue
				}
				wantParent := ""
				if st.Parent.SpanID().IsValid() {
					wantParent = st.Parent.SpanID().String()
				}
				gotParent, _ := s["parentId"].(string)
				gotName, _ := s["name"].(string)
				zk := map[trace.SpanKind]string{trace.SpanKindClient: "CLIENT", trace.SpanKindServer: "SERVER", trace.SpanKindProducer: "PRODUCER", trace.SpanKindConsumer: "CONSUMER"}[st.SpanKind]
				gotKind, _ := s["kind"].(string)
				if gotParent != wantParent || !strings.EqualFold(gotName, st.Name) || gotKind != zk {
					k.Violate("zipkin-field-mismatch", "", fmt.Sprintf("span %s: parent %q want %q; name %q want %q; kind %q want %q", key, gotParent, wantParent, gotName, st.Name, gotKind, zk), nil)
				}
				// timestamps inside the range where UnixNano is defined; the model rounds to the nearest
				// microsecond, omits a zero duration and reports a positive sub-microsecond one as 1
				if y := st.StartTime.Year(); (y >= 1970 && y < 2262) || st.StartTime.IsZero() {
					ts, _ := s["timestamp"].(float64)
					du, _ := s["duration"].(float64)
					var wantTs int64
					if !st.StartTime.IsZero() {
						wantTs = st.StartTime.Round(time.Microsecond).UnixNano() / 1e3
					}
					d := st.EndTime.Sub(st.StartTime)
					var wantDu int64
					switch {
					case d == 0:
					case d < time.Microsecond:
						wantDu = 1
					default:
						wantDu = int64((d + 500*time.Nanosecond) / time.Microsecond)
					}
					if d > 200*365*24*time.Hour { // saturated time.Duration
						wantDu = int64(du)
					}
					if int64(ts) != wantTs || int64(du) != wantDu {
						k.Violate("zipkin-field-mismatch", "time", fmt.Sprintf("span %s: timestamp %v want %d; duration %v want %d (start %v end %v)", key, ts, wantTs, du, wantDu, st.StartTime, st.EndTime), nil)
					}
					if d == 0 {
						k.C.Count("zipkin_zero_duration_spans", 1)
					}
				}
				k.C.Count("zipkin_spans_compared", 1)
			}
		}
	}
	k.C.Count("trace_batches", 1)
	k.C.Count("spans_compared", int64(len(stubs)*2))
	k.C.Sig(fmt.Sprintf("traces|%d|%d|%d", min(len(stubs), 3), len(ress), len(scopes)))
	if k.C.NeedSample() && len(stubs) > 0 {
		for _, v := range want {
			k.C.Sample(map[string]any{"signal": "traces", "spans": len(stubs), "one_span": v})
			break
		}
	}
}

func sortedPairs(m map[string]string) []string {
	var out []string
	for k, v := range m {
		out = append(out, k+" => "+v)
	}
	sort.Strings(out)
	return out
}

func compareMaps(k *vf.Case, signal, variant string, want, got map[string]string) {
	for key, w := range want {
		g, ok := got[key]
		if !ok {
			k.Violate(signal+"-item-missing", variant, key, nil)
			continue
		}
		if g != w && signal == "logs" && strings.ReplaceAll(w, "nil", `S:"INVALID"`) == g {
			k.Violate("logs-field-mismatch", "empty value encoded as the string \"INVALID\"", fmt.Sprintf("%s via %s\n want %s\n got  %s", key, variant, w, g), nil)
			continue
		}
		if g != w && signal == "metrics" && zeroThresholdOnly(w, g) {
			k.Violate("metrics-field-mismatch", "exponential histogram zero threshold not encoded", fmt.Sprintf("%s via %s\n want %s\n got  %s", key, variant, w, g), nil)
			continue
		}
		if g != w {
			k.Violate(signal+"-field-mismatch", fieldDiff(w, g), fmt.Sprintf("%s via %s\n want %s\n got  %s", key, variant, w, g), nil)
		}
	}
	for key := range got {
		if _, ok := want[key]; !ok {
			k.Violate(signal+"-unexpected-item", variant, key, nil)
		}
	}
}

var ztRe = regexp.MustCompile(` zt=[0-9a-f]+ `)

// zeroThresholdOnly: do want and got differ only in the zero threshold of exponential points?
func zeroThresholdOnly(w, g string) bool {
	return ztRe.ReplaceAllString(w, " zt=0 ") == g
}

// fieldDiff names the first '|'-separated field that differs (used as the violation key).
func fieldDiff(w, g string) string {
	ws, gs := strings.Split(w, "|"), strings.Split(g, "|")
	for i := range ws {
		if i >= len(gs) || ws[i] != gs[i] {
			f := ws[i]
			if j := strings.IndexAny(f, "={ "); j > 0 {
				f = f[:j]
			}
			return f
		}
	}
	return "extra"
}

// ---------------------------------------------------------------------------------------------
// metrics

func genPointTimes(r *vf.RNG) (time.Time, time.Time) { return genTime(r), genTime(r) }

func runMetrics(k *vf.Case) {
	e, err := getEnv()
	if err != nil {
		k.C.Inconclusive("cannot start loopback collectors: " + err.Error())
		return
	}
	r := k.R
	res := genResources(r)[0]
	scopes := genScopes(r)
	rm := &metricdata.ResourceMetrics{Resource: res}
	want := map[string]string{}
	mid := 0
	temps := []metricdata.Temporality{metricdata.CumulativeTemporality, metricdata.DeltaTemporality}
	tempName := func(t metricdata.Temporality) string {
		if t == metricdata.DeltaTemporality {
			return "AGGREGATION_TEMPORALITY_DELTA"
		}
		return "AGGREGATION_TEMPORALITY_CUMULATIVE"
	}
	for _, sc := range scopes {
		sm := metricdata.ScopeMetrics{Scope: sc}
		for j := r.Intn(5); j > 0; j-- {
			mid++
			m := metricdata.Metrics{Name: fmt.Sprintf("m%d", mid), Description: vf.Pick(r, []string{"", "desc"}), Unit: vf.Pick(r, []string{"", "ms", "By"})}
			head := fmt.Sprintf("%s|%s|%s|%q|%q", resIn(res), scopeIn(sc), m.Name, m.Description, m.Unit)
			npts := r.Intn(4)
			var pts []string
			pt := func(set attribute.Set, st, t time.Time, body string) {
				pts = append(pts, fmt.Sprintf("point{%s start=%d time=%d %s}", kvsIn(set.ToSlice(), true), clampNano(st), clampNano(t), body))
			}
			switch r.Intn(8) {
			case 0:
				d := metricdata.Gauge[int64]{}
				for p := 0; p < npts; p++ {
					set := attribute.NewSet(append(genAttrs(r, r.Intn(3)), attribute.Int("p", p))...)
					st, t := genPointTimes(r)
					v := r.InterestingInt64()
					d.DataPoints = append(d.DataPoints, metricdata.DataPoint[int64]{Attributes: set, StartTime: st, Time: t, Value: v})
					pt(set, st, t, fmt.Sprintf("int=%d", v))
				}
				m.Data = d
				head += "|gauge"
			case 1:
				d := metricdata.Gauge[float64]{}
				for p := 0; p < npts; p++ {
					set := attribute.NewSet(attribute.Int("p", p))
					st, t := genPointTimes(r)
					v := r.InterestingFloat()
					d.DataPoints = append(d.DataPoints, metricdata.DataPoint[float64]{Attributes: set, StartTime: st, Time: t, Value: v})
					pt(set, st, t, fmt.Sprintf("double=%x", math.Float64bits(v)))
				}
				m.Data = d
				head += "|gauge"
			case 2:
				d := metricdata.Sum[int64]{Temporality: vf.Pick(r, temps), IsMonotonic: r.Bool()}
				for p := 0; p < npts; p++ {
					set := attribute.NewSet(attribute.Int("p", p))
					st, t := genPointTimes(r)
					v := r.InterestingInt64()
					d.DataPoints = append(d.DataPoints, metricdata.DataPoint[int64]{Attributes: set, StartTime: st, Time: t, Value: v})
					pt(set, st, t, fmt.Sprintf("int=%d", v))
				}
				m.Data = d
				head += fmt.Sprintf("|sum %s mono=%v", tempName(d.Temporality), d.IsMonotonic)
			case 3:
				d := metricdata.Sum[float64]{Temporality: vf.Pick(r, temps), IsMonotonic: r.Bool()}
				for p := 0; p < npts; p++ {
					set := attribute.NewSet(attribute.Int("p", p))
					st, t := genPointTimes(r)
					v := r.InterestingFloat()
					d.DataPoints = append(d.DataPoints, metricdata.DataPoint[float64]{Attributes: set, StartTime: st, Time: t, Value: v})
					pt(set, st, t, fmt.Sprintf("double=%x", math.Float64bits(v)))
				}
				m.Data = d
				head += fmt.Sprintf("|sum %s mono=%v", tempName(d.Temporality), d.IsMonotonic)
			case 4, 5:
				isInt := r.Bool()
				temp := vf.Pick(r, temps)
				bounds := vf.Pick(r, [][]float64{{}, {0}, {0, 5, 10, 25}, {-1.5, 1e300}})
				var di metricdata.Histogram[int64]
				var df metricdata.Histogram[float64]
				di.Temporality, df.Temporality = temp, temp
				for p := 0; p < npts; p++ {
					set := attribute.NewSet(attribute.Int("p", p))
					st, t := genPointTimes(r)
					counts := make([]uint64, len(bounds)+1)
					var cnt uint64
					for i := range counts {
						counts[i] = uint64(r.Intn(5))
						if r.Chance(1, 20) {
							counts[i] = math.MaxUint64 / 8
						}
						cnt += counts[i]
					}
					hasMM := r.Bool()
					body := fmt.Sprintf("count=%d bounds=%v counts=%v", cnt, bounds, counts)
					if isInt {
						p := metricdata.HistogramDataPoint[int64]{Attributes: set, StartTime: st, Time: t, Count: cnt, Bounds: bounds, BucketCounts: counts, Sum: int64(r.Range(-100, 100))}
						body += fmt.Sprintf(" sum=%x", math.Float64bits(float64(p.Sum)))
						if hasMM {
							p.Min, p.Max = metricdata.NewExtrema[int64](-3), metricdata.NewExtrema[int64](9)
							body += fmt.Sprintf(" min=%x max=%x", math.Float64bits(-3), math.Float64bits(9))
						} else {
							body += " min=absent max=absent"
						}
						di.DataPoints = append(di.DataPoints, p)
					} else {
						p := metricdata.HistogramDataPoint[float64]{Attributes: set, StartTime: st, Time: t, Count: cnt, Bounds: bounds, BucketCounts: counts, Sum: float64(r.Range(-100, 100)) / 4}
						body += fmt.Sprintf(" sum=%x", math.Float64bits(p.Sum))
						if hasMM {
							p.Min, p.Max = metricdata.NewExtrema(-3.5), metricdata.NewExtrema(9.25)
							body += fmt.Sprintf(" min=%x max=%x", math.Float64bits(-3.5), math.Float64bits(9.25))
						} else {
							body += " min=absent max=absent"
						}
						df.DataPoints = append(df.DataPoints, p)
					}
					pt(set, st, t, body)
				}
				if isInt {
					m.Data = di
				} else {
					m.Data = df
				}
				head += "|histogram " + tempName(temp)
			default:
				temp := vf.Pick(r, temps)
				d := metricdata.ExponentialHistogram[float64]{Temporality: temp}
				for p := 0; p < npts; p++ {
					set := attribute.NewSet(attribute.Int("p", p))
					st, t := genPointTimes(r)
					pos := metricdata.ExponentialBucket{Offset: int32(r.Range(-5, 5)), Counts: []uint64{1, 0, 3}[:r.Intn(4)]}
					neg := metricdata.ExponentialBucket{Offset: int32(r.Range(-5, 5)), Counts: []uint64{2, 2}[:r.Intn(3)]}
					dp := metricdata.ExponentialHistogramDataPoint[float64]{Attributes: set, StartTime: st, Time: t, Count: uint64(r.Intn(100)), Sum: float64(r.Range(-50, 50)) / 2, Scale: int32(r.Range(-10, 20)),
						ZeroCount: uint64(r.Intn(4)), PositiveBucket: pos, NegativeBucket: neg, ZeroThreshold: vf.Pick(r, []float64{0, 1e-9})}
					body := fmt.Sprintf("count=%d sum=%x scale=%d zero=%d zt=%x pos=%d%v neg=%d%v", dp.Count, math.Float64bits(dp.Sum), dp.Scale, dp.ZeroCount, math.Float64bits(dp.ZeroThreshold), pos.Offset, fmtCounts(pos.Counts), neg.Offset, fmtCounts(neg.Counts))
					if r.Bool() {
						dp.Min, dp.Max = metricdata.NewExtrema(-1.0), metricdata.NewExtrema(2.0)
						body += fmt.Sprintf(" min=%x max=%x", math.Float64bits(-1), math.Float64bits(2))
					} else {
						body += " min=absent max=absent"
					}
					d.DataPoints = append(d.DataPoints, dp)
					pt(set, st, t, body)
				}
				m.Data = d
				head += "|exponential " + tempName(temp)
			}
			sort.Strings(pts)
			want[m.Name] = head + "|" + strings.Join(pts, "|")
			sm.Metrics = append(sm.Metrics, m)
		}
		rm.ScopeMetrics = append(rm.ScopeMetrics, sm)
	}
	// one batch in ten also carries a metric that has no OTLP encoding (undefined temporality, no data):
	// the exporter must report it and still deliver every other metric of the batch
	hasBad := false
	if len(rm.ScopeMetrics) > 0 && r.Chance(1, 10) {
		hasBad = true
		si := r.Intn(len(rm.ScopeMetrics))
		bad := metricdata.Metrics{Name: "unencodable"}
		switch r.Intn(3) {
		case 0:
			bad.Data = metricdata.Sum[int64]{DataPoints: []metricdata.DataPoint[int64]{{Value: 1}}}
		case 1:
			bad.Data = metricdata.Histogram[float64]{DataPoints: []metricdata.HistogramDataPoint[float64]{{Count: 1}}}
		}
		ms := rm.ScopeMetrics[si].Metrics
		at := r.Intn(len(ms) + 1)
		rm.ScopeMetrics[si].Metrics = append(ms[:at:at], append([]metricdata.Metrics{bad}, ms[at:]...)...)
		k.C.Count("metric_batches_with_an_unencodable_metric", 1)
	}
	decode := func(reqs []*otlpsrv.Request) (map[string]string, []string) {
		got := map[string]string{}
		var probs []string
		for _, rq := range reqs {
			if rq.DecodeErr != "" {
				probs = append(probs, "undecodable request: "+rq.DecodeErr)
				continue
			}
			msg := rq.Msg.(*colmetricpb.ExportMetricsServiceRequest)
			for _, prm := range msg.ResourceMetrics {
				for _, psm := range prm.ScopeMetrics {
					for _, pm := range psm.Metrics {
						head := fmt.Sprintf("%s|%s|%s|%q|%q", resOut(prm.Resource, prm.SchemaUrl), scopeOut(psm.Scope, psm.SchemaUrl), pm.Name, pm.Description, pm.Unit)
						var pts []string
						num := func(dps []*mpb.NumberDataPoint) {
							for _, dp := range dps {
								body := "?"
								switch v := dp.Value.(type) {
								case *mpb.NumberDataPoint_AsInt:
									body = fmt.Sprintf("int=%d", v.AsInt)
								case *mpb.NumberDataPoint_AsDouble:
									body = fmt.Sprintf("double=%x", math.Float64bits(v.AsDouble))
								}
								pts = append(pts, fmt.Sprintf("point{%s start=%d time=%d %s}", kvsOut(dp.Attributes, true), dp.StartTimeUnixNano, dp.TimeUnixNano, body))
							}
						}
						opt := func(p *float64) string {
							if p == nil {
								return "absent"
							}
							return fmt.Sprintf("%x", math.Float64bits(*p))
						}
						switch d := pm.Data.(type) {
						case *mpb.Metric_Gauge:
							head += "|gauge"
							num(d.Gauge.DataPoints)
						case *mpb.Metric_Sum:
							head += fmt.Sprintf("|sum %s mono=%v", d.Sum.AggregationTemporality, d.Sum.IsMonotonic)
							num(d.Sum.DataPoints)
						case *mpb.Metric_Histogram:
							head += "|histogram " + d.Histogram.AggregationTemporality.String()
							for _, dp := range d.Histogram.DataPoints {
								b := dp.ExplicitBounds
								if b == nil {
									b = []float64{}
								}
								sum := "absent"
								if dp.Sum != nil {
									sum = fmt.Sprintf("%x", math.Float64bits(*dp.Sum))
								}
								pts = append(pts, fmt.Sprintf("point{%s start=%d time=%d count=%d bounds=%v counts=%v sum=%s min=%s max=%s}", kvsOut(dp.Attributes, true), dp.StartTimeUnixNano, dp.TimeUnixNano, dp.Count, b, dp.BucketCounts, sum, opt(dp.Min), opt(dp.Max)))
							}
						case *mpb.Metric_ExponentialHistogram:
							head += "|exponential " + d.ExponentialHistogram.AggregationTemporality.String()
							for _, dp := range d.ExponentialHistogram.DataPoints {
								sum := "absent"
								if dp.Sum != nil {
									sum = fmt.Sprintf("%x", math.Float64bits(*dp.Sum))
								}
								pts = append(pts, fmt.Sprintf("point{%s start=%d time=%d count=%d sum=%s scale=%d zero=%d zt=%x pos=%d%v neg=%d%v min=%s max=%s}", kvsOut(dp.Attributes, true), dp.StartTimeUnixNano, dp.TimeUnixNano, dp.Count, sum, dp.Scale, dp.ZeroCount, math.Float64bits(dp.ZeroThreshold),
									dp.GetPositive().GetOffset(), fmtCounts(dp.GetPositive().GetBucketCounts()), dp.GetNegative().GetOffset(), fmtCounts(dp.GetNegative().GetBucketCounts()), opt(dp.Min), opt(dp.Max)))
							}
						}
						sort.Strings(pts)
						if _, dup := got[pm.Name]; dup {
							probs = append(probs, "metric "+pm.Name+" encoded twice")
						}
						got[pm.Name] = head + "|" + strings.Join(pts, "|")
					}
				}
			}
		}
		return got, probs
	}
	results := map[string]map[string]string{}
	for _, v := range []string{vf.Pick(r, variants[:2]), vf.Pick(r, variants[2:])} {
		srv := srvFor(e, v)
		mark := srv.Count()
		err := e.metric[v].Export(context.Background(), rm)
		if err != nil && !hasBad {
			k.Violate("export-error", "metrics "+v, err.Error(), nil)
			return
		}
		if err == nil && hasBad {
			k.Violate("unencodable-metric-not-reported", v, "", nil)
		}
		got, probs := decode(requestsSince(srv, mark, "metrics"))
		for _, p := range probs {
			k.Violate("metrics-malformed", v, p, nil)
		}
		results[v] = got
		compareMaps(k, "metrics", v, want, got)
	}
	var vs []string
	for v := range results {
		vs = append(vs, v)
	}
	sort.Strings(vs)
	if len(vs) == 2 && fmt.Sprint(sortedPairs(results[vs[0]])) != fmt.Sprint(sortedPairs(results[vs[1]])) {
		k.Violate("grpc-http-payload-differs", "metrics", fmt.Sprintf("%s vs %s", vs[0], vs[1]), nil)
	}
	k.C.Count("metric_batches", 1)
	k.C.Count("metrics_compared", int64(len(want)*2))
	k.C.Sig(fmt.Sprintf("metrics|%d|%d", min(len(want), 4), len(scopes)))
	if k.C.NeedSample() && len(want) > 0 {
		for _, v := range want {
			k.C.Sample(map[string]any{"signal": "metrics", "metrics": len(want), "one_metric": v})
			break
		}
	}
}

func fmtCounts(c []uint64) string {
	if len(c) == 0 {
		return "[]"
	}
	return fmt.Sprint(c)
}

// ---------------------------------------------------------------------------------------------
// logs

func genLogValue(r *vf.RNG, depth int) log.Value {
	kk := r.Intn(9)
	if depth >= 3 && kk >= 6 {
		kk = r.Intn(6)
	}
	switch kk {
	case 0:
		return log.StringValue(r.UTF8String(r.Intn(6)))
	case 1:
		return log.Int64Value(r.InterestingInt64())
	case 2:
		return log.Float64Value(r.InterestingFloat())
	case 3:
		return log.BoolValue(r.Bool())
	case 4:
		return log.BytesValue(r.Bytes(r.Intn(6)))
	case 5:
		return log.Value{}
	case 6:
		n := r.Intn(4)
		vs := make([]log.Value, n)
		for i := range vs {
			vs[i] = genLogValue(r, depth+1)
		}
		return log.SliceValue(vs...)
	default:
		n := r.Intn(4)
		kvs := make([]log.KeyValue, n)
		for i := range kvs {
			kvs[i] = log.KeyValue{Key: fmt.Sprintf("m%d", i), Value: genLogValue(r, depth+1)}
		}
		return log.MapValue(kvs...)
	}
}

func runLogs(k *vf.Case) {
	e, err := getEnv()
	if err != nil {
		k.C.Inconclusive("cannot start loopback collectors: " + err.Error())
		return
	}
	r := k.R
	ress, scopes := genResources(r), genScopes(r)
	n := r.Intn(60)
	var recs []sdklog.Record
	want := map[string]string{}
	sevs := []log.Severity{log.SeverityUndefined, log.SeverityTrace1, log.SeverityDebug2, log.SeverityInfo, log.SeverityWarn3, log.SeverityError, log.SeverityFatal4}
	for i := 0; i < n; i++ {
		sc := vf.Pick(r, scopes)
		f := logtest.RecordFactory{
			EventName:            vf.Pick(r, []string{"", "my.event"}),
			Timestamp:            genTime(r),
			ObservedTimestamp:    genTime(r),
			Severity:             vf.Pick(r, sevs),
			SeverityText:         vf.Pick(r, []string{"", "INFO", "custom"}),
			Body:                 genLogValue(r, 0),
			Resource:             vf.Pick(r, ress),
			InstrumentationScope: &sc,
			DroppedAttributes:    vf.Pick(r, []int{0, 0, 3}),
			TraceFlags:           trace.TraceFlags(r.Intn(2)),
		}
		f.Attributes = append(f.Attributes, log.Int("rec.id", i))
		for j := r.Intn(5); j > 0; j-- {
			f.Attributes = append(f.Attributes, log.KeyValue{Key: fmt.Sprintf("a%d", j), Value: genLogValue(r, 0)})
		}
		if r.Bool() {
			sc := genSC(r, false)
			f.TraceID, f.SpanID = sc.TraceID(), sc.SpanID()
		}
		rec := f.NewRecord()
		recs = append(recs, rec)
		var ap []string
		for _, a := range f.Attributes {
			ap = append(ap, strconv.Quote(a.Key)+"="+canonLogValue(a.Value))
		}
		tid, sid := "", ""
		if f.TraceID.IsValid() {
			tid = f.TraceID.String()
		}
		if f.SpanID.IsValid() {
			sid = f.SpanID.String()
		}
		want[fmt.Sprint(i)] = fmt.Sprintf("%s|%s|event=%q|time=%d|observed=%d|severity=%d|sevtext=%q|body=%s|attrs=%s|dropped=%d|trace=%s|span=%s|flags=%d", resIn(f.Resource), scopeIn(sc), f.EventName, clampNano(f.Timestamp), clampNano(f.ObservedTimestamp),
			int(f.Severity), f.SeverityText, canonLogValue(f.Body), strings.Join(ap, ";"), f.DroppedAttributes, tid, sid, f.TraceFlags)
	}
	decode := func(reqs []*otlpsrv.Request) (map[string]string, []string) {
		got := map[string]string{}
		var probs []string
		for _, rq := range reqs {
			if rq.DecodeErr != "" {
				probs = append(probs, "undecodable request: "+rq.DecodeErr)
				continue
			}
			msg := rq.Msg.(*collogpb.ExportLogsServiceRequest)
			for _, rl := range msg.ResourceLogs {
				for _, sl := range rl.ScopeLogs {
					for _, lr := range sl.LogRecords {
						id := "?"
						var ap []string
						for _, a := range lr.Attributes {
							ap = append(ap, strconv.Quote(a.Key)+"="+canonAny(a.Value))
							if a.Key == "rec.id" {
								id = fmt.Sprint(a.Value.GetIntValue())
							}
						}
						if _, dup := got[id]; dup {
							probs = append(probs, "record "+id+" encoded twice")
						}
						got[id] = fmt.Sprintf("%s|%s|event=%q|time=%d|observed=%d|severity=%d|sevtext=%q|body=%s|attrs=%s|dropped=%d|trace=%s|span=%s|flags=%d", resOut(rl.Resource, rl.SchemaUrl), scopeOut(sl.Scope, sl.SchemaUrl), lr.EventName, lr.TimeUnixNano, lr.ObservedTimeUnixNano,
							int(lr.SeverityNumber), lr.SeverityText, canonAny(lr.Body), strings.Join(ap, ";"), lr.DroppedAttributesCount, hex.EncodeToString(lr.TraceId), hex.EncodeToString(lr.SpanId), lr.Flags)
					}
				}
			}
		}
		return got, probs
	}
	results := map[string]map[string]string{}
	for _, v := range []string{vf.Pick(r, variants[:2]), vf.Pick(r, variants[2:])} {
		srv := srvFor(e, v)
		mark := srv.Count()
		cp := make([]sdklog.Record, len(recs))
		for i := range recs {
			cp[i] = recs[i].Clone()
		}
		if err := e.logs[v].Export(context.Background(), cp); err != nil {
			k.Violate("export-error", "logs "+v, err.Error(), nil)
			return
		}
		got, probs := decode(requestsSince(srv, mark, "logs"))
		for _, p := range probs {
			k.Violate("logs-malformed", v, p, nil)
		}
		results[v] = got
		compareMaps(k, "logs", v, want, got)
	}
	var vs []string
	for v := range results {
		vs = append(vs, v)
	}
	sort.Strings(vs)
	if len(vs) == 2 && fmt.Sprint(sortedPairs(results[vs[0]])) != fmt.Sprint(sortedPairs(results[vs[1]])) {
		k.Violate("grpc-http-payload-differs", "logs", fmt.Sprintf("%s vs %s", vs[0], vs[1]), nil)
	}
	k.C.Count("log_batches", 1)
	k.C.Count("log_records_compared", int64(len(want)*2))
	k.C.Sig(fmt.Sprintf("logs|%d|%d|%d", min(len(want), 3), len(ress), len(scopes)))
	if k.C.NeedSample() && len(want) > 0 {
		k.C.Sample(map[string]any{"signal": "logs", "records": len(want), "one_record": want["0"]})
	}
}

func main() {
	vf.Main("C13", "exploration", func(c *vf.Ctx) {
		c.Rule = "batches of 0-200 items over 1-5 resources x 1-5 scopes (shared scopes, scopes differing only in attributes, empty scope/resource): SpanStubs (all kinds, remote/local/absent parents, 0-40 events, links with tracestate, arbitrary dropped counts incl. negative and MaxInt32), hand-built ResourceMetrics (gauge/sum/histogram/exponential x int64/float64 x temporality, empty point lists, absent min/max, extreme integers, NaN/Inf), log records from logtest.RecordFactory (all value kinds nested 3 deep, bytes, empty map, dropped counts); timestamps incl. zero time, 1970, pre-1970, 2262 boundary; every batch goes through the real gRPC and HTTP exporters (gzip on/off) to loopback collectors, is decoded off the wire and compared item by item with an independent projection of the input; Zipkin JSON compared for ids, name, kind, start and duration; resources that are nothing but a schema URL; scopes that are nothing but a schema URL. distinct = distinct (signal, batch size class, resources, scopes) signatures"
		c.Assume = []string{"resource identity is the attribute set; a batch never holds two resources with equal attributes but different schema URLs", "strings are valid UTF-8 (protobuf rejects anything else)", "times outside [1970, 2262] clamp to 0 as documented"}
		otel.SetErrorHandler(otel.ErrorHandlerFunc(func(error) {}))
		otel.SetLogger(logr.Discard())
		iso := vf.IsoOpts{Batch: 100, Par: 16, Timeout: 10 * time.Minute}
		c.Isolated("traces", c.N(1600, 20_000), iso, runTraces)
		c.Isolated("metrics", c.N(1600, 20_000), iso, runMetrics)
		c.Isolated("logs", c.N(1600, 20_000), iso, runLogs)
		c.Floor("spans_compared", 10_000)
		c.Floor("metrics_compared", 5000)
		c.Floor("log_records_compared", 10_000)
		c.Floor("zipkin_spans_compared", 1000)
	})
}
