// C06 — log batch processor: once, in emission order, bounded batches, exclusive export, immutable.
package main

import (
	"context"
	"errors"
	"fmt"
	"os"
	"runtime"
	"sort"
	"strings"
	"sync"
	"sync/atomic"
	"time"

	"github.com/go-logr/logr"
	"go.opentelemetry.io/otel"
	"go.opentelemetry.io/otel/log"
	sdklog "go.opentelemetry.io/otel/sdk/log"

	"verifharness/vf"
)

// ---------------------------------------------------------------------------------------------
// logr sink: "dropped log records" warnings

type sink struct {
	mu      sync.Mutex
	dropped int64
	records int64
}

func (s *sink) Init(logr.RuntimeInfo)          {}
func (s *sink) Enabled(int) bool               { return true }
func (s *sink) Error(error, string, ...any)    {}
func (s *sink) WithValues(...any) logr.LogSink { return s }
func (s *sink) WithName(string) logr.LogSink   { return s }
func (s *sink) Info(_ int, msg string, kv ...any) {
	if msg != "dropped log records" {
		return
	}
	s.mu.Lock()
	defer s.mu.Unlock()
	for i := 0; i+1 < len(kv); i += 2 {
		if k, _ := kv[i].(string); k == "dropped" {
			switch v := kv[i+1].(type) {
			case uint64:
				s.dropped += int64(v)
			case int:
				s.dropped += int64(v)
			case int64:
				s.dropped += v
			}
			s.records++
		}
	}
}
func (s *sink) reset() { s.mu.Lock(); s.dropped, s.records = 0, 0; s.mu.Unlock() }
func (s *sink) get() int64 {
	s.mu.Lock()
	defer s.mu.Unlock()
	return s.dropped
}

var theSink = &sink{}

var prevAbandoned bool

// ---------------------------------------------------------------------------------------------

type recID struct{ p, seq int }

type exportEv struct {
	enter, exit uint64
	ids         []recID
	mutated     []string
	deadline    bool
	err         bool
}

type exporter struct {
	mu        sync.Mutex
	events    []exportEv
	inFlight  int32
	overlaps  int32
	shutdowns []uint64
	flushes   int
	calls     int
	mode      int // 0 instant, 1 slow, 2 error every k, 3 block until ctx expires, 4 gate
	k         int
	sleep     time.Duration
	gate      chan struct{}
	gateOnce  sync.Once
}

func (e *exporter) openGate() { e.gateOnce.Do(func() { close(e.gate) }) }

const nAttrs = 8 // id + k1..k7: spills into the record's overflow slice

func describe(r *sdklog.Record) (recID, string) {
	id := recID{-1, -1}
	var bad []string
	n := 0
	r.WalkAttributes(func(kv log.KeyValue) bool {
		n++
		switch {
		case kv.Key == "id":
			v := kv.Value.AsInt64()
			id = recID{int(v >> 32), int(v & 0xffffffff)}
		case strings.HasPrefix(kv.Key, "k"):
			if kv.Value.Kind() != log.KindString || kv.Value.AsString() != "v"+kv.Key[1:] {
				bad = append(bad, fmt.Sprintf("%s=%s", kv.Key, kv.Value.String()))
			}
		default:
			bad = append(bad, "extra attribute "+kv.Key)
		}
		return true
	})
	if n != nAttrs {
		bad = append(bad, fmt.Sprintf("%d attributes", n))
	}
	if want := fmt.Sprintf("%d-%d", id.p, id.seq); r.Body().Kind() != log.KindString || r.Body().AsString() != want {
		bad = append(bad, "body="+r.Body().String())
	}
	if r.Severity() != log.SeverityInfo {
		bad = append(bad, fmt.Sprintf("severity=%v", r.Severity()))
	}
	return id, strings.Join(bad, ",")
}

func (e *exporter) Export(ctx context.Context, rs []sdklog.Record) error {
	if atomic.AddInt32(&e.inFlight, 1) != 1 {
		atomic.AddInt32(&e.overlaps, 1)
	}
	defer atomic.AddInt32(&e.inFlight, -1)
	ev := exportEv{enter: vf.Tick()}
	for i := range rs {
		id, bad := describe(&rs[i])
		ev.ids = append(ev.ids, id)
		if bad != "" {
			ev.mutated = append(ev.mutated, fmt.Sprintf("%v: %s", id, bad))
		}
	}
	_, ev.deadline = ctx.Deadline()
	e.mu.Lock()
	e.calls++
	n := e.calls
	e.mu.Unlock()
	var err error
	switch e.mode {
	case 1:
		time.Sleep(e.sleep)
	case 2:
		if n%e.k == 0 {
			err = errors.New("scripted export failure")
		}
	case 3:
		if n%e.k == 0 {
			<-ctx.Done()
			err = ctx.Err()
		}
	case 4:
		select {
		case <-e.gate:
		case <-ctx.Done():
			err = ctx.Err()
		}
	}
	ev.err = err != nil
	ev.exit = vf.Tick()
	e.mu.Lock()
	e.events = append(e.events, ev)
	e.mu.Unlock()
	return err
}

func (e *exporter) Shutdown(context.Context) error {
	e.mu.Lock()
	e.shutdowns = append(e.shutdowns, vf.Tick())
	e.mu.Unlock()
	return nil
}

func (e *exporter) ForceFlush(context.Context) error {
	e.mu.Lock()
	e.flushes++
	e.mu.Unlock()
	return nil
}

// mutator edits the very *Record after the batch processor has seen it.
type mutator struct{}

func (mutator) OnEmit(_ context.Context, r *sdklog.Record) error {
	r.SetBody(log.StringValue("MUTATED"))
	r.AddAttributes(log.String("k7", "MUTATED"), log.String("k2", "MUTATED"), log.String("zz", "added"))
	r.SetSeverity(log.SeverityFatal)
	return nil
}
func (mutator) Shutdown(context.Context) error   { return nil }
func (mutator) ForceFlush(context.Context) error { return nil }

// ---------------------------------------------------------------------------------------------

type emitRec struct {
	id        recID
	call, ret uint64
}

type callRec struct {
	kind      string
	call, ret uint64
	err       error
	ctxKind   string
}

type cfg struct {
	Queue, Batch, Buffer int
	Interval, Timeout    time.Duration
	ExpMode              int
	Producers            int
	PerProducer          int
	Flushers             int
	Shutdowners          int
	Procs                int
}

func (c cfg) String() string {
	return fmt.Sprintf("queue=%d batch=%d buffer=%d interval=%v timeout=%v exporter=%s producers=%dx%d flushers=%d shutdowners=%d procs=%d",
		c.Queue, c.Batch, c.Buffer, c.Interval, c.Timeout, []string{"instant", "slow", "erroring", "ctx-blocking", "gated"}[c.ExpMode], c.Producers, c.PerProducer, c.Flushers, c.Shutdowners, c.Procs)
}

func genCfg(r *vf.RNG) cfg {
	c := cfg{
		Queue:       vf.Pick(r, []int{1, 2, 8, 64, 2048}),
		Batch:       vf.Pick(r, []int{1, 2, 7, 512}),
		Buffer:      vf.Pick(r, []int{1, 2, 8}),
		Interval:    vf.Pick(r, []time.Duration{time.Millisecond, 10 * time.Millisecond, time.Hour}),
		Timeout:     vf.Pick(r, []time.Duration{time.Millisecond, time.Second}),
		ExpMode:     vf.Pick(r, []int{0, 0, 1, 2, 3, 4}),
		Producers:   vf.Pick(r, []int{1, 2, 4, 8, 16}),
		Flushers:    r.Intn(3),
		Shutdowners: vf.Pick(r, []int{0, 0, 0, 1, 2}),
		Procs:       vf.Pick(r, []int{2, 4, 16}),
	}
	c.PerProducer = 1 + r.Intn(400/c.Producers+1)
	if c.ExpMode == 3 {
		c.Timeout = 2 * time.Millisecond
	}
	return c
}

func effBatch(c cfg) int {
	if c.Batch > c.Queue {
		return c.Queue // documented clamp
	}
	return c.Batch
}

// focused family: Emit, ForceFlush and Shutdown all overlapping, with a slow exporter and a tiny export
// buffer, so that the windows around the final flush of Shutdown are exercised densely.
func runShutdownRace(k *vf.Case) {
	runWith(k, func(r *vf.RNG) cfg {
		return cfg{Queue: vf.Pick(r, []int{8, 64, 2048}), Batch: vf.Pick(r, []int{1, 2}), Buffer: vf.Pick(r, []int{1, 2}),
			Interval: vf.Pick(r, []time.Duration{time.Millisecond, 10 * time.Millisecond}), Timeout: time.Second,
			ExpMode: vf.Pick(r, []int{0, 1, 1}), Producers: vf.Pick(r, []int{2, 4, 8}), PerProducer: 10 + r.Intn(40),
			Flushers: 2 + r.Intn(2), Shutdowners: 1, Procs: vf.Pick(r, []int{2, 4, 16})}
	})
}

func runHistory(k *vf.Case) { runWith(k, genCfg) }

func runWith(k *vf.Case, gen func(*vf.RNG) cfg) {
	r := k.R
	c := gen(r)
	prev := runtime.GOMAXPROCS(c.Procs)
	defer runtime.GOMAXPROCS(prev)
	theSink.reset()

	exp := &exporter{mode: c.ExpMode, k: 2 + r.Intn(3), sleep: time.Duration(100+r.Intn(2000)) * time.Microsecond, gate: make(chan struct{})}
	bp := sdklog.NewBatchProcessor(exp, sdklog.WithMaxQueueSize(c.Queue), sdklog.WithExportMaxBatchSize(c.Batch), sdklog.WithExportBufferSize(c.Buffer),
		sdklog.WithExportInterval(c.Interval), sdklog.WithExportTimeout(c.Timeout))
	lp := sdklog.NewLoggerProvider(sdklog.WithProcessor(bp), sdklog.WithProcessor(mutator{}))
	lg := lp.Logger("c06")

	var mu sync.Mutex
	var emits []emitRec
	var calls []callRec
	var done sync.WaitGroup
	release := make(chan struct{})
	var producersLeft atomic.Int32
	producersLeft.Store(int32(c.Producers))

	for p := 0; p < c.Producers; p++ {
		seed := r.U64()
		done.Add(1)
		go func(p int) {
			defer done.Done()
			defer producersLeft.Add(-1)
			pr := vf.NewRNG(seed)
			<-release
			local := make([]emitRec, 0, c.PerProducer)
			for i := 0; i < c.PerProducer; i++ {
				var rec log.Record
				rec.SetBody(log.StringValue(fmt.Sprintf("%d-%d", p, i)))
				rec.SetSeverity(log.SeverityInfo)
				rec.AddAttributes(log.Int64("id", int64(p)<<32|int64(i)), log.String("k1", "v1"), log.String("k2", "v2"), log.String("k3", "v3"),
					log.String("k4", "v4"), log.String("k5", "v5"), log.String("k6", "v6"), log.String("k7", "v7"))
				er := emitRec{id: recID{p, i}}
				er.call = vf.Tick()
				lg.Emit(context.Background(), rec)
				er.ret = vf.Tick()
				local = append(local, er)
				if pr.Chance(1, 16) {
					runtime.Gosched()
				}
			}
			mu.Lock()
			emits = append(emits, local...)
			mu.Unlock()
		}(p)
	}
	mkCtx := func(fr *vf.RNG) (context.Context, context.CancelFunc, string) {
		switch fr.Intn(5) {
		case 0:
			ctx, cancel := context.WithCancel(context.Background())
			cancel()
			return ctx, cancel, "cancelled"
		case 1:
			ctx, cancel := context.WithTimeout(context.Background(), time.Duration(50+fr.Intn(2000))*time.Microsecond)
			return ctx, cancel, "short-deadline"
		default:
			ctx, cancel := context.WithTimeout(context.Background(), 30*time.Second)
			return ctx, cancel, "live"
		}
	}
	for f := 0; f < c.Flushers; f++ {
		seed := r.U64()
		done.Add(1)
		go func() {
			defer done.Done()
			fr := vf.NewRNG(seed)
			<-release
			for producersLeft.Load() > 0 {
				time.Sleep(time.Duration(fr.Intn(800)) * time.Microsecond)
				ctx, cancel, kind := mkCtx(fr)
				cr := callRec{kind: "flush", ctxKind: kind}
				cr.call = vf.Tick()
				if fr.Bool() {
					cr.err = lp.ForceFlush(ctx)
				} else {
					cr.err = bp.ForceFlush(ctx)
				}
				cr.ret = vf.Tick()
				cancel()
				mu.Lock()
				calls = append(calls, cr)
				mu.Unlock()
			}
		}()
	}
	for s := 0; s < c.Shutdowners; s++ {
		seed := r.U64()
		done.Add(1)
		go func() {
			defer done.Done()
			sr := vf.NewRNG(seed)
			<-release
			time.Sleep(time.Duration(sr.Intn(3000)) * time.Microsecond)
			ctx, cancel, kind := mkCtx(sr)
			cr := callRec{kind: "shutdown", ctxKind: kind}
			cr.call = vf.Tick()
			cr.err = bp.Shutdown(ctx) // the processor's own Shutdown; the provider layer is C15
			cr.ret = vf.Tick()
			cancel()
			mu.Lock()
			calls = append(calls, cr)
			mu.Unlock()
		}()
	}
	if c.ExpMode == 4 {
		d := time.Duration(200+r.Intn(3000)) * time.Microsecond
		done.Add(1)
		go func() {
			defer done.Done()
			<-release
			time.Sleep(d)
			exp.openGate()
		}()
	}
	finished, stuck, desc := vf.Watch(90*time.Second, 2*time.Second, func() {
		close(release)
		done.Wait()
	})
	if !finished {
		exp.openGate()
		if stuck {
			k.Violate("hang", "log batch processor", fmt.Sprintf("%s\n%s", c, desc), nil)
		} else {
			k.C.Inconclusive("history did not finish within the watchdog: " + c.String())
		}
		return
	}
	exp.openGate()

	bg := context.Background()
	midShutdown := c.Shutdowners > 0
	if !midShutdown {
		cr := callRec{kind: "flush", ctxKind: "live"}
		cr.call = vf.Tick()
		cr.err = bp.ForceFlush(bg)
		cr.ret = vf.Tick()
		calls = append(calls, cr)
	}
	// shutdown bookkeeping: a Shutdown that gave up on its context consumes the one shutdown
	abandoned, concurrentShutdown := false, false
	var firstShutdownCall uint64 = ^uint64(0)
	var firstShutdownRet uint64
	for _, cr := range calls {
		if cr.kind == "shutdown" {
			if cr.err != nil {
				abandoned = true
			}
			if cr.call < firstShutdownCall {
				firstShutdownCall, firstShutdownRet = cr.call, cr.ret
			}
		}
	}
	cr := callRec{kind: "shutdown", ctxKind: "live"}
	cr.call = vf.Tick()
	cr.err = bp.Shutdown(bg)
	cr.ret = vf.Tick()
	calls = append(calls, cr)
	if cr.call < firstShutdownCall {
		firstShutdownCall, firstShutdownRet = cr.call, cr.ret
	}
	lp.Shutdown(bg)
	if abandoned {
		for i := 0; i < 3000; i++ {
			exp.mu.Lock()
			n := len(exp.shutdowns)
			exp.mu.Unlock()
			if n > 0 && atomic.LoadInt32(&exp.inFlight) == 0 {
				break
			}
			time.Sleep(time.Millisecond)
		}
		k.C.Count("histories_with_abandoned_shutdown", 1)
	}
	// late emit/flush after shutdown must stay quiet
	var late log.Record
	late.SetBody(log.StringValue("99-0"))
	late.AddAttributes(log.Int64("id", int64(99)<<32))
	lg.Emit(bg, late)
	bp.ForceFlush(bg)
	time.Sleep(time.Duration(r.Intn(300)) * time.Microsecond)

	// ------------------------------------------------------------------ oracle
	exp.mu.Lock()
	events := append([]exportEv(nil), exp.events...)
	expShutdowns := append([]uint64(nil), exp.shutdowns...)
	exp.mu.Unlock()
	sort.Slice(events, func(i, j int) bool { return events[i].enter < events[j].enter })
	fail := func(class, key, detail string) {
		var sb strings.Builder
		for _, cr := range calls {
			fmt.Fprintf(&sb, " %s(%s)[%d,%d]err=%v", cr.kind, cr.ctxKind, cr.call, cr.ret, cr.err != nil)
		}
		sb.WriteString("\n exports:")
		for i, ev := range events {
			if i > 40 {
				fmt.Fprintf(&sb, " …(%d more)", len(events)-i)
				break
			}
			fmt.Fprintf(&sb, " [%d,%d]n=%d", ev.enter, ev.exit, len(ev.ids))
		}
		k.Violate(class, key, fmt.Sprintf("%s\n%s\n calls:%s", c, detail, sb.String()), nil)
	}
	for _, cr := range calls {
		if cr.kind == "shutdown" && cr.call != firstShutdownCall && cr.call < firstShutdownRet {
			concurrentShutdown = true
		}
	}
	skey := func(key string, cr callRec) string {
		switch {
		case abandoned:
			return key + " [after a Shutdown call gave up on its context]"
		case cr.kind == "shutdown" && cr.call != firstShutdownCall && cr.call < firstShutdownRet:
			return key + " [Shutdown call concurrent with the first Shutdown]"
		}
		return key
	}
	byID := map[recID]*emitRec{}
	for i := range emits {
		byID[emits[i].id] = &emits[i]
	}
	exportedAt := map[recID]uint64{}
	lastSeq := map[int]int{}
	exportedN := 0
	bmax := effBatch(c)
	for _, ev := range events {
		if len(ev.ids) > bmax {
			fail("batch-too-large", "", fmt.Sprintf("export of %d records > max batch %d", len(ev.ids), bmax))
		}
		if len(ev.ids) == 0 {
			fail("empty-export", "", "")
		}
		if !ev.deadline {
			fail("export-without-deadline", "", "")
		}
		for _, m := range ev.mutated {
			fail("exported-record-reflects-later-mutation", "", m)
		}
		for _, id := range ev.ids {
			if id.p == 99 {
				fail("exported-after-shutdown", "late record", "")
				continue
			}
			if _, dup := exportedAt[id]; dup {
				fail("record-exported-twice", "", fmt.Sprintf("record %v", id))
			}
			exportedAt[id] = ev.enter
			exportedN++
			if _, ok := byID[id]; !ok {
				fail("unknown-record-exported", "", fmt.Sprint(id))
				continue
			}
			if last, ok := lastSeq[id.p]; ok && id.seq <= last {
				fail("out-of-emission-order", "", fmt.Sprintf("producer %d: record %d exported after %d", id.p, id.seq, last))
			}
			lastSeq[id.p] = id.seq
		}
	}
	if n := atomic.LoadInt32(&exp.overlaps); n > 0 {
		fail("exporter-invoked-concurrently", "", fmt.Sprintf("%d overlapping Export calls", n))
	}
	if len(expShutdowns) != 1 {
		fail("exporter-shutdown-count", skey("", callRec{}), fmt.Sprint(len(expShutdowns)))
	}
	emitted := len(emits)
	// sorted return tickets for the overwrite-soundness rule
	rets := make([]uint64, 0, len(emits))
	for _, e := range emits {
		rets = append(rets, e.ret)
	}
	sort.Slice(rets, func(i, j int) bool { return rets[i] < rets[j] })
	laterEnqueues := func(r *emitRec) int { // |{x : x.ret > r.call}| - 1 (r itself)
		i := sort.Search(len(rets), func(i int) bool { return rets[i] > r.call })
		return len(rets) - i - 1
	}
	for _, cr := range calls {
		if cr.err != nil {
			continue
		}
		if cr.kind == "shutdown" {
			for _, ev := range events {
				if ev.enter > cr.ret {
					fail("exported-after-shutdown", skey(cr.ctxKind, cr), fmt.Sprintf("Shutdown returned nil at %d, Export entered at %d", cr.ret, ev.enter))
					break
				}
			}
		} else if cr.ret > firstShutdownCall {
			continue
		}
		missing, illegit := 0, 0
		var example *emitRec
		for i := range emits {
			e := &emits[i]
			if e.ret >= cr.call || e.ret > firstShutdownCall {
				continue
			}
			at, ok := exportedAt[e.id]
			if ok && at <= cr.ret {
				continue
			}
			missing++
			if laterEnqueues(e) < c.Queue {
				illegit++
				example = e
			}
		}
		if illegit > 0 {
			fail("record-not-exported-by-"+cr.kind+"-return", skey(cr.ctxKind, cr), fmt.Sprintf("%d records emitted before %s (call %d ret %d) were not exported by its return and cannot have been overwritten (fewer than %d later enqueues); e.g. %+v exportedAt=%d", illegit, cr.kind, cr.call, cr.ret, c.Queue, *example, exportedAt[example.id]))
		}
		if missing > 0 {
			k.C.Count("records_legitimately_overwritten_at_checkpoints", int64(missing-illegit))
		}
		k.C.Count("visibility_checks", 1)
	}
	// The warning is written by the poll goroutine, which a Shutdown that gave up on its context does
	// not wait for: its last record may arrive after the next history of this process has begun, so
	// the clause is evaluated only when neither this nor the preceding history had such a Shutdown.
	skipLogged := abandoned || prevAbandoned
	prevAbandoned = abandoned
	if logged := theSink.get(); skipLogged {
		k.C.Count("logged_drop_clause_skipped", 1)
	} else if logged > int64(emitted-exportedN) {
		fail("logged-drops-exceed-missing", "", fmt.Sprintf("SDK logged %d dropped records, but only %d are missing", logged, emitted-exportedN))
	} else if logged > 0 {
		k.C.Count("histories_with_logged_drops", 1)
		k.C.Count("sdk_logged_dropped", logged)
	}
	if emitted <= c.Queue && !abandoned && exportedN != emitted {
		// concurrent Emit/Shutdown may lose the records whose Emit overlapped the shutdown
		lost := 0
		for i := range emits {
			if _, ok := exportedAt[emits[i].id]; !ok && emits[i].ret < firstShutdownCall {
				lost++
			}
		}
		if lost > 0 {
			fail("record-lost-without-overflow", "", fmt.Sprintf("%d records emitted before any Shutdown were never exported although the queue (%d) cannot have overflowed (%d emitted)", lost, c.Queue, emitted))
		}
	}

	// evidence
	k.C.Count("histories", 1)
	k.C.Count("records_emitted", int64(emitted))
	k.C.Count("records_exported", int64(exportedN))
	k.C.Count("exports", int64(len(events)))
	if emitted > c.Queue && exportedN < emitted {
		k.C.Count("histories_with_ring_overflow", 1)
	}
	flushOverlap := false
	for _, ev := range events {
		if ev.err {
			k.C.Count("exports_failed", 1)
		}
		for _, cr := range calls {
			if cr.kind == "flush" && cr.call < ev.exit && ev.enter < cr.ret {
				flushOverlap = true
			}
		}
	}
	partial := false
	for _, cr := range calls {
		if cr.kind == "flush" && cr.err != nil && strings.Contains(cr.err.Error(), "partial flush") {
			partial = true
		}
	}
	if flushOverlap {
		k.C.Count("histories_flush_overlaps_export", 1)
	}
	if partial {
		k.C.Count("histories_with_partial_flush", 1)
	}
	if midShutdown {
		k.C.Count("histories_mid_run_shutdown", 1)
	}
	if concurrentShutdown {
		k.C.Count("histories_concurrent_shutdown", 1)
	}
	k.C.Sig(fmt.Sprintf("q%d|b%d|buf%d|%v|%v|e%d|p%d|f%d|s%d|ovf=%v|fo=%v|pf=%v", c.Queue, c.Batch, c.Buffer, c.Interval, c.Timeout, c.ExpMode, c.Producers, c.Flushers, c.Shutdowners, exportedN < emitted, flushOverlap, partial))
	if k.C.NeedSample() {
		k.C.Sample(map[string]any{"config": c.String(), "emitted": emitted, "exported": exportedN, "exports": len(events), "calls": len(calls), "sdk_logged_dropped": theSink.get()})
	}
}

func main() {
	vf.Main("C06", "exploration", func(c *vf.Ctx) {
		c.Rule = "seeded concurrent histories against the real log BatchProcessor followed by a mutating processor: producers x (producer,seq)-tagged 8-attribute records, flushers (live/short-deadline/cancelled contexts), mid-run and concurrent Shutdown callers, configurations queue{1,2,8,64,2048} x batch{1,2,7,512} x buffer{1,2,8} x interval{1ms,10ms,1h} x timeout{1ms,1s}, exporters instant/slow/erroring/ctx-blocking/gate-blocked, GOMAXPROCS{2,4,16}; one history at a time per child process. distinct = distinct (configuration, overflow seen, flush||export overlap, partial flush) signatures"
		c.Assume = []string{"a record missing at a successful ForceFlush/Shutdown return is accepted only if at least queueSize Emit calls returned after its Emit was called (overwrite-soundness rule)", "ForceFlush calls overlapping or following a Shutdown are covered by the Shutdown's guarantee", "the batch bound is min(batch, queue) (documented clamp)"}
		if c.IsChild() || os.Getenv("VF_REPLAY_ISOLATE") == "" {
			otel.SetLogger(logr.New(theSink))
			otel.SetErrorHandler(otel.ErrorHandlerFunc(func(error) {}))
		}
		n := c.N(3000, 36000)
		c.Isolated("histories", n, vf.IsoOpts{Batch: 50, Par: 16, Timeout: 10 * time.Minute}, runHistory)
		c.Isolated("shutdown-race", c.N(3000, 36000), vf.IsoOpts{Batch: 50, Par: 16, Timeout: 10 * time.Minute}, runShutdownRace)
		c.Floor("histories", int64(n*18/10))
		c.Floor("histories_with_ring_overflow", 10)
		c.Floor("histories_flush_overlaps_export", 10)
		c.Floor("visibility_checks", 200)
	})
}
