// C03 — W3C trace-context round trip; malformed headers never accepted; tracestate edits.
package main

import (
	"context"
	"fmt"
	"net/http"
	"strings"

	"go.opentelemetry.io/otel/propagation"
	"go.opentelemetry.io/otel/trace"

	"verifharness/vf"
)

// ---------------------------------------------------------------------------------------------
// Independent recognisers, written from the W3C ABNF (no code shared with the repository).

func isLHex(c byte) bool { return c >= '0' && c <= '9' || c >= 'a' && c <= 'f' }

type tpInfo struct {
	ok      bool
	version string
	tid     string
	sid     string
	flags   string
}

// recogniseTraceparent: version-format for 00 is exactly 55 bytes; higher versions (not ff) need the
// 55-byte prefix and, when longer, a '-' at offset 55.
func recogniseTraceparent(h string) tpInfo {
	if len(h) < 55 {
		return tpInfo{}
	}
	if h[2] != '-' || h[35] != '-' || h[52] != '-' {
		return tpInfo{}
	}
	for i := 0; i < 55; i++ {
		if i == 2 || i == 35 || i == 52 {
			continue
		}
		if !isLHex(h[i]) {
			return tpInfo{}
		}
	}
	v := h[0:2]
	if v == "ff" {
		return tpInfo{}
	}
	if v == "00" && len(h) != 55 && !(len(h) == 56 && h[55] == '-') {
		// The statement constrains what is *re-injected*; the repository's own suite pins a single
		// trailing '-' on a version-00 header as accepted ("B3 format ending in dash"), so that one
		// leniency is not treated as "malformed accepted". Anything else after the flags is.
		return tpInfo{}
	}
	if len(h) > 55 && h[55] != '-' {
		return tpInfo{}
	}
	tid, sid := h[3:35], h[36:52]
	if tid == strings.Repeat("0", 32) || sid == strings.Repeat("0", 16) {
		return tpInfo{}
	}
	return tpInfo{ok: true, version: v, tid: tid, sid: sid, flags: h[53:55]}
}

func isLcAlpha(c byte) bool { return c >= 'a' && c <= 'z' }
func isDigit(c byte) bool   { return c >= '0' && c <= '9' }
func isKeyChar(c byte) bool {
	return isLcAlpha(c) || isDigit(c) || c == '_' || c == '-' || c == '*' || c == '/'
}

// keyLegalL1: trace-context level 1 grammar (the one the repository documents).
func keyLegalL1(k string) bool {
	at := strings.IndexByte(k, '@')
	part := func(s string, first func(byte) bool, maxRest int) bool {
		if len(s) == 0 || !first(s[0]) || len(s)-1 > maxRest {
			return false
		}
		for i := 1; i < len(s); i++ {
			if !isKeyChar(s[i]) {
				return false
			}
		}
		return true
	}
	if at < 0 {
		return part(k, isLcAlpha, 255)
	}
	return part(k[:at], func(c byte) bool { return isLcAlpha(c) || isDigit(c) }, 240) &&
		part(k[at+1:], isLcAlpha, 13)
}

// keyLegalAny: the union of level 1 and the level 2 draft grammar (key = (lcalpha/DIGIT)
// 0*255(keychar/"@")). Used for the "never accepts malformed" direction so the check never demands
// more than W3C conformance.
func keyLegalAny(k string) bool {
	if keyLegalL1(k) {
		return true
	}
	if len(k) == 0 || len(k) > 256 || !(isLcAlpha(k[0]) || isDigit(k[0])) {
		return false
	}
	for i := 1; i < len(k); i++ {
		if !isKeyChar(k[i]) && k[i] != '@' {
			return false
		}
	}
	return true
}

func valueLegal(v string) bool {
	if len(v) == 0 || len(v) > 256 {
		return false
	}
	for i := 0; i < len(v); i++ {
		c := v[i]
		if c < 0x20 || c > 0x7e || c == ',' || c == '=' {
			return false
		}
	}
	return v[len(v)-1] != ' '
}

// recogniseTracestate checks a header *produced by the library* (strict form: no OWS, no empty
// members): 1..32 members, unique legal keys, legal values. Returns reason when it fails.
func recogniseTracestate(h string) (members [][2]string, reason string) {
	if h == "" {
		return nil, ""
	}
	seen := map[string]bool{}
	for _, m := range strings.Split(h, ",") {
		eq := strings.IndexByte(m, '=')
		if eq < 0 {
			return nil, "member without '='"
		}
		k, v := m[:eq], m[eq+1:]
		if !keyLegalAny(k) {
			return nil, "illegal key " + vf.Quote(k)
		}
		if !valueLegal(v) {
			return nil, "illegal value " + vf.Quote(v)
		}
		if seen[k] {
			return nil, "duplicate key " + vf.Quote(k)
		}
		seen[k] = true
		members = append(members, [2]string{k, v})
	}
	if len(members) > 32 {
		return nil, fmt.Sprintf("%d members", len(members))
	}
	return members, ""
}

// ---------------------------------------------------------------------------------------------
// Generators

const keyAlpha = "abcdefghijklmnopqrstuvwxyz0123456789_-*/"
const valAlpha = " !\"#$%&'()*+-./0123456789:;<>?@ABCXYZ[\\]^_`abcxyz{|}~"

func genKey(r *vf.RNG) string {
	switch r.Intn(10) {
	case 0: // max simple key
		return "k" + r.ASCIIFrom(keyAlpha, 255)
	case 1: // max multi tenant
		return r.ASCIIFrom("abc019", 1) + r.ASCIIFrom(keyAlpha, 240) + "@" + "s" + r.ASCIIFrom(keyAlpha, 13)
	case 2:
		return r.ASCIIFrom("abc09", 1) + r.ASCIIFrom(keyAlpha, r.Intn(6)) + "@" + r.ASCIIFrom("xyz", 1) + r.ASCIIFrom(keyAlpha, r.Intn(14))
	case 3:
		return r.ASCIIFrom("abcdefgh", 1)
	default:
		return r.ASCIIFrom("abcdefghijklmnopqrstuvwxyz", 1) + r.ASCIIFrom(keyAlpha, r.Intn(12))
	}
}

func genValue(r *vf.RNG) string {
	n := 1
	switch r.Intn(8) {
	case 0:
		n = 256
	case 1:
		n = 255
	default:
		n = 1 + r.Intn(12)
	}
	v := r.ASCIIFrom(valAlpha, n)
	if v[len(v)-1] == ' ' {
		v = v[:len(v)-1] + "x"
	}
	return v
}

// almost-valid keys/values for the negative direction
func genBadKey(r *vf.RNG) string {
	switch r.Intn(12) {
	case 0:
		return ""
	case 1:
		return "k" + r.ASCIIFrom(keyAlpha, 256) // 257
	case 2:
		return "A" + r.ASCIIFrom(keyAlpha, 3)
	case 3:
		return "a" + string(vf.Pick(r, []rune{0x0161, 0x0130, 0x017f, 0x212a, 0x0431, 0xff41})) // low byte aliases
	case 4:
		return "1abc" // digit first, simple key (L2-legal!)
	case 5:
		return r.ASCIIFrom(keyAlpha, 242) + "@sys" // tenant too long
	case 6:
		return "t@" + "s" + r.ASCIIFrom(keyAlpha, 14) // system too long
	case 7:
		return "t@1s"
	case 8:
		return "a b"
	case 9:
		return "a@b@c"
	case 10:
		return "a" + string([]byte{byte(0x80 + r.Intn(0x80))})
	default:
		return "a" + r.HostileString(2)
	}
}

func genBadValue(r *vf.RNG) string {
	switch r.Intn(8) {
	case 0:
		return ""
	case 1:
		return r.ASCIIFrom("abc", 257)
	case 2:
		return "a,b"
	case 3:
		return "a=b"
	case 4:
		return "ab "
	case 5:
		return "a\tb"
	case 6:
		return "a" + string([]byte{byte(0x7f + r.Intn(0x81))})
	default:
		return r.HostileString(3)
	}
}

func genMembers(r *vf.RNG, n int) [][2]string {
	seen := map[string]bool{}
	var ms [][2]string
	for len(ms) < n {
		k := genKey(r)
		if seen[k] {
			continue
		}
		seen[k] = true
		ms = append(ms, [2]string{k, genValue(r)})
	}
	return ms
}

func joinMembers(ms [][2]string) string {
	var p []string
	for _, m := range ms {
		p = append(p, m[0]+"="+m[1])
	}
	return strings.Join(p, ",")
}

func genCount(r *vf.RNG) int {
	switch r.Intn(8) {
	case 0:
		return 32
	case 1:
		return 31
	case 2:
		return 0
	default:
		return 1 + r.Intn(6)
	}
}

const lhex = "0123456789abcdef"

func genValidTP(r *vf.RNG) (string, trace.TraceID, trace.SpanID, byte) {
	var tid trace.TraceID
	var sid trace.SpanID
	copy(tid[:], r.Bytes(16))
	copy(sid[:], r.Bytes(8))
	switch r.Intn(8) {
	case 0:
		tid = trace.TraceID{}
		tid[r.Intn(16)] = 1
	case 1:
		sid = trace.SpanID{}
		sid[r.Intn(8)] = 0x80
	case 2: // both 64-bit halves alike (a 64-bit id widened by repetition), all ones, one bit in each half
		copy(tid[8:], tid[:8])
	case 3:
		for i := range tid {
			tid[i] = 0xff
		}
		if r.Bool() {
			tid = trace.TraceID{}
			tid[7], tid[15] = 1, 1
		}
	}
	// validity by the harness's own reading of the specification: any non-zero byte
	nonZero := func(b []byte) bool {
		for _, x := range b {
			if x != 0 {
				return true
			}
		}
		return false
	}
	if !nonZero(tid[:]) {
		tid[15] = 1
	}
	if !nonZero(sid[:]) {
		sid[7] = 1
	}
	flags := byte(r.Intn(3))
	return fmt.Sprintf("00-%s-%s-%02x", tid, sid, flags), tid, sid, flags
}

func mutate(r *vf.RNG, h string) string {
	b := []byte(h)
	for k := 0; k < 1+r.Intn(2); k++ {
		if len(b) == 0 {
			b = append(b, '0')
		}
		i := r.Intn(len(b))
		switch r.Intn(14) {
		case 0:
			b[i] = byte(r.U64())
		case 1: // case flip
			if b[i] >= 'a' && b[i] <= 'f' {
				b[i] -= 32
			}
		case 2: // delete byte
			b = append(b[:i], b[i+1:]...)
		case 3: // insert byte
			b = append(b[:i], append([]byte{lhex[r.Intn(16)]}, b[i:]...)...)
		case 4: // version
			v := vf.Pick(r, []string{"00", "01", "fe", "ff", "FF", "0g", "cc", "02"})
			if len(b) >= 2 {
				b[0], b[1] = v[0], v[1]
			}
		case 5: // flags
			if len(b) >= 55 {
				f := fmt.Sprintf("%02x", r.Intn(256))
				b[53], b[54] = f[0], f[1]
			}
		case 6: // trailing
			b = append(b, vf.Pick(r, []string{"-", "-00", "-extra-stuff", "00", " ", "\x00", ".", "--"})...)
		case 7: // zero trace id
			if len(b) >= 35 {
				copy(b[3:35], strings.Repeat("0", 32))
			}
		case 8: // zero span id
			if len(b) >= 52 {
				copy(b[36:52], strings.Repeat("0", 16))
			}
		case 9: // delimiter
			for _, p := range []int{2, 35, 52} {
				if p < len(b) && r.Chance(1, 3) {
					b[p] = vf.Pick(r, []byte{'_', ' ', '-', '0', ':'})
				}
			}
		case 10: // whitespace
			if r.Bool() {
				b = append([]byte(" "), b...)
			} else {
				b = append(b, ' ')
			}
		case 11: // non-hex letter
			b[i] = vf.Pick(r, []byte{'g', 'G', 'x', 0xc5, 0xa1, 0x00})
		case 12: // upper-case whole id
			b = []byte(strings.ToUpper(string(b)))
		case 13: // multi-byte rune whose low byte is hex
			b = append(b[:i], append([]byte(string(rune(0x0100+int(lhex[r.Intn(16)])))), b[i:]...)...)
		}
	}
	return string(b)
}

func genTracestateHeader(r *vf.RNG) string {
	// grammar-aware fuzzer: valid members mixed with OWS, empty members, bad members, duplicates
	n := genCount(r)
	if r.Chance(1, 10) {
		n = 33 + r.Intn(3)
	}
	ms := genMembers(r, n)
	var parts []string
	for _, m := range ms {
		s := m[0] + "=" + m[1]
		switch r.Intn(14) {
		case 0:
			s = " " + s
		case 1:
			s = s + " \t"
		case 2:
			s = "\t" + s + " "
		case 3:
			parts = append(parts, "")
		case 4:
			parts = append(parts, vf.Pick(r, []string{" ", "\t", "  "}))
		}
		parts = append(parts, s)
	}
	switch r.Intn(12) {
	case 0: // duplicate
		if len(ms) > 0 {
			parts = append(parts, ms[r.Intn(len(ms))][0]+"=dup")
		}
	case 1:
		parts = append(parts, genBadKey(r)+"="+genValue(r))
	case 2:
		parts = append(parts, genKey(r)+"="+genBadValue(r))
	case 3:
		parts = append(parts, "novalue")
	case 4:
		parts = append(parts, genKey(r)+" ="+genValue(r))
	case 5:
		parts = append(parts, "=")
	case 6:
		i := r.Intn(len(parts) + 1)
		parts = append(parts[:i], append([]string{genBadKey(r) + "=" + genValue(r)}, parts[i:]...)...)
	}
	h := strings.Join(parts, ",")
	if r.Chance(1, 10) {
		h = mutate(r, h)
	}
	return h
}

// ---------------------------------------------------------------------------------------------

type hdrCarrier struct {
	m    map[string]string
	gets []string
}

func (c *hdrCarrier) Get(k string) string { c.gets = append(c.gets, k); return c.m[k] }
func (c *hdrCarrier) Set(k, v string)     { c.m[k] = v }
func (c *hdrCarrier) Keys() []string {
	var ks []string
	for k := range c.m {
		ks = append(ks, k)
	}
	return ks
}

var prop = propagation.TraceContext{}

func lenClass(n int) string {
	switch {
	case n == 0:
		return "0"
	case n < 55:
		return "<55"
	case n == 55:
		return "55"
	default:
		return ">55"
	}
}

func main() {
	vf.Main("C03", "exploration", func(c *vf.Ctx) {
		c.Rule = "seeded generators: valid span contexts x grammar-built tracestates (round trip), mutated/raw traceparent and tracestate header bytes (never-accept-malformed, untouched-on-failure, bad tracestate does not invalidate traceparent), Insert/Delete programs vs a move-to-front list model; a third of the round trips inject into a carrier an earlier hop already wrote to. non-trivial/distinct = distinct (family, accept/reject class, version, flags, length class, member-count) signatures; extraction over an earlier extraction of the same span with another tracestate"
		c.Assume = []string{"W3C trace-context level 1 ABNF transcribed by hand in the harness (union with the level-2 key grammar for the accept direction)"}

		// ---------------- round trip ----------------
		c.Cases("roundtrip", c.N(60_000, 600_000), 0, func(k *vf.Case) {
			r := k.R
			_, tid, sid, _ := genValidTP(r)
			flags := trace.TraceFlags(r.Intn(256))
			if r.Bool() {
				flags = trace.TraceFlags(r.Intn(2))
			}
			ms := genMembers(r, genCount(r))
			hdr := joinMembers(ms)
			var ts trace.TraceState
			var err error
			if r.Bool() || len(ms) > 32 {
				ts, err = trace.ParseTraceState(hdr)
			} else {
				// build through Insert (reverse order so the final order is ms)
				for i := len(ms) - 1; i >= 0 && err == nil; i-- {
					ts, err = ts.Insert(ms[i][0], ms[i][1])
				}
			}
			if err != nil {
				k.Violate("valid-tracestate-rejected", "members="+fmt.Sprint(len(ms)), fmt.Sprintf("grammar-valid tracestate rejected: %v\n%s", err, vf.Quote(hdr)), hdr)
				return
			}
			k.C.Count("rt_valid_tracestates", 1)
			if got := ts.String(); got != hdr {
				k.Violate("tracestate-string", "", fmt.Sprintf("String()=%s want %s", vf.Quote(got), vf.Quote(hdr)), hdr)
			}
			sc := trace.NewSpanContext(trace.SpanContextConfig{TraceID: tid, SpanID: sid, TraceFlags: flags, TraceState: ts, Remote: r.Bool()})
			ctx := trace.ContextWithSpanContext(context.Background(), sc)
			var carrier propagation.TextMapCarrier
			kind := r.Intn(3)
			switch kind {
			case 0:
				carrier = propagation.MapCarrier{}
			case 1:
				carrier = propagation.HeaderCarrier(http.Header{})
			default:
				carrier = &hdrCarrier{m: map[string]string{}}
			}
			if r.Chance(1, 3) {
				// the carrier already went through an earlier hop (retry, redirect, an outer instrumentation layer):
				// what is injected now replaces what that hop wrote
				_, ptid, psid, pfl := genValidTP(r)
				pcfg := trace.SpanContextConfig{TraceID: ptid, SpanID: psid, TraceFlags: trace.TraceFlags(pfl & 1)}
				if hdr != "" {
					pcfg.TraceState, _ = trace.ParseTraceState("earlier=hop")
				}
				prop.Inject(trace.ContextWithSpanContext(context.Background(), trace.NewSpanContext(pcfg)), carrier)
				k.C.Count("rt_reinjected_carriers", 1)
			}
			prop.Inject(ctx, carrier)
			tp, tsh := carrier.Get("traceparent"), carrier.Get("tracestate")
			info := recogniseTraceparent(tp)
			if !info.ok {
				k.Violate("injected-traceparent-malformed", "", vf.Quote(tp), tp)
				return
			}
			if _, why := recogniseTracestate(tsh); why != "" {
				k.Violate("injected-tracestate-malformed", why, vf.Quote(tsh), tsh)
			}
			// extracted into a fresh context, or on top of the very context it was injected from, or on top of a
			// context that holds the same span context as a local one: the result is the remote one every time
			base := context.Background()
			switch r.Intn(5) {
			case 0:
				base = ctx
			case 1:
				base = trace.ContextWithSpanContext(context.Background(), sc.WithRemote(false))
			case 2:
				// an earlier extraction of the same span whose tracestate has been edited since (another member
				// list under the same ids, flags and remote bit)
				stale, _ := trace.ParseTraceState("stale=1,earlier=hop")
				base = trace.ContextWithSpanContext(context.Background(), sc.WithRemote(true).WithTraceState(stale))
			}
			out := prop.Extract(base, carrier)
			got := trace.SpanContextFromContext(out)
			if !got.IsValid() || !got.IsRemote() || got.TraceID() != tid || got.SpanID() != sid ||
				got.IsSampled() != flags.IsSampled() || got.TraceState().String() != hdr {
				k.Violate("roundtrip-mismatch", fmt.Sprintf("members=%d", len(ms)),
					fmt.Sprintf("in: %s %s sampled=%v ts=%s\nheaders: %s | %s\nout: valid=%v remote=%v %s %s sampled=%v ts=%s",
						tid, sid, flags.IsSampled(), vf.Quote(hdr), vf.Quote(tp), vf.Quote(tsh), got.IsValid(), got.IsRemote(),
						got.TraceID(), got.SpanID(), got.IsSampled(), vf.Quote(got.TraceState().String())), nil)
			}
			if info.tid != tid.String() || info.sid != sid.String() || info.version != "00" {
				k.Violate("injected-traceparent-wrong", "", vf.Quote(tp), nil)
			}
			k.C.Count("rt_members_total", int64(len(ms)))
			if len(ms) == 32 {
				k.C.Count("rt_with_32_members", 1)
			}
			k.C.Sig(fmt.Sprintf("rt|%d|%v|%d|%d", kind, flags.IsSampled(), len(ms), len(hdr)/64))
			if k.Index < 2 {
				k.C.Sample(map[string]any{"family": "roundtrip", "traceparent": tp, "tracestate": tsh})
			}
		})

		// ---------------- arbitrary header bytes ----------------
		c.Cases("headers", c.N(250_000, 2_500_000), 0, func(k *vf.Case) {
			r := k.R
			valid, _, _, _ := genValidTP(r)
			var tp string
			switch r.Intn(10) {
			case 0:
				tp = string(r.Bytes(r.Intn(70)))
			case 1:
				tp = r.ASCIIFrom(lhex+"-", 50+r.Intn(12))
			case 2:
				tp = valid
			case 3: // higher version with/without suffix
				tp = vf.Pick(r, []string{"01", "cc", "fe"}) + valid[2:] + vf.Pick(r, []string{"", "-", "-what-the-future", "x", "-\x00"})
			default:
				tp = mutate(r, valid)
			}
			var tsh string
			switch r.Intn(6) {
			case 0:
				tsh = ""
			case 1:
				tsh = joinMembers(genMembers(r, genCount(r)))
			case 2:
				tsh = string(r.Bytes(r.Intn(40)))
			default:
				tsh = genTracestateHeader(r)
			}
			// base context sometimes carries a local span context that must stay untouched
			base := context.Background()
			var baseSC trace.SpanContext
			if r.Chance(1, 3) {
				baseSC = trace.NewSpanContext(trace.SpanContextConfig{TraceID: trace.TraceID{1}, SpanID: trace.SpanID{2}, TraceFlags: 1})
				base = trace.ContextWithSpanContext(base, baseSC)
			}
			ex := func(tp, tsh string) (context.Context, trace.SpanContext) {
				car := propagation.MapCarrier{"traceparent": tp}
				if tsh != "" || r.Bool() {
					car["tracestate"] = tsh
				}
				ctx := prop.Extract(base, car)
				return ctx, trace.SpanContextFromContext(ctx)
			}
			var ctx1 context.Context
			var sc1, sc0 trace.SpanContext
			if !k.Guard("panic-extract", "", func() { ctx1, sc1 = ex(tp, tsh); _, sc0 = ex(tp, "") }) {
				return
			}
			info := recogniseTraceparent(tp)
			accepted := ctx1 != base
			cls := "rejected"
			if accepted {
				cls = "accepted"
				k.C.Count("hdr_accepted", 1)
				if !sc1.IsValid() || !sc1.IsRemote() {
					k.Violate("extracted-invalid", "", fmt.Sprintf("tp=%s valid=%v remote=%v", vf.Quote(tp), sc1.IsValid(), sc1.IsRemote()), tp)
				}
				if !info.ok {
					k.Violate("malformed-traceparent-accepted", "len="+lenClass(len(tp)), fmt.Sprintf("traceparent %s accepted as %s-%s", vf.Quote(tp), sc1.TraceID(), sc1.SpanID()), tp)
				} else {
					if sc1.TraceID().String() != info.tid || sc1.SpanID().String() != info.sid {
						k.Violate("extracted-ids-differ", "", fmt.Sprintf("tp=%s got %s-%s", vf.Quote(tp), sc1.TraceID(), sc1.SpanID()), tp)
					}
					var fb byte
					fmt.Sscanf(info.flags, "%02x", &fb)
					if sc1.IsSampled() != (fb&1 == 1) {
						k.Violate("extracted-sampled-differs", "", fmt.Sprintf("tp=%s sampled=%v", vf.Quote(tp), sc1.IsSampled()), tp)
					}
				}
				// re-inject
				car2 := propagation.MapCarrier{}
				prop.Inject(ctx1, car2)
				tp2, ts2 := car2["traceparent"], car2["tracestate"]
				i2 := recogniseTraceparent(tp2)
				if !i2.ok || i2.version != "00" || i2.tid != sc1.TraceID().String() || i2.sid != sc1.SpanID().String() {
					k.Violate("reinjected-traceparent-malformed", "", fmt.Sprintf("%s -> %s", vf.Quote(tp), vf.Quote(tp2)), tp)
				}
				if _, why := recogniseTracestate(ts2); why != "" {
					k.Violate("reinjected-tracestate-malformed", whyClass(why), fmt.Sprintf("tracestate header %s re-injected as %s: %s", vf.Quote(tsh), vf.Quote(ts2), why), tsh)
				}
				if ts2 != "" {
					k.C.Count("hdr_accepted_with_tracestate", 1)
				}
			} else {
				k.C.Count("hdr_rejected", 1)
				if got := trace.SpanContextFromContext(ctx1); !got.Equal(baseSC) {
					k.Violate("context-touched-on-failure", "", vf.Quote(tp), tp)
				}
				if info.ok && info.version == "00" && (info.flags == "00" || info.flags == "01") {
					// a well-formed version-00 traceparent with flags the implementation supports
					k.Violate("wellformed-traceparent-rejected", "", vf.Quote(tp), tp)
				}
			}
			// bad tracestate never invalidates a good traceparent
			if sc1.IsValid() != sc0.IsValid() || sc1.TraceID() != sc0.TraceID() || sc1.SpanID() != sc0.SpanID() || sc1.TraceFlags() != sc0.TraceFlags() {
				k.Violate("tracestate-influences-traceparent", "", fmt.Sprintf("tp=%s ts=%s: with ts valid=%v, without valid=%v", vf.Quote(tp), vf.Quote(tsh), sc1.IsValid(), sc0.IsValid()), []string{tp, tsh})
			}
			if accepted {
				// tracestate content: all-or-nothing, equal to direct parse
				pts, perr := trace.ParseTraceState(tsh)
				if perr != nil && sc1.TraceState().Len() != 0 {
					k.Violate("unparsable-tracestate-kept", "", vf.Quote(tsh), tsh)
				}
				if perr == nil && sc1.TraceState().String() != pts.String() {
					k.Violate("tracestate-differs-from-parse", "", vf.Quote(tsh), tsh)
				}
			}
			k.C.Sig(fmt.Sprintf("hdr|%s|%s|%s|%v", cls, lenClass(len(tp)), verClass(tp), info.ok))
			if k.Index < 2 {
				k.C.Sample(map[string]any{"family": "headers", "traceparent": vf.Quote(tp), "tracestate": vf.Quote(tsh), "accepted": accepted})
			}
		})

		// ---------------- tracestate parser alone ----------------
		c.Cases("tsparse", c.N(150_000, 1_500_000), 0, func(k *vf.Case) {
			r := k.R
			h := genTracestateHeader(r)
			var ts trace.TraceState
			var err error
			if !k.Guard("panic-parse-tracestate", "", func() { ts, err = trace.ParseTraceState(h) }) {
				return
			}
			if err != nil {
				k.C.Count("ts_rejected", 1)
				if ts.Len() != 0 {
					k.Violate("error-with-nonempty-tracestate", "", vf.Quote(h), h)
				}
				k.C.Sig("tsp|rej|" + errClass(err))
				return
			}
			k.C.Count("ts_accepted", 1)
			out := ts.String()
			ms, why := recogniseTracestate(out)
			if why != "" {
				k.Violate("reinjected-tracestate-malformed", whyClass(why), fmt.Sprintf("ParseTraceState(%s) ok, String()=%s: %s", vf.Quote(h), vf.Quote(out), why), h)
				return
			}
			if len(ms) != ts.Len() {
				k.Violate("len-mismatch", "", vf.Quote(h), h)
			}
			// every member must literally occur in the input, in order
			pos := 0
			for _, m := range ms {
				i := strings.Index(h[pos:], m[0]+"="+m[1])
				if i < 0 {
					k.Violate("member-not-from-input", "", fmt.Sprintf("%s=%s not in %s", m[0], m[1], vf.Quote(h)), h)
					break
				}
				pos += i + len(m[0]) + 1 + len(m[1])
				if ts.Get(m[0]) != m[1] {
					k.Violate("get-mismatch", "", vf.Quote(h), h)
				}
			}
			// stable under re-parse
			ts2, err2 := trace.ParseTraceState(out)
			if err2 != nil || ts2.String() != out {
				k.Violate("reparse-unstable", "", vf.Quote(out), h)
			}
			k.C.Sig(fmt.Sprintf("tsp|acc|%d", len(ms)))
			if len(ms) == 32 {
				k.C.Count("ts_accepted_32", 1)
			}
		})

		// ---------------- edit programs ----------------
		c.Cases("edits", c.N(25_000, 250_000), 0, func(k *vf.Case) {
			r := k.R
			var ts trace.TraceState
			var model [][2]string
			type snap struct {
				ts  trace.TraceState
				str string
			}
			var snaps []snap
			pool := genMembers(r, 3+r.Intn(40))
			nops := 5 + r.Intn(80)
			if r.Chance(1, 4) {
				// start full
				ms := genMembers(r, 32)
				ts, _ = trace.ParseTraceState(joinMembers(ms))
				model = append(model, ms...)
			}
			overflowed, updated := false, false
			for op := 0; op < nops; op++ {
				prev := joinMembers(model)
				switch r.Intn(10) {
				case 0, 1: // delete
					var key string
					if len(model) > 0 && r.Bool() {
						key = model[r.Intn(len(model))][0]
					} else {
						key = genKey(r)
					}
					ts = ts.Delete(key)
					for i := range model {
						if model[i][0] == key {
							model = append(append([][2]string{}, model[:i]...), model[i+1:]...)
							break
						}
					}
				case 2: // invalid insert
					key, val := genKey(r), genValue(r)
					if r.Bool() {
						key = genBadKey(r)
					} else {
						val = genBadValue(r)
					}
					legal := keyLegalAny(key) && valueLegal(val)
					nts, err := ts.Insert(key, val)
					if err == nil && !legal {
						k.Violate("insert-accepted-illegal", classifyBad(key, val), fmt.Sprintf("Insert(%s,%s) accepted", vf.Quote(key), vf.Quote(val)), []string{key, val})
					}
					if err != nil {
						if nts.String() != prev {
							k.Violate("failed-insert-changed-state", "", fmt.Sprintf("Insert(%s,%s)", vf.Quote(key), vf.Quote(val)), nil)
						}
						k.C.Count("edit_invalid_inserts_rejected", 1)
					} else {
						model = modelInsert(model, key, val)
					}
					ts = nts
				default: // valid insert (new or existing key)
					m := pool[r.Intn(len(pool))]
					key, val := m[0], genValue(r)
					if len(model) > 0 && r.Chance(1, 4) {
						key = model[r.Intn(len(model))][0]
					}
					existed := false
					for _, mm := range model {
						if mm[0] == key {
							existed = true
						}
					}
					nts, err := ts.Insert(key, val)
					if err != nil {
						k.Violate("valid-insert-rejected", "", fmt.Sprintf("Insert(%s,%s): %v", vf.Quote(key), vf.Quote(val), err), nil)
						continue
					}
					if !existed && len(model) == 32 {
						overflowed = true
					}
					if existed {
						updated = true
					}
					model = modelInsert(model, key, val)
					ts = nts
				}
				want := joinMembers(model)
				got := ts.String()
				if got != want {
					k.Violate("edit-model-mismatch", "", fmt.Sprintf("after op %d: before %s\n got %s\nwant %s", op, vf.Quote(prev), vf.Quote(got), vf.Quote(want)), nil)
					return
				}
				if ts.Len() != len(model) {
					k.Violate("edit-len-mismatch", "", "", nil)
				}
				if _, why := recogniseTracestate(got); why != "" {
					k.Violate("edited-tracestate-malformed", whyClass(why), vf.Quote(got), nil)
				}
				if r.Chance(1, 6) {
					snaps = append(snaps, snap{ts, got})
				}
			}
			// immutability of earlier values
			for _, s := range snaps {
				if s.ts.String() != s.str {
					k.Violate("tracestate-value-mutated", "", fmt.Sprintf("earlier state changed from %s to %s", vf.Quote(s.str), vf.Quote(s.ts.String())), nil)
				}
			}
			if overflowed {
				k.C.Count("edit_programs_overflowed_32", 1)
			}
			if updated {
				k.C.Count("edit_programs_updated_existing", 1)
			}
			k.C.Count("edit_ops", int64(nops))
			k.C.Sig(fmt.Sprintf("edit|%v|%v|%d", overflowed, updated, len(model)))
			if k.Index < 1 {
				k.C.Sample(map[string]any{"family": "edits", "ops": nops, "final": joinMembers(model)})
			}
		})

		c.Floor("rt_valid_tracestates", 1000)
		c.Floor("hdr_accepted", 1000)
		c.Floor("hdr_rejected", 1000)
		c.Floor("ts_accepted", 1000)
		c.Floor("edit_programs_overflowed_32", 100)
	})
}

func modelInsert(model [][2]string, key, val string) [][2]string {
	out := [][2]string{{key, val}}
	for _, m := range model {
		if m[0] != key {
			out = append(out, m)
		}
	}
	if len(out) > 32 {
		out = out[:32]
	}
	return out
}

func verClass(tp string) string {
	if len(tp) < 2 {
		return "short"
	}
	switch tp[:2] {
	case "00", "ff", "fe", "01":
		return tp[:2]
	}
	if isLHex(tp[0]) && isLHex(tp[1]) {
		return "xx"
	}
	return "nonhex"
}

func whyClass(why string) string {
	if i := strings.IndexByte(why, ' '); i > 0 {
		j := strings.IndexByte(why[i+1:], ' ')
		if j > 0 {
			return why[:i+1+j]
		}
	}
	return why
}

func errClass(err error) string {
	s := err.Error()
	for _, c := range []string{"duplicate", "too many", "invalid tracestate list-member"} {
		if strings.Contains(s, c) {
			return c
		}
	}
	return "other"
}

func classifyBad(key, val string) string {
	if !keyLegalAny(key) {
		for i := 0; i < len(key); i++ {
			if key[i] >= 0x80 {
				return "key with non-ASCII byte"
			}
		}
		return "key " + vf.Quote(key)
	}
	return "value " + vf.Quote(val)
}
